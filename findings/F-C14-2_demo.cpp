// candidate F-C14-2: map_ over three keys; the child of the FIRST key throws from its stop hook when the graph stops.
// Expected (C14): a failing stop does not prevent the remaining nodes from stopping; every node whose start completed is
// stopped exactly once, no later than the return of run().
#include <hgraph/lib/std/std_operators.h>
#include <hgraph/runtime/node_scheduler.h>
#include <hgraph/runtime/runtime.h>
#include <hgraph/types/graph_wiring.h>
#include <hgraph/types/metadata/type_registry.h>
#include <hgraph/types/static_node.h>
#include <hgraph/types/subgraph_wiring.h>
#include <hgraph/types/wired_fn.h>

#include <cstdio>
#include <stdexcept>
#include <string>
#include <vector>

using namespace hgraph;

namespace
{
    std::vector<std::string> hooks;
    Int                      failing_key = -1;

    struct Keys
    {
        static constexpr auto name              = "fc14_keys";
        static constexpr bool schedule_on_start = true;
        static void           eval(Out<TSD<Int, TS<Int>>> out)
        {
            out.set(Int{1}, Int{1});
            out.set(Int{2}, Int{2});
            out.set(Int{3}, Int{3});
        }
    };
    struct Child
    {
        static constexpr auto name = "fc14_child";
        static void           eval(In<"x", TS<Int>> x, State<Int> id, Out<TS<Int>> out)
        {
            id.set(x.value());
            out.set(x.value() * 10);
        }
        static void stop(State<Int> id)
        {
            hooks.push_back("stop:" + std::to_string(static_cast<long long>(id.get())));
            if (id.get() == failing_key) { throw std::runtime_error("stop failed for key " + std::to_string(static_cast<long long>(id.get()))); }
        }
    };
    struct ChildG
    {
        static constexpr auto name = "fc14_child_g";
        static Port<TS<Int>>  compose(Wiring &w, Port<TS<Int>> x) { return wire<Child>(w, x); }
    };
    struct Sink
    {
        static constexpr auto name = "fc14_sink";
        static void           eval(In<"d", TSD<Int, TS<Int>>> d) { (void)d; }
    };

    int scenario(const char *label, Int fail)
    {
        hooks.clear();
        failing_key = fail;
        std::string error;
        std::string at_return;
        {
            Wiring w;
            auto   keys   = wire<Keys>(w);
            auto   mapped = wire<stdlib::map_>(w, fn<ChildG>(), keys).as<TSD<Int, TS<Int>>>();
            wire<Sink>(w, mapped);
            GraphBuilder         gb = std::move(w).finish();
            GraphExecutorBuilder eb;
            eb.graph_builder(std::move(gb)).start_time(MIN_ST).end_time(MIN_ST + TimeDelta{5});
            GraphExecutorValue executor = eb.make_executor();
            try { executor.view().run(); }
            catch (const std::exception &e) { error = e.what(); }
            for (const auto &h : hooks) { at_return += h + " "; }
        }
        std::string at_release;
        for (const auto &h : hooks) { at_release += h + " "; }
        std::printf("[%s] error: %s\n[%s] stop hooks at return of run(): %s\n[%s] stop hooks after release     : %s\n", label,
                    error.empty() ? "<none>" : error.substr(0, error.find('\n')).c_str(), label, at_return.c_str(), label, at_release.c_str());
        int failures = 0;
        for (int k = 1; k <= 3; ++k)
        {
            const std::string h = "stop:" + std::to_string(k) + " ";
            std::size_t       n = 0, pos = 0;
            while ((pos = at_return.find(h, pos)) != std::string::npos) { ++n; pos += h.size(); }
            if (n != 1)
            {
                ++failures;
                std::printf("[%s] VIOLATION: the child of key %d was stopped %zu time(s) by the return of run()\n", label, k, n);
            }
        }
        return failures;
    }
}  // namespace

int main()
{
    (void)TypeRegistry::instance().register_scalar<Int>("int");
    stdlib::register_standard_operators();
    int failures = 0;
    failures += scenario("no fault (control)", Int{-1});
    failures += scenario("stop of the first key's child throws", Int{1});
    std::printf("%s (%d)\n", failures ? "FAIL" : "PASS", failures);
    return failures ? 1 : 0;
}
