// candidate F-C15-2: a self-scheduling node (no error output of its own) inside a try_except sub-graph throws once.
#include <hgraph/lib/std/std_operators.h>
#include <hgraph/lib/testing/check_output.h>
#include <hgraph/lib/testing/eval_node.h>
#include <hgraph/lib/testing/record_replay.h>
#include <hgraph/lib/testing/runtime_support.h>
#include <hgraph/runtime/node_error.h>
#include <hgraph/runtime/node_scheduler.h>
#include <hgraph/runtime/runtime.h>
#include <hgraph/types/graph_wiring.h>
#include <hgraph/types/metadata/type_registry.h>
#include <hgraph/types/static_node.h>
#include <hgraph/types/subgraph_wiring.h>

#include <cstdio>
#include <stdexcept>
#include <string>
#include <vector>

using namespace hgraph;

namespace
{
    struct FlakyCounter
    {
        static constexpr auto name = "flaky_counter";
        static void eval(In<"x", TS<Int>> x, State<Int> n, NodeScheduler sched, Out<TS<Int>> out)
        {
            (void)x;
            n.set(n.get() + 1);
            if (n.get() < 6) { sched.schedule(MIN_TD); }
            if (n.get() == 2) { throw std::runtime_error("flaky 2"); }
            out.set(n.get());
        }
    };
    struct G
    {
        static constexpr auto name = "flaky_g";
        static Port<TS<Int>>  compose(Wiring &w, Port<TS<Int>> x) { return wire<FlakyCounter>(w, x); }
    };
    using TryIntResult = UnNamedTSB<Field<"exception", TS<NodeError>>, Field<"out", TS<Int>>>;
    struct TryOutValue
    {
        static constexpr auto name = "try_out_value";
        static void           eval(In<"r", TryIntResult, InputValidity::Unchecked> r, Out<TS<Int>> out)
        {
            auto field = r.template field<"out">();
            if (field.valid() && field.modified()) { out.set(field.value()); }
        }
    };
    struct TryValue
    {
        static constexpr auto name = "try_value";
        static Port<TS<Int>>  compose(Wiring &w, Port<TS<Int>> x) { return wire<TryOutValue>(w, try_except_<G>(w, x).as<TryIntResult>()); }
    };
}  // namespace

int main()
{
    using namespace hgraph::testing;
    (void)TypeRegistry::instance().register_scalar<Int>("int");
    stdlib::register_standard_operators();
    std::vector<std::optional<Int>> in{Int{1}, std::nullopt, std::nullopt, std::nullopt, std::nullopt, std::nullopt, std::nullopt};
    const auto outs = eval_node<TryValue>(in);
    const bool want[6] = {true, false, true, true, true, true};
    int failures = 0;
    for (std::size_t i = 0; i < 6; ++i)
    {
        const bool has = i < outs.size() && outs[i].has_value();
        std::printf("cycle %zu: out=%s\n", i, has ? std::to_string(static_cast<long long>(*outs[i])).c_str() : "-");
        if (has != want[i]) { ++failures; std::printf("  VIOLATION: tick %s\n", want[i] ? "lost" : "unexpected"); }
    }
    std::printf("%s (%d)\n", failures ? "FAIL" : "PASS", failures);
    return failures ? 1 : 0;
}
