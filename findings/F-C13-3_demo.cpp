// C13 observation 1 (UNMODIFIED tree) - a dictionary read through a reference: on a retarget the consumer must see the
// difference between old and new contents, i.e. the old-only keys as REMOVED.  TSDInputView offers three views of the
// removed part of the delta: removed_keys(), removed_values() and removed_items().  They must agree.
//
//   cycle 0  A = {1:10, 2:20}, B = {2:200, 3:300}, cond = true   (consumer reads if_then_else(cond, A, B) as TSD)
//   cycle 2  cond = false: retarget A -> B                         -> key 1 is old-only: removed = {1}
//   control  cycle 3: B itself removes key 3 (ordinary removal of the current target) -> removed = {3}
// Expected: in cycle 2 all three accessors report exactly key 1.  Observed on the pristine tree: removed_keys()
// reports {1}, but removed_items() and removed_values() are EMPTY - a consumer that iterates removed_items()
// (the natural way to learn which entries to drop) never learns that key 1 left the dictionary on a retarget.
#include <hgraph/lib/std/std_operators.h>
#include <hgraph/lib/testing/eval_node.h>
#include <hgraph/types/graph_wiring.h>
#include <hgraph/types/metadata/type_registry.h>
#include <hgraph/types/static_node.h>

#include <algorithm>
#include <cstdio>
#include <string>
#include <vector>

using namespace hgraph;
using namespace hgraph::testing;

namespace
{
    using IntTsd = TSD<Int, TS<Int>>;

    template <typename T, typename U> std::optional<T> mk(U &&v) { return T{std::forward<U>(v)}; }
    template <typename T> std::optional<T> mk(std::nullopt_t) { return std::nullopt; }
    template <typename T, typename... A> std::vector<std::optional<T>> seq(A &&...a)
    {
        std::vector<std::optional<T>> o;
        (o.push_back(mk<T>(std::forward<A>(a))), ...);
        return o;
    }

    std::string fmt(std::vector<Int> v)
    {
        std::sort(v.begin(), v.end());
        std::string s = "{";
        for (std::size_t i = 0; i < v.size(); ++i) { s += (i ? "," : "") + std::to_string(v[i]); }
        return s + "}";
    }

    struct RemovedProbe
    {
        static constexpr auto name = "c13_removed_probe";
        static void eval(In<"d", IntTsd> d, Out<TS<Str>> out)
        {
            std::vector<Int> keys, items;
            std::size_t      values = 0;
            for (const auto &k : d.removed_keys()) { keys.push_back(k.template checked_as<Int>()); }
            for (const auto &[k, v] : d.removed_items()) { static_cast<void>(v); items.push_back(k.template checked_as<Int>()); }
            for (const auto &v : d.removed_values()) { static_cast<void>(v); ++values; }
            out.set(Str{"removed_keys=" + fmt(keys) + " removed_items=" + fmt(items) + " removed_values#=" + std::to_string(values)});
        }
    };

    struct G
    {
        [[maybe_unused]] static constexpr auto name = "c13_obs1_graph";
        static Port<TS<Str>> compose(Wiring &w, Port<TS<Bool>> c, Port<IntTsd> a, Port<IntTsd> b)
        {
            return wire<RemovedProbe>(w, wire<stdlib::if_then_else>(w, c, a, b).as<IntTsd>());
        }
    };
}  // namespace

int main()
{
    stdlib::register_standard_operators();
    constexpr auto none = std::nullopt;
    const auto got = eval_node<G>(seq<Bool>(true, none, false, none),
                                  seq<Value>(dict_delta<Int, TS<Int>>({{1, 10}, {2, 20}}), none, none, none),
                                  seq<Value>(dict_delta<Int, TS<Int>>({{2, 200}, {3, 300}}), none, none,
                                             dict_delta<Int, TS<Int>>({}, {3})));
    const auto want = seq<Str>(Str{"removed_keys={} removed_items={} removed_values#=0"}, none,
                               Str{"removed_keys={1} removed_items={1} removed_values#=1"},
                               Str{"removed_keys={3} removed_items={3} removed_values#=1"});
    int bad = 0;
    for (std::size_t i = 0; i < std::max(got.size(), want.size()); ++i)
    {
        const std::string g = i < got.size() && got[i] ? std::string{*got[i]} : "(not evaluated)";
        const std::string e = i < want.size() && want[i] ? std::string{*want[i]} : "(not evaluated)";
        const bool ok = g == e;
        std::printf("cycle %zu: observed %s\n         expected %s %s\n", i, g.c_str(), e.c_str(), ok ? "" : "<-- MISMATCH");
        if (!ok) { ++bad; }
    }
    if (bad != 0)
    {
        std::printf("FAIL: on a reference retarget removed_items()/removed_values() do not report the old-only keys that "
                    "removed_keys() reports\n");
        return 1;
    }
    std::printf("C13 observation 1: PASS\n");
    return 0;
}
