// F-C06-1: the passive() marker must be part of node identity at wiring time.
#include <hgraph/lib/std/std_operators.h>
#include <hgraph/runtime/runtime.h>
#include <hgraph/types/graph_wiring.h>
#include <hgraph/types/metadata/type_registry.h>
#include <hgraph/types/static_node.h>
#include <cstdio>
#include <vector>
using namespace hgraph;
namespace {
struct Counter {
    static constexpr auto name = "counter";
    static constexpr bool schedule_on_start = true;
    static void eval(Scalar<"limit", Int> limit, State<Int> n, NodeScheduler sched, Out<TS<Int>> out) {
        const Int v = n.get() + 1; n.set(v); out.set(v);
        if (v < limit.value()) { sched.schedule(MIN_TD); }
    }
};
struct Sum {
    static constexpr auto name = "sum";
    static void eval(In<"lhs", TS<Int>> lhs, In<"rhs", TS<Int>> rhs, Out<TS<Int>> out) { out.set(lhs.value() + rhs.value()); }
};
std::vector<Int> cap_p, cap_q;
struct CaptureP { static void eval(In<"in", TS<Int>> in) { cap_p.push_back(in.value()); } };
struct CaptureQ { static void eval(In<"in", TS<Int>> in) { cap_q.push_back(in.value()); } };
int run_case(bool passive_first) {
    cap_p.clear(); cap_q.clear();
    Wiring w;
    auto a = wire<Counter>(w, Int{4});   // ticks 1,2,3,4 at cycles 0..3
    auto b = wire<Counter>(w, Int{1});   // ticks 1 at cycle 0 only
    Port<TS<Int>> p, q;
    if (passive_first) { p = wire<Sum>(w, passive(a), b); q = wire<Sum>(w, a, b); }
    else               { q = wire<Sum>(w, a, b); p = wire<Sum>(w, passive(a), b); }
    const bool distinct = p.node() != q.node();
    wire<CaptureP>(w, p); wire<CaptureQ>(w, q);
    GraphBuilder gb = std::move(w).finish();
    GraphExecutorBuilder eb;
    eb.graph_builder(std::move(gb)).start_time(MIN_ST).end_time(MIN_ST + TimeDelta{100});
    GraphExecutorValue ex = eb.make_executor();
    ex.view().run();
    std::printf("passive_first=%d distinct_nodes=%d p_ticks=%zu q_ticks=%zu\n", passive_first, distinct, cap_p.size(), cap_q.size());
    // expected: passive(a)+b runs only when b ticks (cycle 0) -> 1 tick ; a+b runs on every tick of a -> 4 ticks
    int bad = 0;
    if (!distinct) ++bad;
    if (cap_p.size() != 1) ++bad;
    if (cap_q.size() != 4) ++bad;
    return bad;
}
}
int main() {
    (void)TypeRegistry::instance().register_scalar<Int>("int");
    stdlib::register_standard_operators();
    int bad = run_case(true) + run_case(false);
    std::printf(bad ? "FAIL (%d)\n" : "OK\n", bad);
    return bad ? 1 : 0;
}
