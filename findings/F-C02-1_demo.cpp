// C02 demo 4: a wake-up booked by a node INSIDE a reduce_ combiner child must
// be honoured at exactly its time, also when the reduced collection happens to
// tick (on an unrelated element) in that very cycle.
//
//   feed : TSL<TS<Int>,4> = [1, 2, 30, 40] at +0, element 0 := 10 at +tick_at
//   reduce_(HoldAdd, feed): binary tree  root(c0) = c1(e0,e1) (+) c2(e2,e3)
//   HoldAdd: out = lhs + rhs; when the sum is 70 it books an alarm 5 us later and
//            on that alarm publishes sum + 1000.
//
// Only c2 (30 + 40) books an alarm, for +5.  Control: element 0 ticks at +6 (the
// alarm cycle is otherwise idle).  Case under test: element 0 ticks at +5 too.
#include <hgraph/lib/std/std_operators.h>
#include <hgraph/runtime/lifecycle_observer.h>
#include <hgraph/runtime/node_scheduler.h>
#include <hgraph/runtime/runtime.h>
#include <hgraph/types/graph_wiring.h>
#include <hgraph/types/metadata/type_registry.h>
#include <hgraph/types/static_node.h>
#include <hgraph/types/wired_fn.h>

#include <algorithm>
#include <cstdio>
#include <utility>
#include <vector>

using namespace hgraph;

namespace
{
    long us(DateTime t) { return static_cast<long>((t - MIN_ST).count()); }

    std::vector<long>                 requested;      // alarm times booked inside combiners
    std::vector<long>                 alarms_fired;   // times a combiner ran on its alarm
    std::vector<std::pair<long, Int>> combiner_out;   // (time, value) of every combiner evaluation
    std::vector<std::pair<long, Int>> seen_values;    // (time, value) of the reduce output
    std::vector<long>                 root_cycles;    // root graph cycle times

    struct Feed
    {
        static constexpr auto name              = "feed";
        static constexpr bool schedule_on_start = true;
        static void eval(Scalar<"tick_at", Int> tick_at, State<Int> step, NodeScheduler sched,
                         Out<TSL<TS<Int>, 4>> out)
        {
            if (step.get() == 0)
            {
                out[0].set(Int{1});
                out[1].set(Int{2});
                out[2].set(Int{30});
                out[3].set(Int{40});
                sched.schedule(TimeDelta{tick_at.value()});
            }
            else { out[0].set(Int{10}); }
            step.set(step.get() + 1);
        }
    };

    struct HoldAdd
    {
        static constexpr auto name = "hold_add";
        static void eval(In<"lhs", TS<Int>> lhs, In<"rhs", TS<Int>> rhs, NodeScheduler sched, DateTime now,
                         Out<TS<Int>> out)
        {
            const Int sum = lhs.value() + rhs.value();
            if (sched.is_scheduled_now())
            {
                alarms_fired.push_back(us(now));
                out.set(sum + Int{1000});
                combiner_out.emplace_back(us(now), sum + Int{1000});
                return;
            }
            out.set(sum);
            combiner_out.emplace_back(us(now), sum);
            if (sum == Int{70} && !sched.is_scheduled())
            {
                sched.schedule(TimeDelta{5});
                requested.push_back(us(now) + 5);
            }
        }
    };

    struct ValueSink
    {
        static constexpr auto name = "value_sink";
        static void eval(In<"in", TS<Int>> in, DateTime now) { seen_values.emplace_back(us(now), in.value()); }
    };

    struct CycleObserver : LifecycleObserver
    {
        void on_before_graph_evaluation(const GraphView &graph) override
        {
            if (!graph.is_nested()) { root_cycles.push_back(us(graph.evaluation_time())); }
        }
    };

    void print(const char *label, const std::vector<long> &v)
    {
        std::printf("%s:", label);
        for (long x : v) { std::printf(" %ld", x); }
        std::printf("\n");
    }

    void print(const char *label, const std::vector<std::pair<long, Int>> &v)
    {
        std::printf("%s:", label);
        for (auto &[t, x] : v) { std::printf(" (%ld,%d)", t, static_cast<int>(x)); }
        std::printf("\n");
    }

    int run_case(const char *title, Int tick_at, const std::vector<long> &expected_cycles,
                 const std::vector<std::pair<long, Int>> &expected_values)
    {
        requested.clear();
        alarms_fired.clear();
        combiner_out.clear();
        seen_values.clear();
        root_cycles.clear();

        Wiring w;
        auto   feed    = wire<Feed>(w, tick_at);
        auto   reduced = wire<stdlib::reduce_>(w, fn<HoldAdd>(), feed).as<TS<Int>>();
        wire<ValueSink>(w, reduced);
        GraphBuilder gb = std::move(w).finish();

        CycleObserver        observer;
        GraphExecutorBuilder eb;
        eb.graph_builder(std::move(gb))
            .add_lifecycle_observer(&observer)
            .start_time(MIN_ST)
            .end_time(MIN_ST + TimeDelta{100});
        GraphExecutorValue executor = eb.make_executor();
        executor.view().run();

        std::printf("--- %s: element 0 ticks at +%d\n", title, static_cast<int>(tick_at));
        print("alarms booked inside combiners for ", requested);
        print("alarms fired at                    ", alarms_fired);
        print("root cycles                        ", root_cycles);
        print("combiner evaluations               ", combiner_out);
        print("reduce output                      ", seen_values);

        int failures = 0;
        if (root_cycles != expected_cycles)
        {
            std::printf("FAIL: root cycle times differ from the requested wake-up times\n");
            ++failures;
        }
        if (alarms_fired != requested)
        {
            std::printf("FAIL: the alarm booked inside the combiner child was not honoured exactly at its time\n");
            ++failures;
        }
        if (seen_values != expected_values)
        {
            std::printf("FAIL: reduce output history differs from the expected one\n");
            ++failures;
        }
        return failures;
    }
}  // namespace

int main()
{
    (void)TypeRegistry::instance().register_scalar<Int>("int");
    stdlib::register_standard_operators();

    int failures = 0;
    failures += run_case("control (alarm cycle otherwise idle)", Int{6}, {0, 5, 6},
                         {{0, Int{73}}, {5, Int{1073}}, {6, Int{1082}}});
    failures += run_case("alarm coincides with an unrelated element tick", Int{5}, {0, 5},
                         {{0, Int{73}}, {5, Int{1082}}});

    std::printf(failures == 0 ? "OK\n" : "FAILED (%d)\n", failures);
    return failures == 0 ? 0 : 1;
}
