// C14 observation 9 (UNMODIFIED tree): a stop failure inside a child of map_ over a DYNAMIC TSL is swallowed.
//
// Scenario: graph = replay(TSL<TS<Int>>) -> map_sink_(fn<Sink>, ts) ; the list grows to two elements, so the
// tsl_map node owns two child graphs, each holding one Sink node whose stop hook throws "injected stop fault".
// No evaluate fault happens; the run reaches its end and the graph is stopped.
//
// What the property (C14) demands: every started child node is stopped exactly once (2 stop calls) AND "a failing
// stop does not prevent the remaining nodes from stopping; and the original error reaches the caller naming the
// failing node" - so run() (here: eval_node) must throw and the text must contain "injected stop fault".
// (The sibling map_ over TSD / reduce_ / switch_ / plain nested graphs all rethrow the first child stop failure.)
// Exit 0 + "OK" iff both hold.

#include <hgraph/lib/std/std_nodes.h>
#include <hgraph/lib/std/std_operators.h>
#include <hgraph/lib/std/value_util.h>
#include <hgraph/lib/testing/eval_node.h>
#include <hgraph/lib/testing/runtime_support.h>
#include <hgraph/types/graph_wiring.h>
#include <hgraph/types/static_node.h>
#include <hgraph/types/subgraph_wiring.h>
#include <hgraph/types/wired_fn.h>

#include <cstdio>
#include <optional>
#include <stdexcept>
#include <string>
#include <vector>

using namespace hgraph;
using namespace hgraph::testing;

namespace
{
    int g_starts = 0, g_stops = 0, g_evals = 0;

    struct FaultyStopSink
    {
        static constexpr auto name = "c14_faulty_stop_sink";
        static void           start() { ++g_starts; }
        static void           eval(In<"ndx", TS<Int>> ndx, In<"ts", TS<Int>> ts)
        {
            (void)ndx.value();
            (void)ts.value();
            ++g_evals;
        }
        static void stop()
        {
            ++g_stops;
            throw std::runtime_error("injected stop fault");
        }
    };

    struct MapDynamicSinkG
    {
        static constexpr auto     name = "c14_map_dynamic_sink_g";
        static Port<TSL<TS<Int>>> compose(Wiring &w, Port<TSL<TS<Int>>> ts)
        {
            wire<stdlib::map_sink_>(w, fn<FaultyStopSink>(), ts);
            return ts;
        }
    };

    // Control: the same sink under map_ over a FIXED-size TSL is expanded inline into root-graph nodes, whose stop
    // failure does reach the caller - showing that the harness (eval_node -> run()) propagates stop failures.
    struct MapFixedSinkG
    {
        static constexpr auto        name = "c14_map_fixed_sink_g";
        static Port<TSL<TS<Int>, 2>> compose(Wiring &w, Port<TSL<TS<Int>, 2>> ts)
        {
            wire<stdlib::map_sink_>(w, fn<FaultyStopSink>(), ts);
            return ts;
        }
    };
}  // namespace

int main()
{
    stdlib::register_standard_operators();

    std::vector<std::optional<Value>> input;
    input.emplace_back(list_delta<TS<Int>>({{0, 10}}));
    input.emplace_back(list_delta<TS<Int>>({{1, 20}}));
    input.emplace_back(list_delta<TS<Int>>({{0, 30}}));

    {
        std::vector<std::optional<Value>> fixed_input;
        fixed_input.emplace_back(list_delta<TS<Int>>(std::vector<std::optional<Int>>{Int{10}, Int{20}}));
        bool        control_threw = false;
        std::string control_error;
        try { (void)eval_node<MapFixedSinkG>(fixed_input); }
        catch (const std::exception &e) { control_threw = true; control_error = e.what(); }
        std::printf("control (fixed TSL, inline nodes): starts=%d stops=%d run threw: %s %s\n", g_starts, g_stops,
                    control_threw ? "yes" : "no", control_error.substr(0, 120).c_str());
        if (!control_threw) { std::printf("control did not throw - harness does not propagate stop failures; demo inconclusive\n"); return 2; }
        g_starts = g_stops = g_evals = 0;
    }

    std::string error;
    bool        threw = false;
    try { (void)eval_node<MapDynamicSinkG>(input); }
    catch (const std::exception &e) { threw = true; error = e.what(); }

    std::printf("child sink nodes: starts=%d evals=%d stops=%d\n", g_starts, g_evals, g_stops);
    std::printf("run threw: %s%s%s\n", threw ? "yes" : "no", threw ? " : " : "", error.c_str());

    int rc = 0;
    if (g_starts != 2 || g_stops != 2)
    {
        std::printf("DISCREPANCY: expected 2 children started and each stopped exactly once\n");
        rc = 1;
    }
    if (!threw || error.find("injected stop fault") == std::string::npos)
    {
        std::printf("DISCREPANCY: the stop failure of a tsl_map child did not reach the caller "
                    "(run reported success although a node failed to stop)\n");
        rc = 1;
    }
    if (rc == 0) { std::printf("C14 observation 9: stop failure of a dynamic-TSL map child reaches the caller: OK\n"); }
    else { std::printf("C14 observation 9: FAIL\n"); }
    return rc;
}
