// F-C06-3 candidate: two switch_ calls that differ ONLY in which keyword names the same two sources are passed under.
//   s1 = switch_(key, cases, lhs = x, rhs = y)   -> branch computes lhs - rhs = x - y
//   s2 = switch_(key, cases, rhs = x, lhs = y)   -> branch computes lhs - rhs = y - x
// C06: the behaviour of a call must not depend on what else is wired in the graph.  Alone, s2 yields y - x.
#include <hgraph/lib/std/std_operators.h>
#include <hgraph/runtime/runtime.h>
#include <hgraph/types/graph_wiring.h>
#include <hgraph/types/metadata/type_registry.h>
#include <hgraph/types/static_node.h>
#include <hgraph/types/wired_fn.h>
#include <cstdio>
#include <map>
#include <string>
#include <vector>
using namespace hgraph;
namespace {
long long cyc(DateTime now) { return (long long)(now - MIN_ST).count(); }
struct Key { static constexpr bool schedule_on_start = true; static void eval(Out<TS<Str>> out) { out.set(Str{"d"}); } };
struct X { static constexpr auto name = "src_x"; static constexpr bool schedule_on_start = true; static void eval(Out<TS<Int>> out) { out.set(Int{10}); } };
struct Y { static constexpr auto name = "src_y"; static constexpr bool schedule_on_start = true; static void eval(Out<TS<Int>> out) { out.set(Int{3}); } };
struct Diff { static constexpr auto name = "diff";
  static Port<TS<Int>> compose(Wiring &, NamedPort<"lhs", TS<Int>> lhs, NamedPort<"rhs", TS<Int>> rhs) { using namespace hgraph::stdlib::syntax; return (lhs - rhs).as<TS<Int>>(); } };
std::map<std::string, std::vector<long long>> seen;
struct Log { static constexpr auto name = "log";
  static void eval(In<"v", TS<Int>> v, Scalar<"tag", Str> tag, DateTime) { seen[tag.value()].push_back((long long)v.value()); } };
std::vector<long long> run(bool with_first, bool with_second) {
  seen.clear();
  Wiring w;
  auto key = wire<Key>(w); auto x = wire<X>(w); auto y = wire<Y>(w);
  auto cases = stdlib::switch_cases({{Value{Str{"d"}}, fn<Diff>()}});
  if (with_first)  { auto s1 = wire<stdlib::switch_>(w, key, cases, arg<"lhs">(x), arg<"rhs">(y)).as<TS<Int>>(); wire<Log>(w, s1, Str{"s1"}); }
  if (with_second) { auto s2 = wire<stdlib::switch_>(w, key, cases, arg<"rhs">(x), arg<"lhs">(y)).as<TS<Int>>(); wire<Log>(w, s2, Str{"s2"}); }
  GraphBuilder gb = std::move(w).finish();
  GraphExecutorBuilder eb; eb.graph_builder(std::move(gb)).start_time(MIN_ST).end_time(MIN_ST + TimeDelta{10});
  GraphExecutorValue ex = eb.make_executor(); ex.view().run();
  return seen["s2"];
}
}
int main() {
  (void)TypeRegistry::instance().register_scalar<Int>("int");
  stdlib::register_standard_operators();
  const auto alone = run(false, true);
  const auto together = run(true, true);
  auto show = [](const char *l, const std::vector<long long> &v) { std::printf("%s:", l); for (auto x : v) std::printf(" %lld", x); std::printf("\n"); };
  show("s2 wired alone            (lhs=y, rhs=x -> y - x)", alone);
  show("s2 wired after s1 (lhs=x, rhs=y)              ", together);
  const bool ok = alone == together && alone == std::vector<long long>{-7};
  std::printf(ok ? "PASS\n" : "FAILED: the second switch_ call changed behaviour because the first one was wired\n");
  return ok ? 0 : 1;
}
