// F-C15-1: a captured failure inside a wrapped sub-graph at a node that is not the sub-graph's first node
// makes the NEXT cycle of that sub-graph skip every node ranked before the failing one.
//
//   try_except( x -> add_one -> throw_on_negative )      inputs per cycle: 5, -3, 7, -9, -9, 1
// expected   out : 12  -   16  -   -   4
// expected   err : -   e   -   e   e   -
#include <hgraph/lib/std/std_operators.h>
#include <hgraph/lib/testing/check_output.h>
#include <hgraph/lib/testing/eval_node.h>
#include <hgraph/lib/testing/record_replay.h>
#include <hgraph/lib/testing/runtime_support.h>
#include <hgraph/runtime/node_error.h>
#include <hgraph/runtime/runtime.h>
#include <hgraph/types/graph_wiring.h>
#include <hgraph/types/metadata/type_registry.h>
#include <hgraph/types/static_node.h>
#include <hgraph/types/subgraph_wiring.h>

#include <cstdio>
#include <stdexcept>
#include <string>
#include <vector>

using namespace hgraph;

namespace
{
    struct ThrowOnNegative
    {
        static constexpr auto name = "throw_on_negative";
        static void           eval(In<"x", TS<Int>> x, Out<TS<Int>> out)
        {
            if (x.value() < 0) { throw std::runtime_error("negative input " + std::to_string(x.value())); }
            out.set(x.value() * 2);
        }
    };
    struct AddOne
    {
        static constexpr auto name = "add_one";
        static void           eval(In<"in", TS<Int>> in, Out<TS<Int>> out) { out.set(in.value() + 1); }
    };
    struct TwoStageG
    {
        static constexpr auto name = "two_stage_g";
        static Port<TS<Int>>  compose(Wiring &w, Port<TS<Int>> x) { return wire<ThrowOnNegative>(w, wire<AddOne>(w, x)); }
    };
    using TryIntResult = UnNamedTSB<Field<"exception", TS<NodeError>>, Field<"out", TS<Int>>>;
    struct TryOutValue
    {
        static constexpr auto name = "try_out_value";
        static void           eval(In<"r", TryIntResult, InputValidity::Unchecked> r, Out<TS<Int>> out)
        {
            auto field = r.template field<"out">();
            if (field.valid() && field.modified()) { out.set(field.value()); }
        }
    };
    struct TryExcMsg
    {
        static constexpr auto name = "try_exc_msg";
        static void           eval(In<"r", TryIntResult, InputValidity::Unchecked> r, Out<TS<Str>> out)
        {
            auto field = r.template field<"exception">();
            if (field.valid() && field.modified()) { out.set(field.base().value().as_bundle().at("error_msg").checked_as<Str>()); }
        }
    };
    struct TryValue
    {
        static constexpr auto name = "try_value";
        static Port<TS<Int>>  compose(Wiring &w, Port<TS<Int>> x) { return wire<TryOutValue>(w, try_except_<TwoStageG>(w, x).as<TryIntResult>()); }
    };
    struct TryErr
    {
        static constexpr auto name = "try_err";
        static Port<TS<Str>>  compose(Wiring &w, Port<TS<Int>> x) { return wire<TryExcMsg>(w, try_except_<TwoStageG>(w, x).as<TryIntResult>()); }
    };
}  // namespace

int main()
{
    using namespace hgraph::testing;
    (void)TypeRegistry::instance().register_scalar<Int>("int");
    stdlib::register_standard_operators();

    const auto in   = values<Int>(5, -3, 7, -9, -9, 1);
    const auto outs = eval_node<TryValue>(in);
    const auto errs = eval_node<TryErr>(in);
    const bool want_out[6] = {true, false, true, false, false, true};
    const bool want_err[6] = {false, true, false, true, true, false};
    int        failures = 0;
    for (std::size_t i = 0; i < 6; ++i)
    {
        const bool has_out = i < outs.size() && outs[i].has_value();
        const bool has_err = i < errs.size() && errs[i].has_value();
        std::printf("cycle %zu: out=%s err=%s\n", i, has_out ? std::to_string(static_cast<long long>(*outs[i])).c_str() : "-",
                    has_err ? std::string(*errs[i]).c_str() : "-");
        if (has_out != want_out[i]) { ++failures; std::printf("  VIOLATION: value tick %s\n", want_out[i] ? "lost" : "unexpected"); }
        if (has_err != want_err[i]) { ++failures; std::printf("  VIOLATION: error tick %s\n", want_err[i] ? "lost" : "unexpected"); }
    }
    std::printf("%s (%d)\n", failures ? "FAIL" : "PASS", failures);
    return failures ? 1 : 0;
}
