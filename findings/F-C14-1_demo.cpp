// candidate F-C14-1: flat graph n0..n3.  n3's START throws; during the roll-back n2's STOP throws.
// Expected (C14): every node whose start completed (n0, n1, n2) is stopped exactly once, in reverse order, no later than the
// return of run() / release of the executor; a failing stop does not prevent the remaining nodes from stopping; the original
// error (start of n3) reaches the caller.
#include <hgraph/runtime/lifecycle_observer.h>
#include <hgraph/runtime/runtime.h>
#include <hgraph/types/graph_wiring.h>
#include <hgraph/types/metadata/type_registry.h>
#include <hgraph/types/static_node.h>

#include <cstdio>
#include <stdexcept>
#include <string>
#include <vector>

using namespace hgraph;

namespace
{
    std::vector<std::string> hooks;

    NodeBuilder make_node(int id, bool fail_start, bool fail_stop)
    {
        NodeTypeMetaData schema;
        schema.display_name      = "n";
        schema.node_kind         = NodeKind::PullSource;
        schema.schedule_on_start = true;
        NodeCallbacks callbacks;
        callbacks.start = [id, fail_start](const NodeView &, DateTime) {
            hooks.push_back("start:" + std::to_string(id));
            if (fail_start) { throw std::runtime_error("start failed in n" + std::to_string(id)); }
        };
        callbacks.evaluate = [](const NodeView &, DateTime) {};
        callbacks.stop     = [id, fail_stop](const NodeView &, DateTime) {
            hooks.push_back("stop:" + std::to_string(id));
            if (fail_stop) { throw std::runtime_error("stop failed in n" + std::to_string(id)); }
        };
        return NodeBuilder::native(std::move(schema), std::move(callbacks));
    }

    int count(const std::string &what)
    {
        int n = 0;
        for (const auto &h : hooks) { n += h == what ? 1 : 0; }
        return n;
    }

    int scenario(const char *label, int start_fault, int stop_fault)
    {
        hooks.clear();
        int         failures = 0;
        std::string error;
        {
            GraphBuilder gb;
            for (int id = 0; id < 4; ++id) { gb.add_node(make_node(id, id == start_fault, id == stop_fault)); }
            GraphExecutorBuilder eb;
            eb.graph_builder(std::move(gb)).start_time(MIN_ST).end_time(MIN_ST + TimeDelta{5});
            GraphExecutorValue executor = eb.make_executor();
            try { executor.view().run(); }
            catch (const std::exception &e) { error = e.what(); }
            std::string at_return;
            for (const auto &h : hooks) { at_return += h + " "; }
            std::printf("[%s] error: %s\n[%s] hooks at return of run(): %s\n", label, error.substr(0, error.find('\n')).c_str(), label,
                        at_return.c_str());
        }
        std::string at_release;
        for (const auto &h : hooks) { at_release += h + " "; }
        std::printf("[%s] hooks after executor release: %s\n", label, at_release.c_str());
        for (int id = 0; id < 4; ++id)
        {
            const bool started = count("start:" + std::to_string(id)) == 1 && id != start_fault;
            const int  stops   = count("stop:" + std::to_string(id));
            if (started && stops != 1)
            {
                ++failures;
                std::printf("[%s] VIOLATION: n%d completed its start but its stop hook ran %d time(s)\n", label, id, stops);
            }
            if (!started && stops != 0)
            {
                ++failures;
                std::printf("[%s] VIOLATION: n%d never completed its start but was stopped %d time(s)\n", label, id, stops);
            }
        }
        if (error.find("start failed in n" + std::to_string(start_fault)) == std::string::npos)
        {
            ++failures;
            std::printf("[%s] VIOLATION: the original start error did not reach the caller\n", label);
        }
        return failures;
    }
}  // namespace

int main()
{
    int failures = 0;
    failures += scenario("start-fault only (control)", 3, -1);
    failures += scenario("start-fault n3 + stop-fault n2 in the roll-back", 3, 2);
    std::printf("%s (%d)\n", failures ? "FAIL" : "PASS", failures);
    return failures ? 1 : 0;
}
