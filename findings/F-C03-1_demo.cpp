// C03 observation 1 (UNMODIFIED tree): a wake-up that is requested and then
// moved later (or cancelled) within the SAME evaluation still runs the node at
// the abandoned time.
//
// What the property demands
// -------------------------
// Node N (one active input "in", plus a NodeScheduler) runs exactly when "in"
// ticked or a wake-up it asked for falls due.  At k=0 "in" ticks; N's user code
//   sched.schedule(MIN_ST+3, "x");   // ask for a wake-up at k=3
//   sched.schedule(MIN_ST+5, "x");   // same tag: REPLACES it - the wake-up is now k=5
// (a second variant cancels instead: sched.un_schedule("x")).
// Nothing ticks after k=0.  The only pending wake-up is k=5 (variant 2: none),
// so N must run at k=0 and k=5 only (variant 2: k=0 only).  A run at k=3 is a
// run with no ticked input and no due wake-up.

#include <hgraph/lib/testing/mock_runtime.h>
#include <hgraph/lib/testing/runtime_support.h>
#include <hgraph/runtime/node_scheduler.h>
#include <hgraph/runtime/runtime.h>
#include <hgraph/types/metadata/type_registry.h>
#include <hgraph/types/value/value.h>

#include <cstdint>
#include <cstdio>
#include <string>
#include <vector>

using namespace hgraph;

namespace
{
    std::int64_t tick_of(DateTime t) { return (t - MIN_ST) / TimeDelta{1}; }

    struct Run { std::int64_t k; bool in_modified; bool scheduled_now; };

    std::vector<Run> run_variant(bool cancel)
    {
        auto       &registry = TypeRegistry::instance();
        const auto *int_meta = registry.register_scalar<std::int32_t>("int32");
        const auto *ts_int   = registry.ts(int_meta);
        const auto *in_tsb   = registry.tsb("C03Obs1Input", {{"in", ts_int}});

        NodeTypeMetaData src;
        src.display_name  = "S";
        src.output_schema = ts_int;
        src.node_kind     = NodeKind::PullSource;
        NodeCallbacks src_cb;
        src_cb.evaluate = [](const NodeView &view, DateTime t) { testing::set_output_value(view, t, std::int32_t{1}); };

        std::vector<Run> runs;
        NodeTypeMetaData schema;
        schema.display_name   = "N";
        schema.input_schema   = in_tsb;
        schema.node_kind      = NodeKind::Sink;
        schema.uses_scheduler = true;
        NodeCallbacks cb;
        cb.evaluate = [&runs, cancel](const NodeView &view, DateTime t) {
            NodeScheduler sched{view.scheduler_state(), view.graph_value(), view.node_index(), t};
            auto root = view.input(t);
            auto bundle = root.as_bundle();
            auto in   = bundle[0];
            runs.push_back(Run{tick_of(t), in.modified(), sched.is_scheduled_now()});
            if (tick_of(t) == 0)
            {
                sched.schedule(MIN_ST + TimeDelta{3}, std::string{"x"});
                if (cancel) { sched.un_schedule("x"); }
                else { sched.schedule(MIN_ST + TimeDelta{5}, std::string{"x"}); }
            }
        };
        auto endpoint = TSEndpointSchema::non_peered(in_tsb, {TSEndpointSchema::peered(ts_int)});

        GraphBuilder builder;
        builder.add_node(NodeBuilder::native(std::move(src), std::move(src_cb)))
            .add_node(NodeBuilder::native(std::move(schema), std::move(cb), std::move(endpoint)))
            .add_edge(GraphEdge{.source_node = 0, .source_path = {}, .target_node = 1, .target_path = {0}});

        testing::MockRootGraph graph{builder};
        auto                   view = graph.graph();
        view.start(MIN_ST);
        view.schedule_node(0, MIN_ST);
        DateTime t = MIN_ST;
        // Drive exactly like an executor: evaluate, then jump to the graph's next scheduled time.
        for (int guard = 0; guard < 20; ++guard)
        {
            view.evaluate(t);
            const DateTime next = view.next_scheduled_time();
            if (next == MAX_DT || next > MIN_ST + TimeDelta{10}) { break; }
            t = next;
        }
        view.stop();
        return runs;
    }
}  // namespace

int main()
{
    int failures = 0;
    for (const bool cancel : {false, true})
    {
        const auto runs = run_variant(cancel);
        std::printf("variant '%s': runs of N:", cancel ? "schedule(k=3,x); un_schedule(x)" : "schedule(k=3,x); schedule(k=5,x)");
        for (const auto &r : runs)
        {
            std::printf("  k=%lld(in.modified=%d, wake-up due=%d)", static_cast<long long>(r.k), r.in_modified, r.scheduled_now);
        }
        std::printf("\n");
        for (const auto &r : runs)
        {
            if (!r.in_modified && !r.scheduled_now)
            {
                std::printf("  DISCREPANCY: N's user code ran at k=%lld with no ticked active input and no due wake-up\n",
                            static_cast<long long>(r.k));
                ++failures;
            }
        }
    }
    if (failures != 0)
    {
        std::printf("FAIL: %d spurious evaluation(s)\n", failures);
        return 1;
    }
    std::printf("no spurious evaluations: OK\n");
    return 0;
}
