// F-C20-1: record/replay of TSB{levels: TSS<Int>, last: TS<Int>} whose first tick sets only `last`.
// The original never ticks `levels` in cycle 0; the replay makes `levels` a valid, modified, empty set in cycle 0.
// F-C20-2: a TSD tick whose delta is empty (a key added and removed in the same cycle) is recorded but not replayed.
#include <hgraph/lib/std/operators/impl/record_replay_memory_impl.h>
#include <hgraph/lib/testing/record_replay.h>
#include <hgraph/runtime/node_scheduler.h>
#include <hgraph/runtime/runtime.h>
#include <hgraph/types/graph_wiring.h>
#include <hgraph/types/metadata/type_registry.h>
#include <hgraph/types/static_node.h>
#include <hgraph/types/time_series/ts_delta.h>

#include <cstdio>
#include <map>
#include <string>
#include <vector>

using namespace hgraph;
using namespace hgraph::testing;
using namespace std::string_literals;

using Q = TSB<"FC20Q", Field<"levels", TSS<Int>>, Field<"last", TS<Int>>>;
using D = TSD<Str, TS<Int>>;

namespace
{
    std::map<std::string, std::vector<std::string>> trace;

    struct QScript
    {
        static constexpr auto name              = "fc20_q_script";
        static constexpr bool schedule_on_start = true;
        static void           eval(State<Int> n, NodeScheduler sched, Out<Q> out)
        {
            const Int step = n.get();
            n.set(step + 1);
            if (step == 0) { out.field<"last">().set(Int{5}); }
            if (step == 2) { out.field<"levels">().add(Int{1}); }
            if (step < 3) { sched.schedule(MIN_TD); }
        }
    };
    struct DScript
    {
        static constexpr auto name              = "fc20_d_script";
        static constexpr bool schedule_on_start = true;
        static void           eval(State<Int> n, NodeScheduler sched, Out<D> out)
        {
            const Int step = n.get();
            n.set(step + 1);
            if (step == 0) { out["a"s].set(Int{1}); }
            if (step == 1) { out["tmp"s].set(Int{9}); (void)out.erase("tmp"s); }   // empty structural delta
            if (step == 2) { out["a"s].set(Int{2}); }
            if (step < 3) { sched.schedule(MIN_TD); }
        }
    };
    struct QProbe
    {
        static constexpr auto name = "fc20_q_probe";
        static void eval(In<"ts", Q, InputActivity::Active, InputValidity::Unchecked> ts, Scalar<"tag", Str> tag, DateTime now)
        {
            auto levels = ts.field<"levels">();
            char buf[160];
            std::snprintf(buf, sizeof buf, "t=%ld levels.valid=%d levels.modified=%d", static_cast<long>(cycle_offset(now)),
                          static_cast<int>(levels.valid()), static_cast<int>(levels.modified()));
            trace[tag.value()].push_back(buf);
        }
    };
    struct DProbe
    {
        static constexpr auto name = "fc20_d_probe";
        static void eval(In<"ts", D> ts, Scalar<"tag", Str> tag, DateTime now)
        {
            char buf[160];
            std::snprintf(buf, sizeof buf, "t=%ld size=%zu", static_cast<long>(cycle_offset(now)), static_cast<std::size_t>(ts.size()));
            trace[tag.value()].push_back(buf);
        }
    };

    template <typename S, typename Script, typename Probe>
    struct Rec
    {
        static void compose(Wiring &w)
        {
            auto src = wire<Script>(w);
            wire<stdlib::dense_record_impl>(w, src, std::string{"rec"});
            wire<Probe>(w, src, Str{"orig"});
        }
    };
    template <typename S, typename Probe>
    struct Rep
    {
        static void compose(Wiring &w)
        {
            auto src = wire<stdlib::replay_impl, S>(w, std::string{"rec"});
            wire<Probe>(w, src, Str{"repl"});
        }
    };

    template <typename S, typename Script, typename Probe>
    int round_trip(const char *label)
    {
        trace.clear();
        GraphBuilder         gb = build_graph<Rec<S, Script, Probe>>();
        GraphExecutorBuilder eb;
        eb.graph_builder(std::move(gb)).start_time(MIN_ST).end_time(MIN_ST + TimeDelta{20});
        GraphExecutorValue ex = eb.make_executor();
        ex.view().run();
        GraphBuilder gb2 = build_graph<Rep<S, Probe>>();
        gb2.global_state().set("rec", Value{ex.view().graph().global_state().get("rec")});
        GraphExecutorBuilder eb2;
        eb2.graph_builder(std::move(gb2)).start_time(MIN_ST).end_time(MIN_ST + TimeDelta{20});
        GraphExecutorValue ex2 = eb2.make_executor();
        ex2.view().run();
        std::printf("== %s\n", label);
        const auto &o = trace["orig"];
        const auto &r = trace["repl"];
        for (const auto &s : o) { std::printf("  original: %s\n", s.c_str()); }
        for (const auto &s : r) { std::printf("  replayed: %s\n", s.c_str()); }
        if (o == r) { std::printf("  round trip identical\n"); return 0; }
        std::printf("  VIOLATION: the replayed stream differs from the recorded one\n");
        return 1;
    }
}  // namespace

int main()
{
    (void)TypeRegistry::instance().register_scalar<Int>("int");
    (void)TypeRegistry::instance().register_scalar<Str>("str");
    int failures = 0;
    failures += round_trip<Q, QScript, QProbe>("TSB{levels: TSS, last: TS}, first tick sets only `last`");
    failures += round_trip<D, DScript, DProbe>("TSD<Str, TS<Int>> with a tick whose structural delta is empty (add+erase of one key)");
    std::printf("%s (%d)\n", failures ? "FAIL" : "PASS", failures);
    return failures ? 1 : 0;
}
