// F-C06-2c: two identical map_(fn, tsd) wirings whose mapped graph contains a sink (and returns a value).
#include <hgraph/lib/std/std_operators.h>
#include <hgraph/runtime/node_scheduler.h>
#include <hgraph/runtime/runtime.h>
#include <hgraph/types/graph_wiring.h>
#include <hgraph/types/metadata/type_registry.h>
#include <hgraph/types/static_node.h>
#include <hgraph/types/subgraph_wiring.h>
#include <hgraph/types/wired_fn.h>
#include <cstdio>
using namespace hgraph;
namespace
{
    int sink_evaluations = 0;
    struct Keys
    {
        static constexpr auto name              = "fc06m_keys";
        static constexpr bool schedule_on_start = true;
        static void eval(Out<TSD<Int, TS<Int>>> out) { out.set(Int{1}, Int{10}); out.set(Int{2}, Int{20}); }
    };
    struct CountingSink
    {
        static constexpr auto name = "fc06m_counting_sink";
        static void eval(In<"x", TS<Int>> x) { (void)x; ++sink_evaluations; }
    };
    struct Body
    {
        static constexpr auto name = "fc06m_body";
        static Port<TS<Int>> compose(Wiring &w, Port<TS<Int>> x) { wire<CountingSink>(w, x); return x; }
    };
    struct DictSink
    {
        static constexpr auto name = "fc06m_dict_sink";
        static void eval(In<"d", TSD<Int, TS<Int>>> d) { (void)d; }
    };
}
int main()
{
    (void)TypeRegistry::instance().register_scalar<Int>("int");
    stdlib::register_standard_operators();
    Wiring w;
    auto   keys = wire<Keys>(w);
    auto   m1   = wire<stdlib::map_>(w, fn<Body>(), keys).as<TSD<Int, TS<Int>>>();
    auto   m2   = wire<stdlib::map_>(w, fn<Body>(), keys).as<TSD<Int, TS<Int>>>();
    wire<DictSink>(w, m1);
    wire<DictSink>(w, m2);
    GraphBuilder         gb = std::move(w).finish();
    GraphExecutorBuilder eb;
    eb.graph_builder(std::move(gb)).start_time(MIN_ST).end_time(MIN_ST + TimeDelta{20});
    GraphExecutorValue ex = eb.make_executor();
    ex.view().run();
    std::printf("2 keys, two identical map_ wirings: the inner sink ran %d time(s), expected 4\n", sink_evaluations);
    if (sink_evaluations != 4) { std::printf("VIOLATION: the two map_ wirings share one child graph per key\n"); return 1; }
    std::printf("PASS\n");
    return 0;
}
