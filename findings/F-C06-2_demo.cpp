// candidate F-C06-2: two identical try_except_<SinkGraph>(x) wirings.  SinkGraph contains only a sink node (side effect: counts
// its evaluations).  Expected (C06): sink nodes always remain distinct, so the side effect happens twice per tick.
#include <hgraph/lib/std/std_operators.h>
#include <hgraph/runtime/node_error.h>
#include <hgraph/runtime/node_scheduler.h>
#include <hgraph/runtime/runtime.h>
#include <hgraph/types/graph_wiring.h>
#include <hgraph/types/metadata/type_registry.h>
#include <hgraph/types/static_node.h>
#include <hgraph/types/subgraph_wiring.h>

#include <cstdio>

using namespace hgraph;

namespace
{
    int sink_evaluations = 0;
    struct Src
    {
        static constexpr auto name              = "fc06_src";
        static constexpr bool schedule_on_start = true;
        static void eval(State<Int> n, NodeScheduler sched, Out<TS<Int>> out)
        {
            out.set(n.get());
            n.set(n.get() + 1);
            if (n.get() < 3) { sched.schedule(MIN_TD); }
        }
    };
    struct CountingSink
    {
        static constexpr auto name = "fc06_counting_sink";
        static void eval(In<"x", TS<Int>> x) { (void)x; ++sink_evaluations; }
    };
    struct SinkG
    {
        static constexpr auto name = "fc06_sink_g";
        static void compose(Wiring &w, Port<TS<Int>> x) { wire<CountingSink>(w, x); }
    };
    struct ErrSink
    {
        static constexpr auto name = "fc06_err_sink";
        static void eval(In<"e", TS<NodeError>, InputActivity::Active, InputValidity::Unchecked> e) { (void)e; }
    };
}  // namespace

int main()
{
    (void)TypeRegistry::instance().register_scalar<Int>("int");
    stdlib::register_standard_operators();
    Wiring w;
    auto   x  = wire<Src>(w);
    auto   e1 = try_except_<SinkG>(w, x);
    auto   e2 = try_except_<SinkG>(w, x);
    wire<ErrSink>(w, e1.as<TS<NodeError>>());
    wire<ErrSink>(w, e2.as<TS<NodeError>>());
    GraphBuilder         gb = std::move(w).finish();
    GraphExecutorBuilder eb;
    eb.graph_builder(std::move(gb)).start_time(MIN_ST).end_time(MIN_ST + TimeDelta{20});
    GraphExecutorValue ex = eb.make_executor();
    ex.view().run();
    std::printf("3 ticks, two wrapped sinks: the sink ran %d time(s), expected 6\n", sink_evaluations);
    if (sink_evaluations != 6)
    {
        std::printf("VIOLATION: two identical try_except-wrapped sink sub-graphs were merged into one instance\n");
        return 1;
    }
    std::printf("PASS\n");
    return 0;
}
