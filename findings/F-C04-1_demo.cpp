// Candidate finding: TSSInputView::slot_added / slot_removed leak the previous tick's delta in idle cycles.
#include <hgraph/runtime/node_scheduler.h>
#include <hgraph/runtime/runtime.h>
#include <hgraph/types/graph_wiring.h>
#include <hgraph/types/metadata/type_registry.h>
#include <hgraph/types/static_node.h>
#include <array>
#include <cstdio>
using namespace hgraph;
namespace {
constexpr int N = 5;
struct Row { bool seen{false}, modified{false}, added1{false}, removed2{false}; std::size_t added_n{0}, removed_n{0}; };
std::array<Row, N> rows;
struct SetDriver {
    static constexpr bool schedule_on_start = true;
    static void eval(State<Int> n, NodeScheduler sched, Out<TSS<Int>> out) {
        const int c = static_cast<int>(n.get()); n.set(Int{c + 1});
        if (c == 0) { out.add(Int{1}); out.add(Int{2}); }
        if (c == 2) { out.remove(Int{2}); }
        if (c + 1 < N) { sched.schedule(MIN_TD); }
    }
};
struct Ticker {
    static constexpr bool schedule_on_start = true;
    static void eval(State<Int> n, NodeScheduler sched, Out<TS<Int>> out) {
        const int c = static_cast<int>(n.get()); n.set(Int{c + 1}); out.set(Int{c});
        if (c + 1 < N) { sched.schedule(MIN_TD); }
    }
};
struct Auditor {
    static void eval(In<"s", TSS<Int>> s, In<"tick", TS<Int>> tick) {
        const int c = static_cast<int>(tick.value());
        if (c < 0 || c >= N) return;
        Row r; r.seen = true; r.modified = s.modified();
        const Int one{1}, two{2};
        const auto kb = s.data_view().layout().key_binding;
        const std::size_t s1 = s.find_slot(ValueView{kb, &one});
        // slot of 2 survives as a removed slot during the removal cycle; remember it from cycle 0
        static std::size_t slot2 = static_cast<std::size_t>(-1);
        if (c == 0) slot2 = s.find_slot(ValueView{kb, &two});
        r.added1 = s1 != static_cast<std::size_t>(-1) && s1 < s.slot_capacity() && s.slot_added(s1);
        r.removed2 = slot2 < s.slot_capacity() && s.slot_removed(slot2);
        r.added_n = s.added().size(); r.removed_n = s.removed().size();
        rows[c] = r;
    }
};
}
int main() {
    (void)TypeRegistry::instance().register_scalar<Int>("int");
    Wiring w;
    auto set = wire<SetDriver>(w);
    auto tick = wire<Ticker>(w);
    wire<Auditor>(w, set, tick);
    GraphBuilder gb = std::move(w).finish();
    GraphExecutorBuilder eb;
    eb.graph_builder(std::move(gb)).start_time(MIN_ST).end_time(MIN_ST + TimeDelta{100});
    GraphExecutorValue ex = eb.make_executor();
    ex.view().run();
    int bad = 0;
    const bool want_added1[N] = {true, false, false, false, false};
    const bool want_removed2[N] = {false, false, true, false, false};
    for (int c = 0; c < N; ++c) {
        const Row &r = rows[c];
        std::printf("c=%d seen=%d modified=%d slot_added(1)=%d slot_removed(2)=%d added()#=%zu removed()#=%zu\n", c, r.seen, r.modified, r.added1, r.removed2, r.added_n, r.removed_n);
        if (!r.seen) ++bad;
        if (r.added1 != want_added1[c]) { ++bad; std::printf("   VIOLATION: slot_added readable outside its cycle\n"); }
        if (r.removed2 != want_removed2[c]) { ++bad; std::printf("   VIOLATION: slot_removed readable outside its cycle\n"); }
    }
    std::printf(bad ? "FAIL (%d)\n" : "OK\n", bad);
    return bad ? 1 : 0;
}
