// C09 observation 1 (UNMODIFIED tree) - a nested sub-graph that returns, unchanged, a boundary
// argument which the parent assembled STRUCTURALLY (a fixed TSL/TSB built from separate outputs,
// e.g. nested_<G>(w, {a, b}) or a to_tsl(...) port) never produces any output.
//
// Property (C09): a sub-graph produces the same output stream at the same times whether it is
// inlined into its parent or run as a nested child graph - including pass-through outputs.
//
// Scenario: ReturnArg is `compose(w, Port<TSL<TS<Int>,2>> in) { return in; }`; RebuildArg returns
// to_tsl(in[0], in[1]) (the same leaves in the same order).  The parent builds the TSL argument
// from two independent TS<Int> inputs.  Inlined, the consumer (10*v0 + v1) ticks every cycle;
// nested, finish_subgraph classifies the result as a ParentInput pass-through of boundary
// argument 0, and at run time single_nested_graph_bind_output resolves
// walk_ts_path(root_input, {0}).bound_output() - but a structurally assembled (non-peered) input
// position has no bound output of its own, so the forwarding tree is cleared instead of being
// bound leaf-wise and the outer output never ticks.

#include <hgraph/lib/std/std_operators.h>
#include <hgraph/lib/testing/check_output.h>
#include <hgraph/lib/testing/eval_node.h>
#include <hgraph/types/graph_wiring.h>
#include <hgraph/types/static_node.h>
#include <hgraph/types/subgraph_wiring.h>

#include <cstdio>
#include <optional>
#include <string>
#include <vector>

namespace
{
    using namespace hgraph;
    using namespace hgraph::testing;

    using IntPair = TSL<TS<Int>, 2>;

    struct PairWeight
    {
        static constexpr auto name = "c09_obs_pair_weight";
        static void eval(In<"values", IntPair> values, Out<TS<Int>> out)
        {
            out.set(values[0].value() * 10 + values[1].value());
        }
    };

    struct ReturnArg
    {
        static constexpr auto name = "c09_obs_return_arg";
        static Port<IntPair> compose(Wiring &, Port<IntPair> in) { return in; }
    };

    struct RebuildArg
    {
        static constexpr auto name = "c09_obs_rebuild_arg";
        static Port<IntPair> compose(Wiring &w, Port<IntPair> in)
        {
            return stdlib::to_tsl<IntPair>(w, tsl_element(in, 0), tsl_element(in, 1)).as<IntPair>();
        }
    };

    template <typename G, bool Nested>
    struct Host
    {
        static constexpr auto name = Nested ? "c09_obs_host_nested" : "c09_obs_host_inline";
        static Port<TS<Int>> compose(Wiring &w, Port<TS<Int>> a, Port<TS<Int>> b)
        {
            auto pair = stdlib::to_tsl<IntPair>(w, a, b).template as<IntPair>();
            if constexpr (Nested) { return wire<PairWeight>(w, nested_<G>(w, pair)); }
            else { return wire<PairWeight>(w, G::compose(w, pair)); }
        }
    };

    using Seq = std::vector<std::optional<Int>>;

    std::string show(const Seq &seq)
    {
        std::string s = "[";
        for (std::size_t i = 0; i < seq.size(); ++i)
        {
            if (i) { s += ", "; }
            s += seq[i].has_value() ? std::to_string(*seq[i]) : std::string{"-"};
        }
        return s + "]";
    }

    int failures = 0;

    void compare(const char *what, const Seq &inlined, const Seq &nested, const Seq &expected)
    {
        const bool ok = inlined == expected && nested == expected;
        std::printf("%-28s inlined=%s nested=%s expected=%s %s\n", what, show(inlined).c_str(), show(nested).c_str(),
                    show(expected).c_str(), ok ? "ok" : "MISMATCH");
        if (!ok) { ++failures; }
    }
}  // namespace

int main()
{
    using namespace hgraph;
    stdlib::register_standard_operators();

    const Seq a = values<Int>(1, 3, none, 5);
    const Seq b = values<Int>(2, none, 4, 6);

    try
    {
        compare("return arg unchanged", eval_node<Host<ReturnArg, false>>(a, b), eval_node<Host<ReturnArg, true>>(a, b),
                values<Int>(12, 32, 34, 56));
        compare("rebuild arg leaf by leaf", eval_node<Host<RebuildArg, false>>(a, b),
                eval_node<Host<RebuildArg, true>>(a, b), values<Int>(12, 32, 34, 56));
    }
    catch (const std::exception &e)
    {
        std::printf("FAIL: exception: %s\n", e.what());
        return 2;
    }

    if (failures != 0)
    {
        std::printf("FAIL: %d scenario(s): the nested variant does not produce the inlined output stream\n", failures);
        return 1;
    }
    std::printf("inlined and nested variants agree: OK\n");
    return 0;
}
