// candidate F-C15-3: try_except( G ) where G = { thrower(x) ; heartbeat } and heartbeat (an independent self-scheduling source)
// is ranked AFTER the thrower.  thrower throws at t=4 while heartbeat's next wake-up (t=6) is pending.
// Expected (C15): the streams of nodes that do not depend on the failing node are identical to a run in which it did not fail:
// heartbeat beats at 0,3,6,9,12.
#include <hgraph/lib/std/std_operators.h>
#include <hgraph/runtime/node_error.h>
#include <hgraph/runtime/node_scheduler.h>
#include <hgraph/runtime/runtime.h>
#include <hgraph/types/graph_wiring.h>
#include <hgraph/types/metadata/type_registry.h>
#include <hgraph/types/static_node.h>
#include <hgraph/types/subgraph_wiring.h>

#include <cstdio>
#include <stdexcept>
#include <string>
#include <vector>

using namespace hgraph;

namespace
{
    long long rel(DateTime t) { return (t - MIN_ST).count(); }
    std::vector<long long> beats;
    bool                   with_fault = false;

    struct Src
    {
        static constexpr auto name              = "fc15_src";
        static constexpr bool schedule_on_start = true;
        static void eval(State<Int> n, NodeScheduler sched, Out<TS<Int>> out)
        {
            out.set(n.get());
            n.set(n.get() + 1);
            if (n.get() < 4) { sched.schedule(TimeDelta{4}); }   // ticks at 0,4,8,12 with values 0,1,2,3
        }
    };
    struct Thrower
    {
        static constexpr auto name = "fc15_thrower";
        static void eval(In<"x", TS<Int>> x, Out<TS<Int>> out)
        {
            if (with_fault && x.value() == 1) { throw std::runtime_error("boom at value 1"); }
            out.set(x.value());
        }
    };
    struct Heartbeat
    {
        static constexpr auto name              = "fc15_heartbeat";
        static constexpr bool schedule_on_start = true;
        static void eval(State<Int> n, NodeScheduler sched, DateTime now, Out<TS<Int>> out)
        {
            beats.push_back(rel(now));
            n.set(n.get() + 1);
            out.set(n.get());
            if (n.get() < 5) { sched.schedule(TimeDelta{3}); }   // 0,3,6,9,12
        }
    };
    struct Merge
    {
        static constexpr auto name = "fc15_merge";
        static void eval(In<"a", TS<Int>, InputActivity::Active, InputValidity::Unchecked> a,
                         In<"b", TS<Int>, InputActivity::Active, InputValidity::Unchecked> b, Out<TS<Int>> out)
        {
            out.set((a.valid() ? a.value() : Int{0}) + (b.valid() ? b.value() : Int{0}));
        }
    };
    struct G
    {
        static constexpr auto name = "fc15_g";
        static Port<TS<Int>>  compose(Wiring &w, Port<TS<Int>> x)
        {
            auto t = wire<Thrower>(w, x);      // ranked before the heartbeat
            auto h = wire<Heartbeat>(w);
            return wire<Merge>(w, t, h);
        }
    };
    using TryIntResult = UnNamedTSB<Field<"exception", TS<NodeError>>, Field<"out", TS<Int>>>;
    struct Sink
    {
        static constexpr auto name = "fc15_sink";
        static void eval(In<"r", TryIntResult, InputActivity::Active, InputValidity::Unchecked> r) { (void)r; }
    };

    std::vector<long long> run(bool fault)
    {
        beats.clear();
        with_fault = fault;
        Wiring w;
        auto   x = wire<Src>(w);
        wire<Sink>(w, try_except_<G>(w, x).as<TryIntResult>());
        GraphBuilder         gb = std::move(w).finish();
        GraphExecutorBuilder eb;
        eb.graph_builder(std::move(gb)).start_time(MIN_ST).end_time(MIN_ST + TimeDelta{30});
        GraphExecutorValue ex = eb.make_executor();
        ex.view().run();
        return beats;
    }
    void show(const char *label, const std::vector<long long> &v)
    {
        std::printf("%s:", label);
        for (auto t : v) { std::printf(" %lld", t); }
        std::printf("\n");
    }
}  // namespace

int main()
{
    (void)TypeRegistry::instance().register_scalar<Int>("int");
    stdlib::register_standard_operators();
    const auto clean  = run(false);
    const auto faulty = run(true);
    show("heartbeat without the failure", clean);
    show("heartbeat with the captured failure at t=4", faulty);
    if (clean != faulty)
    {
        std::printf("VIOLATION: a node that does not depend on the failing node lost wake-ups after the captured failure\n");
        return 1;
    }
    std::printf("PASS\n");
    return 0;
}
