// F-C13-1 (adapted from the seeding agent's C13 demo 2): retargeting a reference to a keyed time-series (TSS / TSD) AWAY from a
// target that has a HISTORY (it erased its oldest key some cycles ago) onto a target that
// shares a key with it.
//
// A user-authored node publishes REF<TSS<Int>> / REF<TSD<Int, TS<Int>>>: every time its
// `pick` input ticks it sets its output to the reference of the picked producer.
// Consumers read the reference as a plain TSS<Int> / TSD<Int, TS<Int>> and log every
// evaluation (cycle, modified flag, added / removed keys, modified (key, value) items).
//
// Expected (reference model of "reader of the currently designated series"):
//   * a retarget ticks the consumer in that cycle although the new target is silent:
//     old-only keys removed, new-only keys added, and (TSD) EVERY key of the new target
//     delivered as a modified item carrying the new target's current value,
//   * a tick of the designated producer ticks the consumer with that producer's delta,
//   * ticks of the producer that is not designated, and a republish of the same
//     reference, cause no evaluation.
#include <hgraph/lib/std/std_operators.h>
#include <hgraph/runtime/runtime.h>
#include <hgraph/types/graph_wiring.h>
#include <hgraph/types/metadata/type_registry.h>
#include <hgraph/types/static_node.h>

#include <algorithm>
#include <cstdio>
#include <exception>
#include <map>
#include <optional>
#include <set>
#include <string>
#include <vector>

using namespace hgraph;

namespace
{
    using SetT  = TSS<Int>;
    using DictT = TSD<Int, TS<Int>>;

    struct Step
    {
        std::optional<Bool>              pick_a;        // tick of the selector input
        std::vector<std::pair<Int, Int>> a_set, b_set;  // key -> value writes of producers A / B
        std::vector<Int>                 a_del, b_del;  // key removals
    };
    const std::vector<Step> script = {
        /* 0 */ {true, {{1, 10}, {2, 20}, {5, 50}}, {{4, 400}, {6, 600}}, {}, {}},
        /* 1 */ {{}, {}, {}, {1}, {}},                 // A (designated) erases key 1: A's LAST tick before the retarget
        /* 2 */ {{}, {}, {}, {}, {}},                  // idle
        /* 3 */ {{}, {}, {}, {}, {}},                  // idle
        /* 4 */ {false, {}, {}, {}, {}},               // retarget A -> B, both silent: old-only keys are {2,5}, key 1 left A three cycles ago
        /* 5 */ {{}, {}, {{4, 401}}, {}, {}},
    };

    template <typename F>
    void drive(State<Int> &step, NodeScheduler &sched, F &&emit)
    {
        const auto i = static_cast<std::size_t>(step.get());
        step.set(step.get() + 1);
        if (i < script.size()) { emit(script[i]); }
        if (i + 1 < script.size()) { sched.schedule(MIN_TD); }
    }

    struct Pick
    {
        static constexpr auto name              = "scripted_pick";
        static constexpr bool schedule_on_start = true;
        static void eval(State<Int> step, NodeScheduler sched, Out<TS<Bool>> out)
        {
            drive(step, sched, [&](const Step &s) { if (s.pick_a) { out.set(*s.pick_a); } });
        }
    };
    template <bool IsA>
    struct SetProducer
    {
        static constexpr auto name              = IsA ? "set_producer_a" : "set_producer_b";
        static constexpr bool schedule_on_start = true;
        static void eval(State<Int> step, NodeScheduler sched, Out<SetT> out)
        {
            drive(step, sched, [&](const Step &s) {
                for (const auto &[k, v] : (IsA ? s.a_set : s.b_set)) { out.add(k); }
                for (const auto &k : (IsA ? s.a_del : s.b_del)) { out.remove(k); }
            });
        }
    };
    template <bool IsA>
    struct DictProducer
    {
        static constexpr auto name              = IsA ? "dict_producer_a" : "dict_producer_b";
        static constexpr bool schedule_on_start = true;
        static void eval(State<Int> step, NodeScheduler sched, Out<DictT> out)
        {
            drive(step, sched, [&](const Step &s) {
                for (const auto &[k, v] : (IsA ? s.a_set : s.b_set)) { out.set(k, v); }
                for (const auto &k : (IsA ? s.a_del : s.b_del)) { out.erase(k); }
            });
        }
    };

    // Publishes the picked reference on EVERY tick of `pick` (no same-reference filtering).
    template <typename Schema>
    struct RepublishingPick
    {
        static constexpr auto name = "republishing_ref_pick";
        static void eval(In<"pick_a", TS<Bool>> pick_a,
                         In<"a", REF<Schema>, InputValidity::Unchecked> a,
                         In<"b", REF<Schema>, InputValidity::Unchecked> b,
                         Out<REF<Schema>> out)
        {
            if (!pick_a.modified()) { return; }
            out.set(pick_a.value() ? a.value() : b.value());
        }
    };

    struct Obs
    {
        long long            cycle;
        bool                 modified;
        std::vector<Int>     added, removed;     // keys
        std::map<Int, Int>   modified_values;    // dict only
        bool operator==(const Obs &) const = default;
    };
    std::vector<Obs> seen_set, seen_dict;

    std::vector<Int> sorted(std::vector<Int> v) { std::ranges::sort(v); return v; }

    struct ReadSet
    {
        static constexpr auto name = "read_set_through_ref";
        static void eval(In<"v", SetT> v, DateTime now)
        {
            seen_set.push_back({(now - MIN_ST).count(), v.modified(), sorted(v.added()), sorted(v.removed()), {}});
            const auto d = v.base().delta_value();
            std::printf("   [TSS reader] t%lld delta_value=%s\n", static_cast<long long>((now - MIN_ST).count()), d.has_value() ? Value{d}.to_string().c_str() : "<none>");
        }
    };
    struct ReadDict
    {
        static constexpr auto name = "read_dict_through_ref";
        static void eval(In<"v", DictT> v, DateTime now)
        {
            Obs o{(now - MIN_ST).count(), v.modified(), {}, {}, {}};
            for (const auto &[key, child] : v.modified_items())
            {
                o.modified_values[key.template checked_as<Int>()] = child.value();
            }
            for (const auto &key : v.added_keys()) { o.added.push_back(key.template checked_as<Int>()); }
            for (const auto &key : v.removed_keys()) { o.removed.push_back(key.template checked_as<Int>()); }
            o.added   = sorted(o.added);
            o.removed = sorted(o.removed);
            const auto d = v.base().delta_value();
            std::printf("   [TSD reader] t%lld delta_value=%s\n", static_cast<long long>(o.cycle), d.has_value() ? Value{d}.to_string().c_str() : "<none>");
            seen_dict.push_back(std::move(o));
        }
    };

    // Reference model.
    void model(std::vector<Obs> &set_obs, std::vector<Obs> &dict_obs)
    {
        std::map<Int, Int> content[2];
        int                designated = -1;
        for (std::size_t t = 0; t < script.size(); ++t)
        {
            const auto        &s = script[t];
            std::map<Int, Int> before[2] = {content[0], content[1]};
            bool               ticked[2] = {false, false};
            for (int p = 0; p < 2; ++p)
            {
                for (const auto &[k, v] : (p == 0 ? s.a_set : s.b_set)) { content[p][k] = v; ticked[p] = true; }
                for (const auto &k : (p == 0 ? s.a_del : s.b_del)) { content[p].erase(k); ticked[p] = true; }
            }
            int now = designated;
            if (s.pick_a) { now = *s.pick_a ? 0 : 1; }
            if (now < 0) { continue; }
            const bool retarget = now != designated;
            // what the reader held at the end of the previous cycle
            const std::map<Int, Int> held = designated < 0 ? std::map<Int, Int>{} : before[designated];
            designated                    = now;
            if (!retarget && !ticked[now]) { continue; }
            Obs o{static_cast<long long>(t), true, {}, {}, {}};
            for (const auto &[k, v] : content[now]) { if (!held.contains(k)) { o.added.push_back(k); } }
            for (const auto &[k, v] : held) { if (!content[now].contains(k)) { o.removed.push_back(k); } }
            Obs so = o;
            set_obs.push_back(so);
            if (retarget) { o.modified_values = content[now]; }
            else
            {
                for (const auto &[k, v] : (now == 0 ? s.a_set : s.b_set)) { o.modified_values[k] = v; }
            }
            dict_obs.push_back(o);
        }
    }

    std::string keys(const std::vector<Int> &v)
    {
        std::string s = "{";
        for (std::size_t i = 0; i < v.size(); ++i) { s += (i ? "," : "") + std::to_string(v[i]); }
        return s + "}";
    }
    void dump(const char *label, const std::vector<Obs> &log, bool dict)
    {
        std::printf("%s\n", label);
        for (const auto &o : log)
        {
            std::printf("   t%lld modified=%d added=%s removed=%s", o.cycle, int(o.modified), keys(o.added).c_str(),
                        keys(o.removed).c_str());
            if (dict)
            {
                std::printf(" modified_items={");
                bool first = true;
                for (const auto &[k, v] : o.modified_values)
                {
                    std::printf("%s%lld:%lld", first ? "" : ",", static_cast<long long>(k), static_cast<long long>(v));
                    first = false;
                }
                std::printf("}");
            }
            std::printf("\n");
        }
    }
}  // namespace

int main()
{
    (void)TypeRegistry::instance().register_scalar<Int>("int");
    stdlib::register_standard_operators();

    try
    {
        Wiring w;
        auto   pick = wire<Pick>(w);

        auto sa = wire<SetProducer<true>>(w);
        auto sb = wire<SetProducer<false>>(w);
        auto sref = wire<RepublishingPick<SetT>>(w, pick, sa, sb);
        wire<ReadSet>(w, sref.template as<SetT>());

        auto da = wire<DictProducer<true>>(w);
        auto db = wire<DictProducer<false>>(w);
        auto dref = wire<RepublishingPick<DictT>>(w, pick, da, db);
        wire<ReadDict>(w, dref.template as<DictT>());

        GraphBuilder         gb = std::move(w).finish();
        GraphExecutorBuilder eb;
        eb.graph_builder(std::move(gb)).start_time(MIN_ST).end_time(MIN_ST + TimeDelta{100});
        GraphExecutorValue executor = eb.make_executor();
        executor.view().run();
    }
    catch (const std::exception &e)
    {
        std::printf("run threw: %s\nC13 demo 2: FAILED\n", e.what());
        return 2;
    }

    std::vector<Obs> expected_set, expected_dict;
    model(expected_set, expected_dict);
    dump("expected TSS reader (model):", expected_set, false);
    dump("observed TSS reader:", seen_set, false);
    dump("expected TSD reader (model):", expected_dict, true);
    dump("observed TSD reader:", seen_dict, true);

    int failures = 0;
    if (seen_set != expected_set)
    {
        ++failures;
        std::printf("FAIL: the TSS reader below the reference deviates from the model\n");
    }
    if (seen_dict != expected_dict)
    {
        ++failures;
        std::printf("FAIL: the TSD reader below the reference deviates from the model\n");
    }
    std::printf("C13 demo 2: %s\n", failures == 0 ? "OK" : "FAILED");
    return failures == 0 ? 0 : 1;
}
