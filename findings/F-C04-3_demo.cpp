// C04 observation 2 (UNMODIFIED tree): dynamic (unbounded) TSL loses a modified child from its
// per-tick delta when a sibling is written and then invalidated in the same cycle.
//
// What the property demands
// -------------------------
// A parent is modified whenever one of its children is, and its per-tick delta for the cycle
// names exactly the children that were modified in it.  Here, in cycle t2 the producer writes
// l[0] and l[1] and then invalidates l[0].  l[1] is modified (and valid) at t2, so the list's
// delta_value() at t2 must contain index 1 with value 21.
//
// Exit 0 and a line ending in OK iff it does; on the pinned tree the delta is "{0: }".

#include <hgraph/types/metadata/type_registry.h>
#include <hgraph/types/time_series/ts_output.h>
#include <hgraph/types/value/value.h>
#include <hgraph/util/date_time.h>

#include <cstdint>
#include <cstdio>
#include <string>

using namespace hgraph;

static DateTime at(int n) { return MIN_ST + TimeDelta{n}; }

static void write(TSOutputView view, int value, DateTime time)
{
    Value wrapped{std::int32_t{value}};
    auto  mutation = view.begin_mutation(time);
    static_cast<void>(mutation.copy_value_from(wrapped.view()));
}

int main()
{
    auto       &registry = TypeRegistry::instance();
    const auto *int_meta = registry.register_scalar<std::int32_t>("int32");
    const auto *ts_int   = registry.ts(int_meta);
    const auto *dynamic  = registry.tsl(ts_int, 0);   // size 0 == dynamic list

    TSOutput out{*dynamic};
    {
        auto view = out.view(at(1));
        auto list = view.as_list();
        write(list[0], 10, at(1));
        write(list[1], 11, at(1));
        write(list[2], 12, at(1));
    }
    {
        auto view = out.view(at(2));
        auto list = view.as_list();
        write(list[0], 20, at(2));
        write(list[1], 21, at(2));
        auto mutation = list[0].begin_mutation(at(2));
        static_cast<void>(mutation.invalidate());
    }

    auto view = out.view(at(2));
    auto list = view.as_list();
    std::printf("t2: root modified=%d\n", view.modified());
    for (std::size_t index = 0; index < list.size(); ++index)
    {
        std::printf("  l[%zu] modified=%d valid=%d\n", index, list[index].modified(), list[index].valid());
    }
    const auto        delta = view.delta_value();
    const std::string text  = delta.has_value() ? delta.to_string() : std::string{"<none>"};
    std::printf("  delta_value() = %s\n", text.c_str());

    const bool child_modified = list[1].modified() && list[1].valid();
    const bool in_delta       = text.find("1: 21") != std::string::npos;
    if (child_modified && !in_delta)
    {
        std::printf("C04-observation-2: l[1] is modified at t2 but missing from the list's delta: FAIL\n");
        return 1;
    }
    std::printf("C04-observation-2: the list delta names every child modified in the cycle: OK\n");
    return 0;
}
