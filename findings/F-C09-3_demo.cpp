// C09 observation 3 - a sub-graph called with a passive() argument, inlined vs nested.
//
// Property (C09): a sub-graph produces the same output stream at the same times whether it is
// inlined into its parent or run as a nested child graph.
//
// Scenario: Sample(data, trigger) = latch(data, trigger), where latch copies data's current value
// to its output whenever it is evaluated. The host calls the sub-graph with passive(data): per the
// documentation of passive() ("the receiving node's matching input is removed from its active
// list, so ticks on it no longer schedule the node ... accepted anywhere a port parameter is
// (operator graph overloads, sub-graphs, ...)") only `trigger` may wake the latch. Inlined, the
// Passive tag travels with the port into the compose body and the latch is woken by `trigger`
// only. The property demands the same stream from nested_<Sample>(w, passive(data), trigger).

#include <hgraph/lib/std/std_operators.h>
#include <hgraph/lib/testing/check_output.h>
#include <hgraph/lib/testing/eval_node.h>
#include <hgraph/types/graph_wiring.h>
#include <hgraph/types/static_node.h>
#include <hgraph/types/subgraph_wiring.h>

#include <cstdio>
#include <optional>
#include <string>
#include <vector>

namespace
{
    using namespace hgraph;
    using namespace hgraph::testing;

    struct Latch
    {
        static constexpr auto name = "c09_latch";
        static void eval(In<"data", TS<Int>, InputValidity::Unchecked> data, In<"trigger", TS<Int>, InputValidity::Unchecked> trigger,
                         Out<TS<Int>> out)
        {
            static_cast<void>(trigger);
            out.set(data.valid() ? data.value() : Int{-1});
        }
    };

    struct Sample
    {
        static constexpr auto name = "c09_sample";
        static Port<TS<Int>> compose(Wiring &w, Port<TS<Int>> data, Port<TS<Int>> trigger)
        {
            return wire<Latch>(w, data, trigger);
        }
    };

    template <bool Nest, bool Passive>
    struct Host
    {
        static constexpr auto name = "c09_host";
        static Port<TS<Int>> compose(Wiring &w, Port<TS<Int>> data, Port<TS<Int>> trigger)
        {
            Port<TS<Int>> arg = Passive ? passive(data) : data;
            if constexpr (Nest) { return nested_<Sample>(w, arg, trigger); }
            else { return Sample::compose(w, arg, trigger); }
        }
    };

    using Seq = std::vector<std::optional<Int>>;

    std::string show(const Seq &seq)
    {
        std::string s = "[";
        for (std::size_t i = 0; i < seq.size(); ++i)
        {
            if (i) { s += ", "; }
            s += seq[i].has_value() ? std::to_string(*seq[i]) : std::string{"-"};
        }
        return s + "]";
    }

    template <typename HostT>
    Seq run(const Seq &data, const Seq &trigger, std::string &error)
    {
        try
        {
            return eval_node<HostT>(data, trigger);
        }
        catch (const std::exception &e)
        {
            error = e.what();
            return {};
        }
    }
}  // namespace

int main()
{
    using namespace hgraph;
    stdlib::register_standard_operators();

    const Seq data    = values<Int>(1, 2, none, 3, 4, none);
    const Seq trigger = values<Int>(none, none, 100, none, none, 200);
    std::printf("data=%s trigger=%s\n", show(data).c_str(), show(trigger).c_str());

    int         failures = 0;
    std::string e1, e2, e3, e4;
    const Seq   active_inlined  = run<Host<false, false>>(data, trigger, e1);
    const Seq   active_nested   = run<Host<true, false>>(data, trigger, e2);
    const Seq   passive_inlined = run<Host<false, true>>(data, trigger, e3);
    const Seq   passive_nested  = run<Host<true, true>>(data, trigger, e4);
    std::printf("  active  data, inlined: %s %s\n", show(active_inlined).c_str(), e1.c_str());
    std::printf("  active  data, nested : %s %s\n", show(active_nested).c_str(), e2.c_str());
    std::printf("  passive data, inlined: %s %s\n", show(passive_inlined).c_str(), e3.c_str());
    std::printf("  passive data, nested : %s %s\n", show(passive_nested).c_str(), e4.c_str());
    if (!e1.empty() || !e2.empty() || active_inlined != active_nested)
    {
        std::printf("  MISMATCH (active argument)\n");
        ++failures;
    }
    if (!e3.empty() || !e4.empty() || passive_inlined != passive_nested)
    {
        std::printf("  MISMATCH (passive argument): the nested sub-graph is woken by ticks of the passive() argument\n");
        ++failures;
    }
    if (failures != 0)
    {
        std::printf("FAIL: %d scenario(s) differ between the inlined and the nested sub-graph\n", failures);
        return 1;
    }
    std::printf("passive() arguments behave the same inlined and nested: OK\n");
    return 0;
}
