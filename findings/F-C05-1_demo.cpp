// C05 demo 3: TSD delta/value coherence when a key slot is re-used after an add+remove that cancelled
// inside one cycle.
//
// A scripted source mutates an Out<TSD<Int, TS<Int>>>; a mirror sink keeps a model map and, on every
// tick, checks the observed delta (added / removed / modified) against the model and the observed value:
//   * added and removed are disjoint
//   * every added key was absent before and is present afterwards
//   * every removed key was present before and is absent afterwards
//   * every key that is present now but was not present before is reported as added
//   * value == previous value with the delta applied (drop removed, overwrite modified)
#include <hgraph/runtime/runtime.h>
#include <hgraph/types/graph_wiring.h>
#include <hgraph/types/metadata/type_registry.h>
#include <hgraph/types/static_node.h>

#include <cstdio>
#include <map>
#include <set>
#include <string>

using namespace hgraph;

namespace
{
    using IntDict = TSD<Int, TS<Int>>;

    int                failures = 0;
    int                ticks    = 0;
    std::map<Int, Int> model;

    std::string show(const std::map<Int, Int> &m)
    {
        std::string out   = "{";
        bool        first = true;
        for (const auto &[k, v] : m)
        {
            out += (first ? "" : ",") + std::to_string(k) + ":" + std::to_string(v);
            first = false;
        }
        return out + "}";
    }

    std::string show(const std::set<Int> &s)
    {
        std::string out   = "{";
        bool        first = true;
        for (Int v : s)
        {
            out += (first ? "" : ",") + std::to_string(v);
            first = false;
        }
        return out + "}";
    }

    void fail(int cycle, const std::string &what)
    {
        ++failures;
        std::printf("  cycle %d: VIOLATION: %s\n", cycle, what.c_str());
    }

    // Scripted dict source: one script step per engine cycle.
    struct ScriptedDict
    {
        static constexpr auto name              = "scripted_dict";
        static constexpr bool schedule_on_start = true;
        static void eval(State<Int> step, NodeScheduler sched, Out<IntDict> out)
        {
            const Int s = step.get();
            step.set(s + 1);
            switch (s)
            {
            case 0:
                out.set(Int{1}, Int{10});
                out.set(Int{2}, Int{20});
                break;
            case 1:   // new key: add, remove, add in one cycle
                out.set(Int{5}, Int{50});
                (void)out.erase(Int{5});
                out.set(Int{5}, Int{51});
                break;
            case 2:   // existing key: update, remove, re-add in one cycle
                out.set(Int{1}, Int{11});
                (void)out.erase(Int{1});
                out.set(Int{1}, Int{12});
                break;
            case 3:   // existing key: remove, re-add with new value
                (void)out.erase(Int{2});
                out.set(Int{2}, Int{21});
                break;
            default: return;
            }
            if (s < 3) { sched.schedule(MIN_TD); }
        }
    };

    struct MirrorDict
    {
        static constexpr auto name = "mirror_dict";
        static void eval(In<"d", IntDict> d, State<Int> cycle)
        {
            const int c = static_cast<int>(cycle.get());
            cycle.set(cycle.get() + 1);
            ++ticks;

            std::map<Int, Int> value;
            for (auto &&[key, child] : d.valid_items()) { value[key.template checked_as<Int>()] = child.value(); }
            std::set<Int> added;
            for (auto &&[key, child] : d.added_items())
            {
                static_cast<void>(child);
                added.insert(key.template checked_as<Int>());
            }
            std::set<Int> removed;
            for (auto &&[key, child] : d.removed_items())
            {
                static_cast<void>(child);
                removed.insert(key.template checked_as<Int>());
            }
            std::map<Int, Int> modified;
            for (auto &&[key, child] : d.modified_items())
            {
                modified[key.template checked_as<Int>()] = child.value();
            }

            std::printf("cycle %d: value=%s added=%s removed=%s modified=%s (previous=%s)\n", c, show(value).c_str(),
                        show(added).c_str(), show(removed).c_str(), show(modified).c_str(), show(model).c_str());

            for (Int k : added)
            {
                if (removed.count(k)) { fail(c, "added and removed are not disjoint (key " + std::to_string(k) + ")"); }
                if (model.count(k)) { fail(c, "added key " + std::to_string(k) + " was already present before this tick"); }
                if (!value.count(k)) { fail(c, "added key " + std::to_string(k) + " is not present afterwards"); }
            }
            for (Int k : removed)
            {
                if (!model.count(k)) { fail(c, "removed key " + std::to_string(k) + " was not present before this tick"); }
                if (value.count(k)) { fail(c, "removed key " + std::to_string(k) + " is still present afterwards"); }
            }
            for (const auto &[k, v] : value)
            {
                static_cast<void>(v);
                if (!model.count(k) && !added.count(k))
                {
                    fail(c, "key " + std::to_string(k) + " appeared in the value but is not in this tick's added set");
                }
            }
            for (const auto &[k, v] : model)
            {
                static_cast<void>(v);
                if (!value.count(k) && !removed.count(k))
                {
                    fail(c, "key " + std::to_string(k) + " vanished from the value but is not in this tick's removed set");
                }
            }

            std::map<Int, Int> next = model;
            for (Int k : removed) { next.erase(k); }
            for (const auto &[k, v] : modified) { next[k] = v; }
            if (next != value)
            {
                fail(c, "value != previous value with this tick's delta applied");
                std::printf("           previous+delta=%s observed=%s\n", show(next).c_str(), show(value).c_str());
            }
            if (d.size() != value.size()) { fail(c, "size() disagrees with the valid items"); }
            model = value;   // resynchronise so later cycles are judged on their own
        }
    };
}  // namespace

int main()
{
    (void)TypeRegistry::instance().register_scalar<Int>("int");

    Wiring w;
    auto   src = wire<ScriptedDict>(w);
    wire<MirrorDict>(w, src);
    GraphBuilder gb = std::move(w).finish();

    GraphExecutorBuilder eb;
    eb.graph_builder(std::move(gb)).start_time(MIN_ST).end_time(MIN_ST + TimeDelta{100});
    GraphExecutorValue executor = eb.make_executor();
    executor.view().run();

    const std::map<Int, Int> expected_final{{2, 22}, {3, 31}, {7, 71}};
    if (ticks != 8)
    {
        ++failures;
        std::printf("expected 8 ticks of the mirror, saw %d\n", ticks);
    }
    if (model != expected_final)
    {
        ++failures;
        std::printf("final value %s != expected %s\n", show(model).c_str(), show(expected_final).c_str());
    }
    std::printf("%s: %d violation(s)\n", failures == 0 ? "PASS" : "FAIL", failures);
    return failures == 0 ? 0 : 1;
}
