#include <hgraph/lib/std/std_operators.h>
#include <hgraph/runtime/runtime.h>
#include <hgraph/types/graph_wiring.h>
#include <hgraph/types/metadata/type_registry.h>
#include <hgraph/types/static_node.h>
#include <hgraph/types/wired_fn.h>
#include <cstdio>
#include <optional>
#include <vector>
#include <map>
#include <string>
using namespace hgraph;
// F-C12-1: switch_ with a branch that returns one of its inputs directly (`compose(a) -> a`), for the fixed composite
// shapes TSL / TSB.  C12: "the newly selected branch ... immediately sees the current values of the held inputs, and from
// then on the output stream equals what that branch alone would produce".  The branch alone is the identity on the
// source, so from the selection cycle on the switch output must show the source's current elements.
// Before the fix the output did not tick in the selection cycle and every element that did not tick again stayed
// INVALID on the switch output (the materialised pass_through_node copied only the per-cycle delta of a sampled input).
namespace {
std::map<std::string, std::map<long long, std::vector<long long>>> seen;   // reader -> cycle -> element values (-1 = invalid)
using ListT = TSL<TS<Int>, 2>;
using BunT = TSB<"C12B", Field<"x", TS<Int>>, Field<"y", TS<Int>>>;
long long cyc(DateTime now) { return (long long)(now - MIN_ST).count(); }
struct Key { static constexpr bool schedule_on_start = true;
  static void eval(State<Int> n, NodeScheduler s, Out<TS<Str>> out) { Int i = n.get(); n.set(i+1); if (i==2) out.set(Str{"a"}); if (i==4) out.set(Str{"b"}); if (i<7) s.schedule(MIN_TD);} };
struct LA { static constexpr bool schedule_on_start = true;
  static void eval(State<Int> n, NodeScheduler s, Out<ListT> out) { Int i = n.get(); n.set(i+1); if (i==0){out.set(0,100);out.set(1,101);} if (i==1) out.set(0,110); if (i==3) out.set(1,121); if (i==5) out.set(0,130); if (i<7) s.schedule(MIN_TD);} };
struct BA { static constexpr bool schedule_on_start = true;
  static void eval(State<Int> n, NodeScheduler s, Out<BunT> out) { Int i = n.get(); n.set(i+1); if (i==0){out.field<"x">().set(Int{100});out.field<"y">().set(Int{101});} if (i==1) out.field<"x">().set(Int{110}); if (i==3) out.field<"y">().set(Int{121}); if (i==5) out.field<"x">().set(Int{130}); if (i<7) s.schedule(MIN_TD);} };
struct SeeList { static constexpr auto name="see_list";
  static void eval(In<"v", ListT, InputValidity::Unchecked> v, DateTime now, Out<TS<Int>> out) {
    int nmod=0; for (const auto &[i,c] : v.modified_items()) { (void)i; (void)c; ++nmod; }
    std::printf("BRANCH-NODE list t%lld modified=%d [0 mod=%d valid=%d] [1 mod=%d valid=%d] modified_items=%d\n", cyc(now), (int)v.modified(), (int)v[0].modified(), (int)v[0].valid(), (int)v[1].modified(), (int)v[1].valid(), nmod);
    out.set(Int{nmod}); } };
struct G { static constexpr auto name="g"; static Port<TS<Int>> compose(Wiring &w, Port<ListT> a) { return wire<SeeList>(w, a); } };
template <typename T> struct Pass { static constexpr auto name = "pass"; static Port<T> compose(Wiring &, Port<T> a) { return a; } };
struct LogList { static constexpr auto name = "log_list";
  static void eval(In<"v", ListT, InputValidity::Unchecked> v, DateTime now) {
    seen["list"][cyc(now)] = {v[0].valid() ? (long long)v[0].value() : -1LL, v[1].valid() ? (long long)v[1].value() : -1LL};
    std::printf("SWITCH-OUT list t%lld modified=%d", cyc(now), (int)v.modified());
    for (std::size_t i = 0; i < 2; ++i) { auto c = v[i]; std::printf(" [%zu mod=%d valid=%d val=%lld]", i, (int)c.modified(), (int)c.valid(), c.valid() ? (long long)c.value() : -1LL); }
    std::printf("\n"); } };
struct LogBun { static constexpr auto name = "log_bun";
  static void eval(In<"v", BunT, InputValidity::Unchecked> v, DateTime now) {
    auto x = v.field<"x">(); auto y = v.field<"y">();
    seen["bundle"][cyc(now)] = {x.valid() ? (long long)x.value() : -1LL, y.valid() ? (long long)y.value() : -1LL};
    std::printf("SWITCH-OUT bundle t%lld modified=%d [x mod=%d valid=%d val=%lld] [y mod=%d valid=%d val=%lld]\n", cyc(now), (int)v.modified(), (int)x.modified(), (int)x.valid(), x.valid()?(long long)x.value():-1LL, (int)y.modified(), (int)y.valid(), y.valid()?(long long)y.value():-1LL); } };
}
int main() {
  (void)TypeRegistry::instance().register_scalar<Int>("int");
  stdlib::register_standard_operators();
  Wiring w;
  auto key = wire<Key>(w); auto la = wire<LA>(w); auto ba = wire<BA>(w);
  auto s1 = wire<stdlib::switch_>(w, key, stdlib::switch_cases({{Value{Str{"a"}}, fn<G>()}, {Value{Str{"b"}}, fn<G>()}}), la).as<TS<Int>>();
  static_cast<void>(wire<stdlib::null_sink>(w, s1));
  auto s2 = wire<stdlib::switch_>(w, key, stdlib::switch_cases({{Value{Str{"a"}}, fn<Pass<ListT>>()}, {Value{Str{"b"}}, fn<Pass<ListT>>()}}), la).as<ListT>();
  wire<LogList>(w, s2);
  auto s3 = wire<stdlib::switch_>(w, key, stdlib::switch_cases({{Value{Str{"a"}}, fn<Pass<BunT>>()}, {Value{Str{"b"}}, fn<Pass<BunT>>()}}), ba).as<BunT>();
  wire<LogBun>(w, s3);
  GraphBuilder gb = std::move(w).finish();
  GraphExecutorBuilder eb; eb.graph_builder(std::move(gb)).start_time(MIN_ST).end_time(MIN_ST + TimeDelta{100});
  GraphExecutorValue ex = eb.make_executor(); ex.view().run();
  // reference: the source's elements per cycle: t0 {100,101} t1 {110,101} t3 {110,121} t5 {130,121}; branch selected at t2 (a), re-selected at t4 (b)
  const std::map<long long, std::vector<long long>> expected = {{2, {110, 101}}, {3, {110, 121}}, {4, {110, 121}}, {5, {130, 121}}};
  int failures = 0;
  for (const char *reader : {"list", "bundle"}) {
    for (const auto &[t, want] : expected) {
      const auto it = seen[reader].find(t);
      if (it == seen[reader].end()) { std::printf("FAIL %s: no evaluation at t%lld (expected elements %lld,%lld)\n", reader, t, want[0], want[1]); ++failures; continue; }
      if (it->second != want) { std::printf("FAIL %s: t%lld shows %lld,%lld expected %lld,%lld\n", reader, t, it->second[0], it->second[1], want[0], want[1]); ++failures; }
    }
  }
  std::printf(failures == 0 ? "PASS\n" : "FAILED (%d)\n", failures);
  return failures == 0 ? 0 : 1;
}
