// candidate F-C09-1: a node with InputValidity::Unchecked inputs fed directly by the boundary input of a nested graph.
// The outer source is silent in the start cycle.  Inlined, the node is evaluated only when its input ticks; nested, is it also
// evaluated in the start cycle with nothing modified?
#include <hgraph/runtime/node_scheduler.h>
#include <hgraph/runtime/runtime.h>
#include <hgraph/types/graph_wiring.h>
#include <hgraph/types/metadata/type_registry.h>
#include <hgraph/types/static_node.h>
#include <hgraph/types/subgraph_wiring.h>

#include <cstdio>
#include <string>
#include <utility>
#include <vector>

using namespace hgraph;

namespace
{
    using Log = std::vector<std::string>;
    Log *current_log = nullptr;
    long long rel(DateTime t) { return (t - MIN_ST).count(); }

    struct Src
    {
        static constexpr auto name = "src";
        static void start(SingleShotScheduler s) { s.schedule(TimeDelta{3}); }
        static void eval(State<Int> n, NodeScheduler sched, Out<TS<Int>> out)
        {
            out.set(Int{7 + n.get()});
            n.set(n.get() + 1);
            if (n.get() < 2) { sched.schedule(TimeDelta{4}); }
        }
    };
    struct Probe
    {
        static constexpr auto name = "probe";
        static void eval(In<"x", TS<Int>, InputActivity::Active, InputValidity::Unchecked> x, DateTime now, Out<TS<Int>> out)
        {
            current_log->push_back("t=" + std::to_string(rel(now)) + " valid=" + std::to_string(static_cast<int>(x.valid())) +
                                   " modified=" + std::to_string(static_cast<int>(x.modified())));
            out.set(x.valid() ? x.value() : Int{0});
        }
    };
    struct Body
    {
        static constexpr auto name = "body";
        static Port<TS<Int>>  compose(Wiring &w, Port<TS<Int>> x) { return wire<Probe>(w, x); }
    };
    struct Sink
    {
        static constexpr auto name = "sink";
        static void eval(In<"v", TS<Int>> v) { (void)v; }
    };

    Log run(int depth)
    {
        Log log;
        current_log = &log;
        Wiring w;
        auto   src = wire<Src>(w);
        Port<TS<Int>> out = depth == 0 ? Body::compose(w, src) : nested_<Body>(w, src);
        wire<Sink>(w, out);
        GraphBuilder gb = std::move(w).finish();
        GraphExecutorBuilder eb;
        eb.graph_builder(std::move(gb)).start_time(MIN_ST).end_time(MIN_ST + TimeDelta{20});
        GraphExecutorValue ex = eb.make_executor();
        ex.view().run();
        return log;
    }
}  // namespace

int main()
{
    (void)TypeRegistry::instance().register_scalar<Int>("int");
    const Log inlined = run(0);
    const Log nested  = run(1);
    std::printf("inlined evaluations of the probe:\n");
    for (const auto &s : inlined) { std::printf("   %s\n", s.c_str()); }
    std::printf("nested evaluations of the probe:\n");
    for (const auto &s : nested) { std::printf("   %s\n", s.c_str()); }
    if (inlined != nested)
    {
        std::printf("VIOLATION: the nested sub-graph does not behave like the inlined one\n");
        return 1;
    }
    std::printf("PASS\n");
    return 0;
}
