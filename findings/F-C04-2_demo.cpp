// C04 observation 1 (UNMODIFIED tree): TSInputView::delta_value() stays readable in
// cycles that did not produce it.
//
// What the property demands
// -------------------------
// "a per-tick delta is readable only during the cycle that produced it", and
// every consumer sees what the producer shows.  So for an input (or a child of
// an input) whose modified() is false in a cycle, delta_value() must be empty,
// exactly like TSOutputView::delta_value() of the producer in that cycle.
//
// Scenario A: peered TSB{a,b} input.  t1 writes a and b, t2 writes a only,
//             t3 is idle.  Child b is not modified at t2/t3, the producer's
//             b.delta_value() is empty - the consumer's must be empty too.
// Scenario B: TS[int] input sampled-rebound (bind_output_sampled, the REF
//             retarget path) at t3 to an output last written at t1.  At t3 the
//             input is modified and its delta is the current value (fine).  At
//             t4 and t5 nothing happens: modified() is false, so delta_value()
//             must be empty.
//
// Exit 0 and a line ending in OK iff that holds; on the pinned tree it does not.

#include <hgraph/types/metadata/type_registry.h>
#include <hgraph/types/time_series/endpoint_schema.h>
#include <hgraph/types/time_series/ts_input.h>
#include <hgraph/types/time_series/ts_output.h>
#include <hgraph/types/value/value.h>
#include <hgraph/util/date_time.h>

#include <cstdint>
#include <cstdio>

using namespace hgraph;

namespace
{
    int failures = 0;

    DateTime at(int n) { return MIN_ST + TimeDelta{n}; }

    long long ticks(DateTime time) { return time == MIN_DT ? -1 : static_cast<long long>((time - MIN_ST).count()); }

    void write(TSOutputView view, int value, DateTime time)
    {
        Value wrapped{std::int32_t{value}};
        auto  mutation = view.begin_mutation(time);
        static_cast<void>(mutation.copy_value_from(wrapped.view()));
    }

    void check(const char *label, int cycle, const TSOutputView &producer, const TSInputView &consumer)
    {
        const bool p_delta = producer.delta_value().has_value();
        const bool c_delta = consumer.delta_value().has_value();
        std::printf("  t%d %-10s producer: modified=%d lmt=%lld delta=%s | consumer: modified=%d lmt=%lld delta=%s\n", cycle,
                    label, producer.modified(), ticks(producer.last_modified_time()), p_delta ? "readable" : "empty",
                    consumer.modified(), ticks(consumer.last_modified_time()), c_delta ? "readable" : "empty");
        if (!consumer.modified() && c_delta)
        {
            ++failures;
            std::printf("    DISCREPANCY: consumer is not modified in t%d but its delta_value() is readable (value %d)\n",
                        cycle, consumer.delta_value().checked_as<std::int32_t>());
        }
    }
}  // namespace

int main()
{
    auto       &registry = TypeRegistry::instance();
    const auto *int_meta = registry.register_scalar<std::int32_t>("int32");
    const auto *ts_int   = registry.ts(int_meta);
    const auto *tsb      = registry.tsb("C04Obs1Bundle", {{"a", ts_int}, {"b", ts_int}});

    std::printf("Scenario A: child of a peered bundle input after a sibling-only write\n");
    {
        TSOutput out{*tsb};
        TSInput  in{TSInputBuilderFactory::checked_builder_for(*tsb, TSEndpointSchema::peered(tsb))};
        in.view(nullptr, at(0)).bind_output(out.view(at(0)));
        {
            auto view = out.view(at(1));
            auto bundle = view.as_bundle();
            write(bundle.field("a"), 1, at(1));
            write(bundle.field("b"), 2, at(1));
        }
        {
            auto p = out.view(at(1));
            auto c = in.view(nullptr, at(1));
            auto pb = p.as_bundle();
            auto cb = c.as_bundle();
            check("b", 1, pb.field("b"), cb.field("b"));
        }
        {
            auto view = out.view(at(2));
            auto bundle = view.as_bundle();
            write(bundle.field("a"), 3, at(2));
        }
        for (int cycle = 2; cycle <= 3; ++cycle)
        {
            auto p = out.view(at(cycle));
            auto c = in.view(nullptr, at(cycle));
            auto pb = p.as_bundle();
            auto cb = c.as_bundle();
            check("a", cycle, pb.field("a"), cb.field("a"));
            check("b", cycle, pb.field("b"), cb.field("b"));
        }
    }

    std::printf("Scenario B: idle cycles after a sampled rebind to an older, already valid output\n");
    {
        TSOutput first{*ts_int};
        TSOutput second{*ts_int};
        TSInput  in{TSInputBuilderFactory::checked_builder_for(*ts_int, TSEndpointSchema::peered(ts_int))};
        write(first.view(at(1)), 1, at(1));
        write(second.view(at(1)), 2, at(1));
        in.view(nullptr, at(1)).bind_output(first.view(at(1)));
        in.view(nullptr, at(3)).bind_output_sampled(second.view(at(3)), at(3));
        for (int cycle = 3; cycle <= 5; ++cycle) { check("ts", cycle, second.view(at(cycle)), in.view(nullptr, at(cycle))); }
    }

    if (failures != 0)
    {
        std::printf("C04-observation-1: %d cycles in which an unmodified input exposes a delta: FAIL\n", failures);
        return 1;
    }
    std::printf("C04-observation-1: input deltas are readable only in the cycle that produced them: OK\n");
    return 0;
}
