// F-C07-1: the request-id source emits a PROCESS-WIDE counter: the same graph run twice in one process observes different outputs.
#include <hgraph/lib/std/std_operators.h>
#include <hgraph/lib/std/operators/impl/stream_impl.h>
#include <hgraph/runtime/runtime.h>
#include <hgraph/types/graph_wiring.h>
#include <hgraph/types/metadata/type_registry.h>
#include <hgraph/types/static_node.h>
#include <cstdio>
#include <vector>
using namespace hgraph;
namespace {
std::vector<Int> captured;
struct Capture { static void eval(In<"in", TS<Int>> in) { captured.push_back(in.value()); } };
std::vector<Int> run_once() {
    captured.clear();
    Wiring w;
    auto id = wire<stdlib::request_id_impl>(w, Int{7});
    wire<Capture>(w, id);
    GraphBuilder gb = std::move(w).finish();
    GraphExecutorBuilder eb;
    eb.graph_builder(std::move(gb)).start_time(MIN_ST).end_time(MIN_ST + TimeDelta{10});
    GraphExecutorValue ex = eb.make_executor();
    ex.view().run();
    return captured;
}
}
int main() {
    (void)TypeRegistry::instance().register_scalar<Int>("int");
    stdlib::register_standard_operators();
    auto a = run_once();
    auto b = run_once();
    std::printf("run1:"); for (auto v : a) std::printf(" %lld", (long long)v);
    std::printf("\nrun2:"); for (auto v : b) std::printf(" %lld", (long long)v);
    std::printf("\n%s\n", a == b ? "OK (identical outputs)" : "DIFFERENT outputs for the same graph and inputs");
    return a == b ? 0 : 1;
}
