"""Both-ways self-test of the checker: seeded text edits (in-memory overlay) must be reported by the
owning rule; behaviour-preserving twins must stay silent."""
from __future__ import annotations

import importlib
import re
from typing import Any, Dict, List

from .index import AnalysisError, Tree
from .report import Run, load_known


def apply_edit(text: str, find: str, repl: str, regex: bool = False, nth: int = 0):
    """Replace the nth occurrence (must exist). Returns new text or None when the edit is stale."""
    if regex:
        ms = list(re.finditer(find, text, re.S))
        if len(ms) <= nth:
            return None
        m = ms[nth]
        return text[:m.start()] + m.expand(repl) + text[m.end():]
    idx = -1
    start = 0
    for _ in range(nth + 1):
        idx = text.find(find, start)
        if idx < 0:
            return None
        start = idx + 1
    return text[:idx] + repl + text[idx + len(find):]


def run_selftest(prop: str, tree: Tree, verbose: bool = False) -> Dict[str, Any]:
    mod = importlib.import_module(f"hgv.props.{prop.lower()}")
    variants = getattr(mod, "VARIANTS", [])
    res: Dict[str, Any] = {"variants": len(variants), "detected": 0, "silent_twins": 0, "stale": 0, "failures": [],
                           "details": []}
    for v in variants:
        vid = v["id"]
        overlay = {}
        stale = False
        for ed in v["edits"]:
            rel = ed["file"]
            base = overlay.get(rel, tree.read(rel))
            new = apply_edit(base, ed["find"], ed["replace"], ed.get("regex", False), ed.get("nth", 0))
            if new is None or new == base:
                stale = True
                break
            overlay[rel] = new
        if stale:
            res["stale"] += 1
            res["details"].append({"id": vid, "status": "stale"})
            if verbose:
                print(f"  {vid}: STALE (edit does not apply)")
            continue
        t2 = tree.with_overlay(overlay)
        run = Run(prop, "selftest", t2, quiet=True)
        try:
            mod.check(run)
        except Exception as e:  # pragma: no cover
            run.errors.append(f"internal {e!r}")
        known = [k for k in load_known() if k.get('status', 'known') == 'known']
        fresh = [f for f in run.findings if not any(k['property'] == f.prop and k['rule'] == f.rule and k['key'] == f.key for k in known)]
        rules = sorted({f.rule for f in fresh})
        expect = v.get("expect")
        if expect is None:
            ok = not fresh and not run.errors
            if ok:
                res["silent_twins"] += 1
            else:
                res["failures"].append(f"twin {vid} not silent: findings={rules} errors={run.errors[:2]}")
        else:
            ok = any(r.startswith(expect) for r in rules)
            if ok:
                res["detected"] += 1
            else:
                res["failures"].append(f"variant {vid} not detected by {expect}: findings={rules} errors={run.errors[:2]}")
        res["details"].append({"id": vid, "expect": expect, "rules": rules, "errors": run.errors[:2], "ok": ok})
        if verbose:
            print(f"  {vid}: {'ok' if ok else 'FAIL'} expect={expect} got={rules} errors={run.errors[:1]}")
    return res
