"""Run context: obligations, findings, evidence, known findings, exit codes."""
from __future__ import annotations

import json
import os
import sys
import time
import traceback
from contextlib import contextmanager
from dataclasses import dataclass, field
from typing import Any, Dict, List, Optional

from .index import AnalysisError, Tree

VERIF = os.path.dirname(os.path.dirname(os.path.abspath(__file__)))


@dataclass
class Finding:
    prop: str
    rule: str
    key: str  # stable identity: function + normalised construct (never a line number)
    message: str
    loc: str = ""
    detail: Dict[str, Any] = field(default_factory=dict)


class Run:
    def __init__(self, prop: str, tier: str, tree: Optional[Tree] = None, quiet: bool = False):
        self.prop = prop
        self.tier = tier
        self.tree = tree or Tree()
        self.findings: List[Finding] = []
        self.errors: List[str] = []
        self.obligations: List[Dict[str, Any]] = []
        self.samples: List[Any] = []
        self.evaluations = 0
        self.nontrivial: set = set()
        self.functions: Dict[str, str] = {}
        self.notes: List[str] = []
        self.quiet = quiet
        self.t0 = time.time()
        self.decided: List[str] = []
        self.not_decided: List[str] = []
        self.extra: Dict[str, Any] = {}
        self._cur: Optional[Dict[str, Any]] = None

    # -- obligations -------------------------------------------------------------------------
    @contextmanager
    def obligation(self, rule: str, kind: str, desc: str):
        ob = {"rule": rule, "kind": kind, "desc": desc, "status": "discharged", "sites": 0}
        self.obligations.append(ob)
        prev = self._cur
        self._cur = ob
        nfind = len(self.findings)
        try:
            yield ob
        except AnalysisError as e:
            ob["status"] = "analysis-error"
            ob["error"] = str(e)
            self.errors.append(f"{rule}: {e}")
        except RecursionError as e:
            ob["status"] = "analysis-error"
            self.errors.append(f"{rule}: internal RecursionError")
        except Exception as e:  # internal bug: never a verdict
            ob["status"] = "analysis-error"
            tb = traceback.format_exc(limit=6)
            ob["error"] = f"internal: {e!r}"
            self.errors.append(f"{rule}: internal {e!r}\n{tb}")
        finally:
            if len(self.findings) > nfind and ob["status"] == "discharged":
                ob["status"] = "violated"
            self._cur = prev

    def sites(self, n: int, floor: int = 1, what: str = "sites") -> None:
        """Record matched instance count and enforce the floor (vacuity guard)."""
        ob = self._cur
        if ob is not None:
            ob["sites"] = ob.get("sites", 0) + n
        if n < floor:
            raise AnalysisError("vacuous-rule", f"{ob['rule'] if ob else '?'}: matched {n} {what}, floor is {floor}")

    def count(self, evaluations: int = 1, distinct: Optional[str] = None) -> None:
        self.evaluations += evaluations
        if distinct:
            self.nontrivial.add(distinct)

    def finding(self, rule: str, key: str, message: str, loc: str = "", **detail) -> None:
        self.findings.append(Finding(self.prop, rule, key, message, loc, detail))

    def sample(self, s: Any) -> None:
        if len(self.samples) < 40:
            self.samples.append(s)

    def func(self, rel: str, name: str, **kw):
        """Look up a function and record it as analysed."""
        fd = self.tree.func(rel, name, **kw)
        self.functions[f"{rel}::{fd.qual}"] = f"L{fd.line}-{fd.end_line}"
        return fd

    # -- finish ------------------------------------------------------------------------------
    def finish(self, explanation: str, assumptions: List[str], technique: str) -> int:
        known = load_known()
        new: List[Finding] = []
        known_hits: List[Finding] = []
        for f in self.findings:
            if any(k.get("status", "known") == "known" and k["property"] == f.prop and k["rule"] == f.rule and k["key"] == f.key
                   for k in known):
                known_hits.append(f)
            else:
                new.append(f)
        discharged = sum(1 for o in self.obligations if o["status"] == "discharged")
        wall = time.time() - self.t0
        coverage = {
            "explanation": explanation,
            "technique": technique,
            "obligations": len(self.obligations),
            "discharged": discharged,
            "evaluations": max(self.evaluations, 1),
            "distinct_nontrivial": len(self.nontrivial),
            "rule": "one evaluation = one rule-instance evaluation (one ordering/valuation row of a decision table, one "
                    "path query, one set comparison element); distinct_nontrivial = distinct rule instances that matched "
                    "at least their floor of sites",
            "samples": self.samples[:40] or ["(no samples)"],
            "exhaustive": True,
            "rule_instances": [
                {k: v for k, v in o.items()} for o in self.obligations
            ],
            "functions_analysed": self.functions,
            "files_read": self.tree.read_log,
            "decided": self.decided,
            "not_decided": self.not_decided,
            "known_findings_hit": [f"{f.rule}:{f.key}" for f in known_hits],
            "analysis_errors": self.errors,
        }
        coverage.update(self.extra)
        ev = {
            "property_id": self.prop,
            "tier": self.tier,
            "seed": int(os.environ.get("VERIF_SEED", "0") or 0),
            "level": "other",
            "coverage": coverage,
            "assumptions": assumptions,
            "wall_s": round(wall, 3),
            "violations": len(new),
        }
        evdir = os.environ.get("HGV_EVIDENCE_DIR") or os.path.join(VERIF, "evidence")
        os.makedirs(evdir, exist_ok=True)
        rc = 0
        out = sys.stdout
        for f in known_hits:
            print(f"KNOWN-FINDING: property={f.prop} {f.rule} {f.key}: {f.message}", file=out)
        if new:
            rdir = os.path.join(evdir, "replay")
            os.makedirs(rdir, exist_ok=True)
            for i, f in enumerate(new):
                safe = "".join(c if c.isalnum() or c in "-_." else "_" for c in f"{f.rule}-{f.key}")[:120]
                rp = os.path.join(rdir, f"{f.prop}-{safe}.json")
                with open(rp, "w") as fh:
                    json.dump({"property": f.prop, "rule": f.rule, "key": f.key, "message": f.message, "loc": f.loc,
                               "detail": f.detail, "tier": self.tier}, fh, indent=1, default=str)
                print(f"FINDING {f.rule} {f.loc}: {f.message}", file=out)
                print(f"VIOLATION property={f.prop} replay={os.path.relpath(rp, VERIF)}", file=out)
            rc = 1
        if self.errors:
            for e in self.errors:
                print(f"ANALYSIS-ERROR {self.prop} {e}", file=out)
            if rc == 0:
                rc = 2
        tmp = os.path.join(evdir, f".{self.prop}.json.tmp{os.getpid()}")
        with open(tmp, "w") as fh:
            json.dump(ev, fh, indent=1, default=str)
        os.replace(tmp, os.path.join(evdir, f"{self.prop}.json"))
        if not self.quiet:
            print(f"{self.prop} [{self.tier}] obligations={len(self.obligations)} discharged={discharged} "
                  f"evaluations={self.evaluations} findings={len(new)} known={len(known_hits)} errors={len(self.errors)} "
                  f"wall={wall:.2f}s", file=out)
        return rc


def load_known() -> List[Dict[str, Any]]:
    p = os.path.join(VERIF, "known_findings.json")
    if not os.path.exists(p):
        return []
    with open(p) as fh:
        data = json.load(fh)
    return data.get("findings", []) if isinstance(data, dict) else data
