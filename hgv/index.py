"""Declaration scanner + tree-wide index over the C++ sources of /repo.

``Tree`` reads files (with an optional in-memory overlay used by the self-test), tokenises them and
scans namespace / class scopes for function definitions, struct field lists, enums and
namespace-scope variables.  Function bodies are *not* parsed here (see cparse).
"""
from __future__ import annotations

import hashlib
import os
from dataclasses import dataclass, field
from typing import Dict, Iterable, List, Optional, Tuple

from .lexer import Tok, lex

REPO = os.environ.get("HGV_REPO", "/repo")

SRC_DIRS = ("src/hgraph", "include/hgraph")
EXCLUDE_PARTS = ("/third_party/",)


class AnalysisError(Exception):
    """The machinery cannot decide (exit 2)."""

    def __init__(self, klass: str, msg: str):
        super().__init__(f"{klass}: {msg}")
        self.klass = klass
        self.msg = msg


@dataclass
class FuncDef:
    file: str
    name: str  # unqualified (may be 'operator==', '~Foo')
    qual: str  # namespace/class qualified, '::' separated, anonymous ns dropped
    cls: Optional[str]  # enclosing or explicit class qualifier (last component) if any
    head: Tuple[int, int]  # token range of the declaration head [start, params_open)
    params: Tuple[int, int]  # token indices of '(' and ')'
    body: Tuple[int, int]  # token indices of '{' and '}'
    line: int
    end_line: int
    is_template: bool
    noexcept: bool
    init_list: Optional[Tuple[int, int]] = None  # ctor-init token range

    @property
    def key(self) -> str:
        return f"{self.file}::{self.qual}"


@dataclass
class FieldDef:
    name: str
    type_text: str
    line: int
    is_fnptr: bool = False
    is_static: bool = False
    init: Optional[Tuple[int, int]] = None  # token range of default initialiser


@dataclass
class StructDef:
    file: str
    name: str
    qual: str
    kind: str  # struct / class / union
    body: Tuple[int, int]
    line: int
    fields: List[FieldDef] = field(default_factory=list)
    methods: List[str] = field(default_factory=list)  # declared method names (decl or def)
    defaulted: List[str] = field(default_factory=list)  # e.g. 'operator=='
    bases: str = ""


@dataclass
class EnumDef:
    file: str
    name: str
    qual: str
    enumerators: List[str]
    line: int


@dataclass
class VarDef:
    file: str
    name: str
    qual: str
    decl_text: str  # specifiers + type text
    line: int
    tok_range: Tuple[int, int]  # whole declaration token range
    scope_kind: str  # 'ns' or 'class'


class FileIndex:
    def __init__(self, path: str, toks: List[Tok]):
        self.path = path
        self.toks = toks
        self.funcs: List[FuncDef] = []
        self.structs: List[StructDef] = []
        self.enums: List[EnumDef] = []
        self.vars: List[VarDef] = []
        self.match: Dict[int, int] = {}
        self._match_brackets()
        self._scan(0, len(toks), [], "ns", None)

    # -- bracket matching ---------------------------------------------------------------
    def _match_brackets(self) -> None:
        stack: List[int] = []
        pairs = {")": "(", "]": "[", "}": "{"}
        for i, t in enumerate(self.toks):
            if t.kind != "op":
                continue
            x = t.text
            if x in "([{":
                stack.append(i)
            elif x in ")]}":
                if not stack or self.toks[stack[-1]].text != pairs[x]:
                    raise AnalysisError("unparsed-construct", f"{self.path}:{t.line}: unbalanced {x!r}")
                j = stack.pop()
                self.match[j] = i
                self.match[i] = j
        if stack:
            t = self.toks[stack[-1]]
            raise AnalysisError("unparsed-construct", f"{self.path}:{t.line}: unclosed {t.text!r}")

    # -- helpers -------------------------------------------------------------------------
    def text(self, a: int, b: int) -> str:
        return " ".join(t.text for t in self.toks[a:b])

    def _skip_angle(self, i: int, end: int) -> int:
        """toks[i] is '<'; return index after matching '>' or -1."""
        depth = 0
        k = i
        toks = self.toks
        while k < end:
            t = toks[k]
            x = t.text
            if t.kind == "op":
                if x == "<":
                    depth += 1
                elif x == ">":
                    depth -= 1
                    if depth == 0:
                        return k + 1
                elif x == ">>":
                    depth -= 2
                    if depth <= 0:
                        return k + 1
                elif x in "([{":
                    k = self.match[k]
                elif x in ";}" or x in (")", "]"):
                    return -1
            k += 1
        return -1

    # -- scope scanner ------------------------------------------------------------------
    def _scan(self, i: int, end: int, quals: List[str], kind: str, cls: Optional[StructDef]) -> None:
        toks = self.toks
        while i < end:
            t = toks[i]
            if t.kind == "pp":
                i += 1
                continue
            if t.kind == "op" and t.text in (";", "}"):
                i += 1
                continue
            # access specifier
            if kind == "class" and t.kind == "id" and t.text in ("public", "private", "protected") \
                    and i + 1 < end and toks[i + 1].text == ":":
                i += 2
                continue
            i = self._decl(i, end, quals, kind, cls)

    def _decl(self, i: int, end: int, quals: List[str], kind: str, cls: Optional[StructDef]) -> int:
        toks = self.toks
        start = i
        # skip template headers and attributes
        is_template = False
        while i < end:
            t = toks[i]
            if t.kind == "id" and t.text == "template" and i + 1 < end and toks[i + 1].text == "<":
                j = self._skip_angle(i + 1, end)
                if j < 0:
                    break
                is_template = True
                i = j
                # requires-clause directly after template header
                continue
            if t.text == "[" and i + 1 < end and toks[i + 1].text == "[":
                i = self.match[i] + 1
                continue
            break
        head0 = i
        if i >= end:
            return end
        t = toks[i]
        # namespace
        if t.kind == "id" and t.text in ("namespace",) or (
                t.text == "inline" and i + 1 < end and toks[i + 1].text == "namespace"):
            k = i
            while k < end and toks[k].text not in ("{", ";", "="):
                k += 1
            if k < end and toks[k].text == "{":
                names = [x.text for x in toks[i:k] if x.kind == "id" and x.text not in ("namespace", "inline")]
                close = self.match[k]
                self._scan(k + 1, close, quals + names, "ns", None)
                return close + 1
            # namespace alias
            while k < end and toks[k].text != ";":
                k += 1
            return k + 1
        if t.kind == "id" and t.text == "extern" and i + 1 < end and toks[i + 1].kind == "str":
            if i + 2 < end and toks[i + 2].text == "{":
                close = self.match[i + 2]
                self._scan(i + 3, close, quals, kind, cls)
                return close + 1
            i += 2
            head0 = i
            t = toks[i]
        if t.kind == "id" and t.text in ("using", "typedef", "static_assert", "friend") :
            # friend function definitions are rare; skip to ';' honouring braces
            k = i
            while k < end and toks[k].text != ";":
                if toks[k].text in "([{" and toks[k].kind == "op":
                    k = self.match[k]
                k += 1
            return k + 1
        # class / struct / union / enum heads
        k = i
        # skip leading specifiers for detection
        while k < end and toks[k].kind == "id" and toks[k].text in ("typedef", "static", "inline", "constexpr", "const"):
            k += 1
        if k < end and toks[k].kind == "id" and toks[k].text in ("struct", "class", "union", "enum"):
            r = self._class_or_enum(k, end, quals, kind, cls, start)
            if r is not None:
                return r
        return self._func_or_var(start, head0, end, quals, kind, cls, is_template)

    def _class_or_enum(self, k: int, end: int, quals: List[str], kind: str, cls: Optional[StructDef], start: int) -> Optional[int]:
        toks = self.toks
        key = toks[k].text
        j = k + 1
        if key == "enum" and j < end and toks[j].text in ("class", "struct"):
            j += 1
        # attributes / export macros: identifiers in ALLCAPS or [[...]]
        name_toks: List[str] = []
        p = j
        while p < end:
            t = toks[p]
            if t.text == "[" and toks[p + 1].text == "[":
                p = self.match[p] + 1
                continue
            if t.kind == "id" and (t.text.isupper() or t.text.startswith("HGRAPH_")) and toks[p + 1].kind == "id":
                p += 1
                continue
            if t.kind == "id" and t.text == "alignas":
                p = self.match[p + 1] + 1
                continue
            break
        # qualified name possibly with template args
        q = p
        while q < end and (toks[q].kind == "id" or toks[q].text == "::"):
            if toks[q].kind == "id" and toks[q].text == "final":
                break
            name_toks.append(toks[q].text)
            q += 1
            if q < end and toks[q].text == "<":
                r = self._skip_angle(q, end)
                if r < 0:
                    return None
                name_toks.append(self.text(q, r).replace(" ", ""))
                q = r
        # find '{' or ';' at depth 0
        r = q
        while r < end and toks[r].text not in ("{", ";", "(", "=", ")"):
            if toks[r].text == "<":
                s = self._skip_angle(r, end)
                if s > 0:
                    r = s
                    continue
            r += 1
        if r >= end or toks[r].text != "{":
            if r < end and toks[r].text == ";" and r == q:
                return r + 1  # forward declaration
            return None  # e.g. 'struct X foo(...)' or elaborated type in a var/func declaration
        name = "".join(name_toks) or "(anon)"
        close = self.match[r]
        qual = "::".join(quals + [name])
        if key == "enum":
            enumerators: List[str] = []
            x = r + 1
            expect = True
            while x < close:
                tt = toks[x]
                if tt.kind == "op" and tt.text in "([{":
                    x = self.match[x] + 1
                    continue
                if expect and tt.kind == "id":
                    enumerators.append(tt.text)
                    expect = False
                elif tt.text == ",":
                    expect = True
                x += 1
            self.enums.append(EnumDef(self.path, name, qual, enumerators, toks[k].line))
        else:
            sd = StructDef(self.path, name, qual, key, (r, close), toks[k].line,
                           bases=self.text(q, r))
            self.structs.append(sd)
            self._scan(r + 1, close, quals + [name], "class", sd)
        # trailing declarators until ';'
        x = close + 1
        while x < end and toks[x].text != ";":
            if toks[x].kind == "op" and toks[x].text in "([{":
                x = self.match[x]
            x += 1
        return x + 1

    _SKIP_PAREN_AFTER = {"decltype", "alignas", "noexcept", "requires", "__attribute__", "explicit", "sizeof",
                         "static_assert", "typeof", "__declspec"}

    def _func_or_var(self, start: int, i: int, end: int, quals: List[str], kind: str,
                     cls: Optional[StructDef], is_template: bool) -> int:
        toks = self.toks
        k = i
        params: Optional[Tuple[int, int]] = None
        name_idx: Optional[int] = None
        saw_eq = False
        init_list: Optional[Tuple[int, int]] = None
        in_init = False
        while k < end:
            t = toks[k]
            x = t.text
            if t.kind == "pp":
                k += 1
                continue
            if t.kind == "op":
                if x == ";":
                    self._simple_decl(start, i, k, quals, kind, cls, params, name_idx, saw_eq)
                    return k + 1
                if x == "<" and k > i and (toks[k - 1].kind == "id" and toks[k - 1].text != "operator"):
                    r = self._skip_angle(k, end)
                    if r > 0:
                        k = r
                        continue
                if x == "(" and params is None and k + 4 < end and toks[k + 1].text in ("*", "&") \
                        and toks[k + 2].kind == "id" and toks[k + 3].text == ")" and toks[k + 4].text == "(":
                    # function-pointer declarator: type (*name)(params) [init] ;
                    pclose = self.match[k + 4]
                    q = pclose + 1
                    while q < end and toks[q].text != ";":
                        if toks[q].kind == "op" and toks[q].text in "([{":
                            q = self.match[q]
                        q += 1
                    init = (pclose + 1, q) if q > pclose + 1 else None
                    if cls is not None and kind == "class":
                        cls.fields.append(FieldDef(toks[k + 2].text, self.text(i, k), toks[k + 2].line, True,
                                                   False, init))
                    else:
                        self.vars.append(VarDef(self.path, toks[k + 2].text,
                                                "::".join([q_ for q_ in quals if q_ != "(anon)"] + [toks[k + 2].text]),
                                                self.text(i, k), toks[k + 2].line, (start, q), "ns"))
                    return q + 1
                if x == "(":
                    prev = toks[k - 1] if k > i else None
                    close = self.match[k]
                    if params is None and not saw_eq and prev is not None and (
                            (prev.kind == "id" and prev.text not in self._SKIP_PAREN_AFTER)
                            or (prev.kind == "op" and self._is_operator_name(k - 1, i))
                            or (prev.kind == "op" and prev.text == ">" )):
                        # function-pointer declarator '(*name)(...)' is handled in _simple_decl
                        params = (k, close)
                        name_idx = k - 1
                    k = close + 1
                    continue
                if x == "[":
                    k = self.match[k] + 1
                    continue
                if x == "=" and not (k > i and toks[k - 1].text == "operator"):
                    saw_eq = True
                if x == ":" and params is not None and not saw_eq and toks[k - 1].text != ":":
                    in_init = True
                    init_start = k + 1
                if x == "{":
                    prev = toks[k - 1]
                    close = self.match[k]
                    if saw_eq or params is None:
                        # variable initialiser (possibly a lambda) -> skip to ';'
                        k = close + 1
                        continue
                    if in_init and (prev.kind == "id" or prev.text == ">") and toks[close + 1].text in (",", "{") \
                            and not self._init_list_done(k):
                        k = close + 1
                        continue
                    # function body
                    if in_init:
                        init_list = (init_start, k)
                    self._add_func(start, i, params, name_idx, (k, close), quals, kind, cls, is_template, init_list)
                    return close + 1
            elif t.kind == "id" and x == "try" and params is not None:
                pass
            k += 1
        return end

    def _init_list_done(self, k: int) -> bool:
        """'{' at k in a ctor-init list: is it the function body (True) rather than a member initialiser?

        A member initialiser brace is preceded by an identifier/template-id that itself follows ':' or ','.
        The body brace follows ')' or '}' (end of last initialiser).
        """
        prev = self.toks[k - 1]
        return prev.text in (")", "}")

    def _is_operator_name(self, idx: int, lo: int) -> bool:
        """toks[idx] is an op token; is it part of 'operator <op>'?"""
        toks = self.toks
        j = idx
        while j > lo and toks[j].kind == "op" and toks[j].text not in ("(", ")", ";", "{", "}"):
            j -= 1
        if toks[idx].text == ")" and idx - 1 > lo and toks[idx - 1].text == "(" and toks[idx - 2].text == "operator":
            return True
        if toks[idx].text == "]" and toks[idx - 1].text == "[" and toks[idx - 2].text == "operator":
            return True
        return toks[j].kind == "id" and toks[j].text == "operator" and j < idx

    def _qual_name_before(self, name_idx: int, lo: int) -> Tuple[str, List[str], int]:
        """Return (name, explicit qualifiers, start index of the qualified name)."""
        toks = self.toks
        j = name_idx
        # operator names
        if toks[j].kind == "op":
            k = j
            while k > lo and not (toks[k].kind == "id" and toks[k].text == "operator"):
                k -= 1
            name = "operator" + "".join(t.text for t in toks[k + 1:j + 1])
            j = k
        else:
            # conversion operator 'operator bool'
            k = j
            name = toks[j].text
            kk = j - 1
            while kk > lo and toks[kk].kind == "id" and toks[kk].text in ("const", "unsigned", "long"):
                kk -= 1
            if kk >= lo and toks[kk].kind == "id" and toks[kk].text == "operator":
                name = "operator " + " ".join(t.text for t in toks[kk + 1:j + 1])
                j = kk
            elif j - 1 >= lo and toks[j - 1].text == "~":
                name = "~" + name
                j -= 1
        quals: List[str] = []
        k = j - 1
        while k - 1 >= lo and toks[k].text == "::":
            p = k - 1
            if toks[p].text == ">":
                # template-id qualifier: find matching '<'
                depth = 0
                while p >= lo:
                    if toks[p].text == ">":
                        depth += 1
                    elif toks[p].text == ">>":
                        depth += 2
                    elif toks[p].text == "<":
                        depth -= 1
                        if depth == 0:
                            break
                    p -= 1
                p -= 1
            if p >= lo and toks[p].kind == "id":
                quals.insert(0, toks[p].text)
                k = p - 1
                j = p
            else:
                break
        return name, quals, j

    def _add_func(self, start: int, head0: int, params, name_idx, body, quals, kind, cls, is_template, init_list) -> None:
        toks = self.toks
        name, equals, qstart = self._qual_name_before(name_idx, head0)
        if name in ("if", "for", "while", "switch", "catch", "return"):
            return
        full = [q for q in quals if q != "(anon)"] + equals + [name]
        qual = "::".join(full)
        c = equals[-1] if equals else (cls.name if cls is not None else None)
        # noexcept between ')' and '{'
        ne = any(t.kind == "id" and t.text == "noexcept" for t in toks[params[1]:body[0]])
        fd = FuncDef(self.path, name, qual, c, (start, params[0]), params, body, toks[name_idx].line,
                     toks[body[1]].line, is_template, ne, init_list)
        self.funcs.append(fd)
        if cls is not None:
            cls.methods.append(name)

    def _simple_decl(self, start, i, semi, quals, kind, cls, params, name_idx, saw_eq) -> None:
        """A declaration ending in ';' : function declaration, field, or variable."""
        toks = self.toks
        if semi <= i:
            return
        # function declaration (no body)
        if params is not None and not saw_eq or (params is not None and toks[semi - 1].text in ("default", "delete", "0")
                                                   and toks[semi - 2].text == "="):
            # function-pointer field: '(' '*' name ')' '(' ... ')'
            po = params[0]
            fn_ptr = None
            # detect pattern type ( * name ) ( args )
            k = i
            while k < semi:
                if toks[k].text == "(" and toks[k + 1].text in ("*", "&") and toks[k + 2].kind == "id" \
                        and toks[k + 3].text == ")" and toks[k + 4].text == "(":
                    fn_ptr = k + 2
                    break
                if toks[k].kind == "op" and toks[k].text in "([{":
                    k = self.match[k]
                k += 1
            if fn_ptr is None:
                name, equals, _ = self._qual_name_before(name_idx, i)
                if cls is not None:
                    cls.methods.append(name)
                    if toks[semi - 1].text == "default":
                        cls.defaulted.append(name)
                return
            if cls is not None:
                # default init after the parameter list
                pclose = self.match[fn_ptr + 2]
                init = (pclose + 1, semi) if pclose + 1 < semi else None
                cls.fields.append(FieldDef(toks[fn_ptr].text, self.text(i, fn_ptr - 2), toks[fn_ptr].line, True,
                                           False, init))
            return
        if params is not None and saw_eq:
            # could be 'auto x = f(y);' variable at ns scope, or fn-ptr field with '= nullptr'
            k = i
            while k < semi:
                if toks[k].text == "=":
                    break
                if toks[k].text == "(" and toks[k + 1].text in ("*",) and toks[k + 2].kind == "id" \
                        and toks[k + 3].text == ")" and toks[k + 4].text == "(":
                    if cls is not None:
                        pclose = self.match[k + 4]
                        cls.fields.append(FieldDef(toks[k + 2].text, self.text(i, k), toks[k + 2].line, True, False,
                                                   (pclose + 1, semi)))
                    return
                if toks[k].kind == "op" and toks[k].text in "([{":
                    k = self.match[k]
                k += 1
        # plain variable / field declaration: strip template args & find declarators
        k = i
        depth0: List[int] = []  # indices of depth-0 tokens
        while k < semi:
            t = toks[k]
            if t.kind == "op" and t.text == "<" and k > i and toks[k - 1].kind == "id":
                r = self._skip_angle(k, semi + 1)
                if r > 0:
                    k = r
                    continue
            if t.kind == "op" and t.text in "([{":
                depth0.append(k)
                k = self.match[k] + 1
                continue
            depth0.append(k)
            k += 1
        # split into declarators by depth-0 commas
        specs = {"static", "inline", "constexpr", "const", "mutable", "thread_local", "extern", "volatile",
                 "constinit", "typename"}
        names: List[Tuple[int, Optional[Tuple[int, int]]]] = []
        seg_start = 0
        segs: List[List[int]] = [[]]
        for idx in depth0:
            if toks[idx].text == ",":
                segs.append([])
            else:
                segs[-1].append(idx)
        for seg in segs:
            # name = last identifier before '=', '{', '[', ':' (bitfield) in this segment
            name_i = None
            init = None
            for pos, idx in enumerate(seg):
                tx = toks[idx].text
                if tx in ("=", "{", "[", ":") and toks[idx].kind == "op" and not (tx == ":" and toks[idx - 1].text == ":"):
                    if tx == "=":
                        init = (idx + 1, seg[-1] + 1 if toks[seg[-1]].text not in "([{" else self.match[seg[-1]] + 1)
                    elif tx == "{":
                        init = (idx, self.match[idx] + 1)
                    break
                if toks[idx].kind == "id":
                    name_i = idx
            if name_i is not None and toks[name_i].text not in specs:
                names.append((name_i, init))
        if not names:
            return
        first = names[0][0]
        type_text = self.text(i, first)
        tt = set(t.text for t in toks[i:first] if t.kind == "id")
        for name_i, init in names:
            nm = toks[name_i].text
            if kind == "class" and cls is not None:
                cls.fields.append(FieldDef(nm, type_text, toks[name_i].line, False, "static" in tt, init))
                if "static" in tt:
                    self.vars.append(VarDef(self.path, nm, "::".join([q for q in quals if q != "(anon)"] + [nm]),
                                            type_text, toks[name_i].line, (start, semi), "class"))
            else:
                self.vars.append(VarDef(self.path, nm, "::".join([q for q in quals if q != "(anon)"] + [nm]),
                                        type_text, toks[name_i].line, (start, semi), "ns"))


class Tree:
    """The source tree with overlay support and lazy per-file indexes."""

    def __init__(self, root: str = REPO, overlay: Optional[Dict[str, str]] = None):
        self.root = root
        self.overlay = dict(overlay or {})
        patch = os.environ.get("HGV_PATCH")
        if patch and overlay is None:
            self.overlay.update(overlay_from_patch(root, patch))
        self._files: Dict[str, FileIndex] = {}
        self._text: Dict[str, str] = {}
        self.read_log: Dict[str, str] = {}  # rel path -> sha256 (evidence)
        self.normalised: Dict[str, bool] = {}  # files whose local names were renamed back to the baseline spelling
        self._all: Optional[List[str]] = None

    def with_overlay(self, overlay: Dict[str, str]) -> "Tree":
        t = Tree(self.root, overlay)
        # share unchanged parsed files
        for p, fi in self._files.items():
            if p not in overlay:
                t._files[p] = fi
                t._text[p] = self._text[p]
        t._all = self._all
        return t

    def read(self, rel: str) -> str:
        if rel in self._text:
            return self._text[rel]
        if rel in self.overlay:
            s = self.overlay[rel]
        else:
            p = os.path.join(self.root, rel)
            try:
                with open(p, "r", encoding="utf-8", errors="replace") as f:
                    s = f.read()
            except FileNotFoundError:
                raise AnalysisError("anchor-vanished", f"file {rel} does not exist")
        self.read_log[rel] = hashlib.sha256(s.encode()).hexdigest()[:16]
        # alpha-normalise local names of the functions the rules analyse (a pure rename must not change a verdict)
        try:
            from .normalize import normalise_file
            n = normalise_file(rel, s, lex, FileIndex)
        except AnalysisError:
            raise
        except Exception:
            n = None
        if n is not None:
            self.normalised[rel] = True
            s = n
        self._text[rel] = s
        return s

    def exists(self, rel: str) -> bool:
        return rel in self.overlay or os.path.exists(os.path.join(self.root, rel))

    def file(self, rel: str) -> FileIndex:
        fi = self._files.get(rel)
        if fi is None:
            toks = lex(self.read(rel), rel)
            fi = FileIndex(rel, toks)
            self._files[rel] = fi
        return fi

    def all_files(self) -> List[str]:
        if self._all is None:
            out = []
            for d in SRC_DIRS:
                base = os.path.join(self.root, d)
                for dp, dn, fn in os.walk(base):
                    for f in fn:
                        if f.endswith((".cpp", ".h", ".hpp", ".cc", ".inl", ".ipp")):
                            p = os.path.relpath(os.path.join(dp, f), self.root)
                            if any(e in "/" + p for e in EXCLUDE_PARTS):
                                continue
                            out.append(p)
            out.sort()
            self._all = out
        return self._all

    # -- lookups ------------------------------------------------------------------------
    def funcs(self, rel: str, name: str, cls: Optional[str] = None) -> List[FuncDef]:
        """Functions in file `rel` with unqualified name `name` (and class `cls` if given).

        `name` may be 'Class::method'.
        """
        if "::" in name and cls is None:
            if name.count("::") >= 2 or not any(f.cls == name.rsplit("::", 1)[0].split("::")[-1] for f in self.file(rel).funcs):
                # nested scopes: match on the qualified-name suffix
                q = [f for f in self.file(rel).funcs if f.qual == name or f.qual.endswith("::" + name)]
                if q:
                    return q
            cls, name = name.rsplit("::", 1)
            cls = cls.split("::")[-1]
        out = [f for f in self.file(rel).funcs if f.name == name and (cls is None or f.cls == cls)]
        return out

    def func(self, rel: str, name: str, cls: Optional[str] = None, nth: Optional[int] = None,
             nparams: Optional[int] = None) -> FuncDef:
        fs = self.funcs(rel, name, cls)
        if nparams is not None:
            fs = [f for f in fs if self.param_count(f) == nparams]
        if not fs:
            raise AnalysisError("anchor-vanished", f"function {name} not found in {rel}")
        if nth is not None:
            if nth >= len(fs):
                raise AnalysisError("anchor-vanished", f"function {name}#{nth} not found in {rel}")
            return fs[nth]
        if len(fs) > 1:
            raise AnalysisError("anchor-vanished",
                                f"function {name} ambiguous in {rel} ({len(fs)} definitions at lines "
                                f"{[f.line for f in fs]})")
        return fs[0]

    def param_count(self, f: FuncDef) -> int:
        fi = self.file(f.file)
        a, b = f.params
        if b == a + 1:
            return 0
        if b == a + 2 and fi.toks[a + 1].text == "void":
            return 0
        n = 1
        k = a + 1
        while k < b:
            t = fi.toks[k]
            if t.kind == "op" and t.text in "([{":
                k = fi.match[k]
            elif t.kind == "op" and t.text == "<" and fi.toks[k - 1].kind == "id":
                r = fi._skip_angle(k, b)
                if r > 0:
                    k = r
                    continue
            elif t.text == ",":
                n += 1
            k += 1
        return n

    def struct(self, rel: str, name: str) -> StructDef:
        for s in self.file(rel).structs:
            if s.name == name:
                return s
        raise AnalysisError("anchor-vanished", f"struct {name} not found in {rel}")

    def enum(self, rel: str, name: str) -> EnumDef:
        for e in self.file(rel).enums:
            if e.name == name:
                return e
        raise AnalysisError("anchor-vanished", f"enum {name} not found in {rel}")

    def find_funcs_anywhere(self, name: str, cls: Optional[str] = None) -> List[FuncDef]:
        out = []
        for rel in self.all_files():
            # cheap text prefilter
            if name not in self.read(rel):
                continue
            out.extend(self.funcs(rel, name, cls))
        return out


def overlay_from_patch(root: str, patch: str) -> Dict[str, str]:
    """Apply a unified diff to copies of the affected files (never touching `root`) and return {rel: new text}.

    Development aid for trying seeded changes without editing /repo; registered checks never set HGV_PATCH."""
    import re
    import shutil
    import subprocess
    import tempfile
    txt = open(patch, encoding="utf-8", errors="replace").read()
    rels = sorted(set(re.findall(r"^\+\+\+ b/(\S+)", txt, re.M)))
    tmp = tempfile.mkdtemp(prefix="hgv_patch_")
    try:
        for rel in rels:
            src = os.path.join(root, rel)
            dst = os.path.join(tmp, rel)
            os.makedirs(os.path.dirname(dst), exist_ok=True)
            if os.path.exists(src):
                shutil.copy(src, dst)
        r = subprocess.run(["patch", "-p1", "-s", "-i", os.path.abspath(patch)], cwd=tmp, capture_output=True, text=True)
        if r.returncode != 0:
            raise AnalysisError("anchor-vanished", f"patch does not apply: {r.stdout[:200]} {r.stderr[:200]}")
        out = {}
        for rel in rels:
            with open(os.path.join(tmp, rel), encoding="utf-8", errors="replace") as fh:
                out[rel] = fh.read()
        return out
    finally:
        shutil.rmtree(tmp, ignore_errors=True)
