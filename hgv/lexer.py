"""C++ tokeniser for the hgraph tree (stdlib only).

Tokens keep (kind, text, line, col).  Comments are dropped; preprocessor lines are kept as single
``pp`` tokens (conditional blocks are taken as present).  Raw strings, digit separators and all
C++ operators including ``<=>`` are handled.
"""
from __future__ import annotations

import re
from typing import List, NamedTuple


class Tok(NamedTuple):
    kind: str  # id num str chr op pp
    text: str
    line: int
    col: int

    def __repr__(self) -> str:  # compact for debugging
        return f"{self.text!r}@{self.line}"


_OPS = [
    "<=>", "<<=", ">>=", "->*", "...", "::", "->", ".*", "++", "--", "<<", ">>", "<=", ">=", "==", "!=",
    "&&", "||", "+=", "-=", "*=", "/=", "%=", "&=", "|=", "^=", "##",
]
_OP_RE = "|".join(re.escape(o) for o in _OPS) + r"|[{}\[\]()<>;:,.?~!%^&*+=|/#\\@$`-]"

_TOKEN_RE = re.compile(
    r"""
    (?P<ws>[ \t\r\f\v]+)
  | (?P<nl>\n)
  | (?P<lc>//[^\n]*)
  | (?P<bc>/\*.*?\*/)
  | (?P<raw>(?:u8|u|U|L)?R"(?P<delim>[^()\\\s]{0,16})\((?:.|\n)*?\)(?P=delim)")
  | (?P<str>(?:u8|u|U|L)?"(?:[^"\\\n]|\\.|\\\n)*")
  | (?P<chr>(?:u8|u|U|L)?'(?:[^'\\\n]|\\.)+')
  | (?P<num>\.?[0-9](?:[0-9a-zA-Z_.]|'[0-9a-zA-Z]|[eEpP][+-])*)
  | (?P<id>[A-Za-z_][A-Za-z0-9_]*)
  | (?P<op>%s)
    """ % _OP_RE,
    re.VERBOSE | re.DOTALL,
)


class LexError(Exception):
    pass


def lex(text: str, fname: str = "<mem>") -> List[Tok]:
    toks: List[Tok] = []
    pos = 0
    line = 1
    line_start = 0
    n = len(text)
    at_line_start = True
    m_ = _TOKEN_RE.match
    while pos < n:
        ch = text[pos]
        if at_line_start and ch == "#":
            # preprocessor line with continuations
            end = pos
            while True:
                nl = text.find("\n", end)
                if nl == -1:
                    nl = n
                    break
                # continuation?
                k = nl - 1
                while k >= 0 and text[k] in " \t\r":
                    k -= 1
                if k >= 0 and text[k] == "\\":
                    end = nl + 1
                    continue
                break
            body = text[pos:nl]
            # strip trailing // comment
            toks.append(Tok("pp", body, line, pos - line_start + 1))
            line += body.count("\n")
            pos = nl
            continue
        m = m_(text, pos)
        if m is None:
            raise LexError(f"{fname}:{line}: cannot tokenise at {text[pos:pos+20]!r}")
        kind = m.lastgroup
        if kind == "delim":
            kind = "raw"
        s = m.group(0)
        if kind == "nl":
            line += 1
            line_start = m.end()
            at_line_start = True
            pos = m.end()
            continue
        if kind == "ws":
            pos = m.end()
            continue
        if kind in ("lc", "bc"):
            c = s.count("\n")
            if c:
                line += c
                line_start = pos + s.rfind("\n") + 1
            pos = m.end()
            continue
        at_line_start = False
        col = pos - line_start + 1
        if kind == "raw":
            toks.append(Tok("str", s, line, col))
            c = s.count("\n")
            if c:
                line += c
                line_start = pos + s.rfind("\n") + 1
        elif kind == "str":
            toks.append(Tok("str", s, line, col))
            c = s.count("\n")
            if c:
                line += c
                line_start = pos + s.rfind("\n") + 1
        else:
            toks.append(Tok(kind, s, line, col))
        pos = m.end()
    return toks
