"""K1 / K6: decision-table extraction over a finite order abstraction.

The function body is summarised by walking it under every weak ordering of its ordered *roles*
(times, indices) and every valuation of the boolean atoms its guards mention; the resulting abstract
post-state (final holder of each role lvalue, role calls with abstract arguments, return / throw) is
compared with the specified table.  Nothing from the repository is executed: guards are evaluated
over abstract ranks only.
"""
from __future__ import annotations

import itertools
import re
from dataclasses import dataclass, field
from typing import Any, Callable, Dict, Iterable, List, Optional, Sequence, Tuple

from . import cparse as C
from .canon import Canon, callee_name
from .index import AnalysisError


# ---------------------------------------------------------------------------------------------
@dataclass
class Role:
    name: str
    sort: str  # ordered sort name, or 'bool'
    pattern: Optional[str] = None  # regex on canonical text (fullmatch)
    succ_of: Optional[str] = None  # this role is <base> + MIN_TD
    lvalue: bool = False
    sentinel: Optional[str] = None  # 'min' / 'max' within the sort
    required: bool = True  # must be bound at least once in the function
    epoch: Optional[Tuple[str, int]] = None  # matches only while epoch counter <key> == n

    def __post_init__(self):
        self._re = re.compile(self.pattern) if self.pattern else None

    def matches(self, canon: str) -> bool:
        return self._re is not None and self._re.fullmatch(canon) is not None


class NeedBool(Exception):
    def __init__(self, name: str):
        self.name = name


class NeedRole(Exception):
    """The code compares / uses an ordered term that no role binds: add a free role and re-enumerate."""

    def __init__(self, role: "Role", why: str):
        self.role = role
        self.why = why


class _Return(Exception):
    def __init__(self, value):
        self.value = value


class _Throw(Exception):
    def __init__(self, what: str):
        self.what = what


class _Break(Exception):
    pass


class _Continue(Exception):
    pass


ANY = ("any",)
ORD = "ord"
BOOL = "bool"
SYM = "sym"
NUM = "num"


def weak_orderings(names: Sequence[str]) -> Iterable[Dict[str, int]]:
    """All weak orderings (ordered set partitions) of names as rank maps (ranks 0,1,2..)."""
    names = list(names)
    n = len(names)
    if n == 0:
        yield {}
        return

    def rec(i: int, assign: List[int], nblocks: int):
        # restricted growth is not enough for *ordered* partitions; enumerate rank vectors directly
        raise NotImplementedError

    # enumerate surjections names -> {0..k-1} for k = 1..n
    for k in range(1, n + 1):
        for combo in itertools.product(range(k), repeat=n):
            if len(set(combo)) == k:
                yield dict(zip(names, combo))


@dataclass
class Outcome:
    """Abstract result of one path."""
    throws: Optional[str] = None
    ret: Any = None
    returned: bool = False
    stores: Dict[str, Any] = field(default_factory=dict)  # role -> final abstract value
    calls: List[Tuple[str, Tuple[Any, ...]]] = field(default_factory=list)
    events: List[Tuple] = field(default_factory=list)


class View:
    """Read access to a valuation for spec functions."""

    def __init__(self, ranks: Dict[str, int], bools: Dict[str, bool], interp: "Interp"):
        self.ranks = ranks
        self.bools = bools
        self._interp = interp

    def r(self, role: str) -> int:
        return self.ranks[role]

    def lt(self, a, b): return self.ranks[a] < self.ranks[b]
    def le(self, a, b): return self.ranks[a] <= self.ranks[b]
    def gt(self, a, b): return self.ranks[a] > self.ranks[b]
    def ge(self, a, b): return self.ranks[a] >= self.ranks[b]
    def eq(self, a, b): return self.ranks[a] == self.ranks[b]
    def ne(self, a, b): return self.ranks[a] != self.ranks[b]

    def b(self, name: str) -> bool:
        if name not in self.bools:
            raise NeedBool(name)
        return self.bools[name]

    def has(self, name: str) -> bool:
        return name in self.bools

    def max(self, a, b):
        return a if self.ranks[a] >= self.ranks[b] else b

    def min(self, a, b):
        return a if self.ranks[a] <= self.ranks[b] else b

    def describe(self) -> str:
        by_sort: Dict[str, List[Tuple[int, str]]] = {}
        for r in self._interp.roles:
            if r.sort != "bool" and r.name in self.ranks:
                by_sort.setdefault(r.sort, []).append((self.ranks[r.name], r.name))
        parts = []
        for s, items in by_sort.items():
            items.sort()
            out = ""
            prev = None
            for rank, nm in items:
                if prev is None:
                    out = nm
                elif rank == prev:
                    out += " = " + nm
                else:
                    out += " < " + nm
                prev = rank
            parts.append(out)
        bs = ", ".join(f"{k}={'T' if v else 'F'}" for k, v in sorted(self.bools.items()))
        return "; ".join(parts) + (f" | {bs}" if bs else "")


class Interp:
    def __init__(self, fa: C.FuncAST, roles: Sequence[Role], *,
                 role_calls: Optional[Dict[str, str]] = None,
                 inline: Optional[Dict[str, C.FuncAST]] = None,
                 inline_lambda_callees: Sequence[str] = ("capture", "annotate_on_exception", "fallback_on_exception"),
                 invalidate: Optional[Dict[str, str]] = None,
                 may_throw_calls: Sequence[str] = (),
                 aliases: Optional[Dict[str, str]] = None,
                 param_roles: bool = True,
                 loops: str = "once",
                 noreturn_calls: Sequence[str] = (),
                 role_locals: Sequence[str] = (),
                 pure_calls: Sequence[str] = ()):
        self.noreturn_calls = set(noreturn_calls)
        self.role_locals = set(role_locals)
        self.fa = fa
        self.roles = list(roles)
        self.role_by_name = {r.name: r for r in self.roles}
        self.role_calls = {k: re.compile(v) for k, v in (role_calls or {}).items()}  # event name -> regex on canon callee
        self.inline = inline or {}
        self.inline_lambda_callees = set(inline_lambda_callees)
        self.invalidate = dict(invalidate or {})  # callee name -> epoch key bumped by each call
        self.may_throw_calls = set(may_throw_calls)
        self.base_aliases = dict(aliases or {})
        self.loops = loops
        self.bound_roles: set = set()
        self.auto_atoms: set = set()
        self.depth = 0

    # -- run -----------------------------------------------------------------------------
    def run(self, ranks: Dict[str, int], bools: Dict[str, bool], unit: Optional[C.Node] = None,
            prelude: Optional[Sequence[C.Node]] = None) -> Outcome:
        self.ranks = ranks
        self.bools = bools
        self.state: Dict[str, Any] = {}  # role lvalue -> current value
        self.bstate: Dict[str, bool] = {}
        self.versions: Dict[str, int] = {}
        self.epochs: Dict[str, int] = {}
        self.guard_state: Dict[str, str] = {}
        self._guard_lams: Dict[str, C.Lambda] = {}
        self.out = Outcome()
        env = Env(Canon(self.base_aliases))
        try:
            if prelude:
                for s in prelude:
                    self._alias_only(s, env)
            self.exec(unit if unit is not None else self.fa.body, env)
        except _Return as r:
            self.out.returned = True
            self.out.ret = r.value
        except _Throw as t:
            self.out.throws = t.what or "?"
        except _Break:
            self.out.returned = True
            self.out.ret = (SYM, "break")
        except _Continue:
            self.out.returned = True
            self.out.ret = (SYM, "continue")
        for role, v in self.state.items():
            self.out.stores[role] = v
        for role, v in self.bstate.items():
            self.out.stores[role] = (BOOL, v)
        return self.out

    def _alias_only(self, s: C.Node, env: "Env") -> None:
        """Collect reference aliases and snapshot locals from statements preceding a unit (no effects)."""
        for n in s.walk(into_lambdas=False):
            if isinstance(n, C.Decl):
                for d in n.decls:
                    if d.init is not None and d.bindings is None:
                        if d.ref or (d.ptr and not isinstance(d.init, C.Ternary)):
                            env.canon.aliases[d.name] = env.canon(d.init if d.init_kind == "=" or not isinstance(d.init, C.Init) or len(d.init.elems) != 1 else d.init.elems[0])
                        else:
                            init = d.init
                            if isinstance(init, C.Init) and init.type is None and len(init.elems) == 1:
                                init = init.elems[0]
                            try:
                                save_events = len(self.out.events)
                                v = self.eval(init, env)
                                del self.out.events[save_events:]
                                self.out.calls = [c for c in self.out.calls if False]
                            except (NeedBool, _Throw, _Return):
                                raise
                            env.vars[d.name] = v
                            if v[0] == SYM:
                                env.canon.aliases[d.name] = v[1]

    # -- statements ------------------------------------------------------------------------
    def exec(self, s: C.Node, env: "Env") -> None:
        if isinstance(s, C.Block):
            inner = env.child()
            guards: List[Tuple[str, str, C.Lambda]] = []
            try:
                for x in s.stmts:
                    g = self._guard_decl(x, inner)
                    if g is not None:
                        guards.append(g)
                        self._guard_lams[g[0]] = g[2]
                        self.guard_state[g[0]] = "armed"
                        continue
                    self.exec(x, inner)
            except _Throw:
                for name, kind, lam in reversed(guards):
                    if self.guard_state.get(name) == "armed":
                        self.guard_state[name] = "done"
                        try:
                            self._run_lambda(lam, [], inner)
                        except _Throw:
                            pass
                raise
            except (_Return, _Break, _Continue):
                for name, kind, lam in reversed(guards):
                    if kind == "exit" and self.guard_state.get(name) == "armed":
                        self.guard_state[name] = "done"
                        self._run_lambda(lam, [], inner)
                raise
            for name, kind, lam in reversed(guards):
                if kind == "exit" and self.guard_state.get(name) == "armed":
                    self.guard_state[name] = "done"
                    self._run_lambda(lam, [], inner)
            return
        if isinstance(s, C.Decl):
            self._decl(s, env)
            return
        if isinstance(s, C.ExprStmt):
            self.eval(s.e, env)
            return
        if isinstance(s, C.If):
            inner = env.child()
            if s.init is not None:
                self.exec(s.init, inner)
            if isinstance(s.cond, C.Decl):
                self._decl(s.cond, inner)
                d = s.cond.decls[0]
                c = self.truthy(inner.vars.get(d.name, (SYM, d.name)), inner.canon(d.init) if d.init is not None else d.name)
            else:
                c = self.truthy(self.eval(s.cond, inner), inner.canon(s.cond))
            if c:
                self.exec(s.then, inner)
            elif s.els is not None:
                self.exec(s.els, inner)
            return
        if isinstance(s, C.Return):
            v = self.eval(s.e, env) if s.e is not None else None
            raise _Return(v)
        if isinstance(s, (C.For, C.While, C.RangeFor, C.DoWhile)):
            self._loop(s, env)
            return
        if isinstance(s, C.Break):
            raise _Break()
        if isinstance(s, C.Continue):
            raise _Continue()
        if isinstance(s, C.Switch):
            raise AnalysisError("unparsed-construct", f"K1: switch not modelled at {self.fa.loc(s)}")
        if isinstance(s, C.Try):
            # normal path only; a throw inside is caught -> handler modelled as boolean fork
            try:
                self.exec(s.body, env)
            except _Throw as thrown:
                for i, h in enumerate(s.handlers):
                    decl = h.decl.replace(" ", "")
                    last = i == len(s.handlers) - 1
                    if decl == "..." or self._atom(f"caught-by:{decl}"):
                        self.out.events.append(("caught", decl))
                        self._caught = thrown
                        self.exec(h.body, env)
                        return
                raise
            return
        if isinstance(s, (C.Empty, C.Other, C.Case)):
            return
        if isinstance(s, C.Opaque):
            raise AnalysisError("unparsed-construct", f"{self.fa.loc(s)}: {s.text[:80]}")
        raise AnalysisError("unparsed-construct", f"K1: statement {type(s).__name__} at {self.fa.loc(s)}")

    def _guard_decl(self, st: C.Node, env: "Env"):
        if not isinstance(st, C.Decl) or len(st.decls) != 1:
            return None
        d = st.decls[0]
        init = d.init
        if isinstance(init, C.Call):
            nm = callee_name(init)
            kind = {"make_scope_exit": "exit", "scope_exit": "exit", "UnwindCleanupGuard": "unwind"}.get(nm)
            if kind is None:
                return None
            lam = next((a for a in init.args if isinstance(a, C.Lambda)), None)
            if lam is None:
                return None
            return (d.name, kind, lam)
        return None

    def _loop(self, s: C.Node, env: "Env") -> None:
        inner = env.child()
        if self.loops == "skip":
            return
        if isinstance(s, C.For):
            if s.init is not None:
                self.exec(s.init, inner)
            if s.cond is not None:
                c = self.truthy(self.eval(s.cond, inner), inner.canon(s.cond))
                if not c:
                    return
        elif isinstance(s, C.While):
            c = self.truthy(self.eval(s.cond, inner), inner.canon(s.cond))
            if not c:
                return
        elif isinstance(s, C.RangeFor):
            for nm in s.names:
                inner.vars[nm] = (SYM, nm)
            nm = "nonempty:" + inner.canon(s.range)
            if not self._atom(nm):
                return
        self.out.events.append(("loop-enter", self.fa.line(s)))
        try:
            self.exec(s.body, inner)
        except _Break:
            return
        except _Continue:
            pass
        if isinstance(s, C.For) and s.step is not None:
            self.eval(s.step, inner)
        self.out.events.append(("loop-iter-end", self.fa.line(s)))

    def _decl(self, s: C.Decl, env: "Env") -> None:
        for d in s.decls:
            if d.bindings is not None:
                if d.init is not None:
                    self.eval(d.init, env)
                for b in d.bindings:
                    env.vars[b] = (SYM, b)
                continue
            init = d.init
            if init is None:
                env.vars[d.name] = (SYM, d.name)
                continue
            if isinstance(init, C.Init) and init.type is None and len(init.elems) == 1 and d.init_kind in ("{}", "()"):
                init = init.elems[0]
            if d.ref and isinstance(init, C.Ternary):
                # a reference is bound once: resolve the selection now (forks on the condition atoms)
                while isinstance(init, C.Ternary):
                    c = self.truthy(self.eval(init.c, env), env.canon(init.c))
                    init = init.a if c else init.b
            if (d.ref or (d.ptr and not isinstance(init, C.Ternary))) and not isinstance(init, C.Lambda):
                txt = env.canon(init)
                # a reference to a role lvalue stays an alias
                env.canon.aliases[d.name] = txt
                env.vars.pop(d.name, None)
                # evaluate for effects (calls) once
                self.eval(init, env)
                continue
            v = self.eval(init, env)
            if isinstance(init, C.Lambda):
                env.lambdas[d.name] = init
            env.vars[d.name] = v
            env.canon.aliases.pop(d.name, None)
            if v[0] == SYM and v[1] != d.name and not isinstance(init, C.Lambda):
                env.canon.aliases[d.name] = v[1]

    # -- atoms ------------------------------------------------------------------------------
    def _versioned(self, name: str) -> str:
        if name in self.role_by_name:
            return name
        suffix = "".join(f"@{k}{n}" for k, n in sorted(self.epochs.items()) if n)
        return name + suffix

    def _epoch_ok(self, r: Role) -> bool:
        return r.epoch is None or self.epochs.get(r.epoch[0], 0) == r.epoch[1]

    def _atom(self, name: str) -> bool:
        if name not in self.role_by_name:
            br = self._bool_role(name)
            if br is not None:
                name = br.name
        name = self._versioned(name)
        if name in self.bstate:
            return self.bstate[name]
        if name not in self.bools:
            self.auto_atoms.add(name)
            raise NeedBool(name)
        return self.bools[name]

    def _bool_role(self, canon: str) -> Optional[Role]:
        for r in self.roles:
            if r.sort == "bool" and r.matches(canon) and self._epoch_ok(r):
                self.bound_roles.add(r.name)
                return r
        return None

    def _ord_role(self, canon: str) -> Optional[Role]:
        for r in self.roles:
            if r.sort != "bool" and r.matches(canon) and self._epoch_ok(r):
                self.bound_roles.add(r.name)
                return r
        return None

    def truthy(self, v, canon: str) -> bool:
        if v[0] == BOOL:
            return v[1]
        if v[0] == SYM:
            br = self._bool_role(v[1])
            return self._atom(br.name if br is not None else v[1])
        if v[0] == NUM:
            return v[1] != 0
        raise AnalysisError("model-mismatch", f"K1: ordered value used as condition: {canon}")

    def role_value(self, role: Role):
        if role.name in self.state:
            return self.state[role.name]
        if role.name not in self.ranks:
            raise AnalysisError("model-mismatch", f"K1: role {role.name} has no rank")
        return (ORD, role.sort, self.ranks[role.name])

    # -- expressions ------------------------------------------------------------------------
    def eval(self, e: C.Node, env: "Env"):
        if e is None:
            return (SYM, "")
        if isinstance(e, C.Lit):
            if e.kind == "num":
                rr = self._ord_role(e.text)
                if rr is not None:
                    return self.role_value(rr)
                try:
                    return (NUM, int(e.text.rstrip("uUlLzZ").replace("'", ""), 0))
                except ValueError:
                    return (SYM, e.text)
            if e.text == "true":
                return (BOOL, True)
            if e.text == "false":
                return (BOOL, False)
            return (SYM, e.text)
        if isinstance(e, C.Id):
            if e.name in env.vars_all() and e.targs is None and e.name not in self.role_locals:
                v = env.lookup(e.name)
                if v is not None:
                    return v
            return self._path_value(env.canon(e), env)
        if isinstance(e, C.Member):
            return self._path_value(env.canon(e), env)
        if isinstance(e, C.Index):
            for a in e.args:
                self.eval(a, env)
            return self._path_value(env.canon(e), env)
        if isinstance(e, C.Call):
            return self._call(e, env)
        if isinstance(e, C.Unary):
            if e.op == "!":
                v = self.eval(e.e, env)
                return (BOOL, not self.truthy(v, env.canon(e.e)))
            if e.op in ("++", "--"):
                return self._mutate(e.e, env, e.op)
            if e.op in ("*", "&"):
                return self._path_value(env.canon(e), env, operand=e.e)
            v = self.eval(e.e, env)
            if e.op == "-" and v[0] == NUM:
                return (NUM, -v[1])
            return (SYM, env.canon(e))
        if isinstance(e, C.Postfix):
            if e.op in ("++", "--"):
                return self._mutate(e.e, env, e.op)
            return self.eval(e.e, env)
        if isinstance(e, C.Binary):
            return self._binary(e, env)
        if isinstance(e, C.Ternary):
            c = self.truthy(self.eval(e.c, env), env.canon(e.c))
            return self.eval(e.a if c else e.b, env)
        if isinstance(e, C.Cast):
            return self.eval(e.e, env)
        if isinstance(e, C.Init):
            vals = [self.eval(a.value if isinstance(a, C.Desig) else a, env) for a in e.elems]
            if e.type is not None:
                tn = env.canon(e.type)
                return ("tuple", tn, tuple(vals))
            return ("tuple", "", tuple(vals))
        if isinstance(e, C.Lambda):
            return (SYM, "<lambda>", e)
        if isinstance(e, C.Throw):
            what = env.canon(e.e) if e.e is not None else "rethrow"
            m = re.match(r"([A-Za-z_:0-9]+)", what)
            raise _Throw(m.group(1) if m else what)
        if isinstance(e, (C.TypeExpr, C.New, C.Delete)):
            return (SYM, env.canon(e))
        raise AnalysisError("unparsed-construct", f"K1: expression {type(e).__name__} at {self.fa.loc(e)}")

    def _path_value(self, canon: str, env: "Env", operand: Optional[C.Node] = None):
        r = self._ord_role(canon)
        if r is not None:
            return self.role_value(r)
        b = self._bool_role(canon)
        if b is not None:
            if b.name in self.bstate:
                return (BOOL, self.bstate[b.name])
            return (BOOL, self._atom(b.name))
        return (SYM, canon)

    def _mutate(self, target: C.Node, env: "Env", op: str):
        canon = env.canon(target)
        if isinstance(target, C.Id) and target.name in env.vars_all() and target.name not in self.role_locals:
            v = env.lookup(target.name)
            if v is not None and v[0] == NUM:
                env.assign(target.name, (NUM, v[1] + (1 if op == "++" else -1)))
                return v
            env.assign(target.name, (SYM, f"{canon}{op}"))
            return (SYM, canon)
        r = self._ord_role(canon)
        self.out.events.append(("mutate", r.name if r else canon, op))
        if r is not None:
            self.state[r.name] = (SYM, f"{r.name}{op}")
        return (SYM, canon)

    def _binary(self, e: C.Binary, env: "Env"):
        op = e.op
        if op == "&&":
            l = self.truthy(self.eval(e.l, env), env.canon(e.l))
            if not l:
                return (BOOL, False)
            return (BOOL, self.truthy(self.eval(e.r, env), env.canon(e.r)))
        if op == "||":
            l = self.truthy(self.eval(e.l, env), env.canon(e.l))
            if l:
                return (BOOL, True)
            return (BOOL, self.truthy(self.eval(e.r, env), env.canon(e.r)))
        if op == ",":
            self.eval(e.l, env)
            return self.eval(e.r, env)
        if op in C._ASSIGN:
            return self._assign(e, env)
        l = self.eval(e.l, env)
        r = self.eval(e.r, env)
        if op in ("<", "<=", ">", ">=", "==", "!="):
            if l[0] == ORD and r[0] == ORD:
                if l[1] != r[1]:
                    raise AnalysisError("model-mismatch", f"K1: comparing sorts {l[1]} and {r[1]} in {env.canon(e)}")
                a, b = l[2], r[2]
                return (BOOL, {"<": a < b, "<=": a <= b, ">": a > b, ">=": a >= b, "==": a == b, "!=": a != b}[op])
            if l[0] == NUM and r[0] == NUM:
                a, b = l[1], r[1]
                return (BOOL, {"<": a < b, "<=": a <= b, ">": a > b, ">=": a >= b, "==": a == b, "!=": a != b}[op])
            if l[0] == BOOL and r[0] == BOOL and op in ("==", "!="):
                return (BOOL, (l[1] == r[1]) == (op == "=="))
            if (l[0] == ORD) != (r[0] == ORD):
                other, onode, known = (r, e.r, l) if l[0] == ORD else (l, e.l, r)
                if other[0] == SYM and other[1] and not other[1].startswith("<"):
                    raise NeedRole(Role(f"?{other[1]}", known[1], re.escape(other[1]), required=False),
                                   f"comparison with unbound term {other[1]}")
                raise AnalysisError("model-mismatch",
                                    f"K1: comparison of a role with an unbound term: {env.canon(e)} at {self.fa.loc(e)}")
            # symbolic comparison -> canonical boolean atom
            lt, rt = self._symtext(l, e.l, env), self._symtext(r, e.r, env)
            if op in ("==", "!="):
                a, b = sorted([lt, rt])
                if a == b:
                    return (BOOL, op == "==")
                if (a.startswith("&") and b == "nullptr") or (b.startswith("&") and a == "nullptr"):
                    return (BOOL, op == "!=")
                nm = f"{a}=={b}"
                br = self._bool_role(nm)
                val = self._atom(br.name if br is not None else nm)
                return (BOOL, val if op == "==" else not val)
            # normalise to '<' and '<=' forms: a>b == b<a ; a>=b == b<=a
            if op == ">":
                lt, rt, op = rt, lt, "<"
            elif op == ">=":
                lt, rt, op = rt, lt, "<="
            return (BOOL, self._atom(f"{lt}{op}{rt}"))
        if op == "+" or op == "-":
            # X + MIN_TD
            if op == "+" and l[0] == ORD and r[0] == SYM and r[1].endswith("MIN_TD"):
                return self._succ(l, env.canon(e))
            if op == "+" and r[0] == ORD and l[0] == SYM and l[1].endswith("MIN_TD"):
                return self._succ(r, env.canon(e))
            if op == "+" and l[0] == ORD and r[0] == NUM and 1 <= r[1] <= 3:
                v = l
                for _ in range(r[1]):
                    v = self._succ(v, env.canon(e))
                return v
            if op == "+" and r[0] == ORD and l[0] == NUM and 1 <= l[1] <= 3:
                v = r
                for _ in range(l[1]):
                    v = self._succ(v, env.canon(e))
                return v
            if l[0] == NUM and r[0] == NUM:
                return (NUM, l[1] + r[1] if op == "+" else l[1] - r[1])
            if l[0] == ORD or r[0] == ORD:
                rr0 = self._ord_role(env.canon(e))
                if rr0 is not None:
                    return self.role_value(rr0)
            if op == "-" and l[0] == ORD and r[0] == ORD:
                return (SYM, "duration")
            if l[0] == ORD or r[0] == ORD:
                # arithmetic on a role: try a role bound to the whole expression
                rr = self._ord_role(env.canon(e))
                if rr is not None:
                    return self.role_value(rr)
                raise AnalysisError("model-mismatch", f"K1: arithmetic on role in {env.canon(e)} at {self.fa.loc(e)}")
        rr = self._ord_role(env.canon(e))
        if rr is not None:
            return self.role_value(rr)
        return (SYM, f"{self._symtext(l, e.l, env)}{op}{self._symtext(r, e.r, env)}")

    def _symtext(self, v, node: C.Node, env: "Env") -> str:
        if v[0] == SYM:
            return v[1]
        if v[0] == NUM:
            return str(v[1])
        if v[0] == BOOL:
            return "true" if v[1] else "false"
        return env.canon(node)

    def _succ(self, base, canon: str):
        for r in self.roles:
            if r.succ_of is not None and r.sort == base[1]:
                b = self.role_by_name[r.succ_of]
                if self.ranks.get(b.name) == base[2]:
                    self.bound_roles.add(r.name)
                    return (ORD, r.sort, self.ranks[r.name])
        for r in self.roles:
            if r.sort == base[1] and r.sentinel != "max" and self.ranks.get(r.name) == base[2] and not r.name.startswith("?"):
                raise NeedRole(Role(f"{r.name}+1", r.sort, None, succ_of=r.name, required=False), f"successor term {canon}")
        raise AnalysisError("model-mismatch", f"K1: successor term {canon} has no role")

    def _assign(self, e: C.Binary, env: "Env"):
        canon = env.canon(e.l)
        if e.op != "=":
            self.eval(e.r, env)
            return self._mutate(e.l, env, e.op)
        v = self.eval(e.r, env)
        if isinstance(e.l, C.Id) and e.l.name in self.role_locals:
            pass
        elif isinstance(e.l, C.Id) and e.l.name in env.vars_all() and e.l.name not in env.canon.aliases:
            env.assign(e.l.name, v)
            return v
        if isinstance(e.l, C.Id) and e.l.name not in self.role_locals and e.l.name in env.vars_all() and env.lookup(e.l.name) is not None:
            env.assign(e.l.name, v)
            env.canon.aliases.pop(e.l.name, None)
            return v
        r = None
        for role in self.roles:
            if role.lvalue and role.matches(canon):
                r = role
                break
        if r is not None:
            self.bound_roles.add(r.name)
            if r.sort == "bool":
                if v[0] == BOOL:
                    self.bstate[r.name] = v[1]
                else:
                    self.bstate[r.name] = self.truthy(v, env.canon(e.r))
                self.out.events.append(("store", r.name, self.bstate[r.name]))
            else:
                self.state[r.name] = v
                self.out.events.append(("store", r.name, v))
            return v
        self.out.events.append(("store-other", canon))
        for ev_name, rx in self.role_calls.items():
            if rx.pattern.startswith("@store:") and re.fullmatch(rx.pattern[7:], canon):
                self.out.calls.append((ev_name, (v,)))
                break
        return v

    def _call(self, e: C.Call, env: "Env"):
        fn_canon = env.canon(e.fn)
        name = callee_name(e)
        whole = env.canon(e)
        # std::min / std::max over ordered values
        if name in ("max", "min") and len(e.args) == 2 and fn_canon in ("std::max", "std::min", "max", "min"):
            a = self.eval(e.args[0], env)
            b = self.eval(e.args[1], env)
            if a[0] == ORD and b[0] == ORD:
                if name == "max":
                    return a if a[2] >= b[2] else b
                return a if a[2] <= b[2] else b
            if a[0] == NUM and b[0] == NUM:
                return (NUM, max(a[1], b[1]) if name == "max" else min(a[1], b[1]))
            rr = self._ord_role(whole)
            if rr is not None:
                return self.role_value(rr)
            if a[0] == ORD or b[0] == ORD:
                raise AnalysisError("model-mismatch", f"K1: min/max of role and unbound term {whole} at {self.fa.loc(e)}")
            return (SYM, whole)
        # idiom calls executing a lambda inline
        args_v = []
        lambdas = []
        for a in e.args:
            if isinstance(a, C.Lambda):
                lambdas.append(a)
                args_v.append((SYM, "<lambda>", a))
            elif isinstance(a, C.Id) and a.name in env.lambdas_all():
                lambdas.append(env.lookup_lambda(a.name))
                args_v.append((SYM, "<lambda>"))
            else:
                args_v.append(self.eval(a, env))
        if isinstance(e.fn, C.Member):
            self.eval(e.fn.obj, env)
        # role calls
        matched_role_call = None
        for ev_name, rx in self.role_calls.items():
            if rx.fullmatch(fn_canon):
                self.out.calls.append((ev_name, tuple(args_v)))
                self.out.events.append(("call", ev_name, tuple(args_v)))
                matched_role_call = ev_name
                break
        if isinstance(e.fn, C.Member) and isinstance(e.fn.obj, C.Id) and e.fn.obj.name in self.guard_state \
                and name in ("release", "complete"):
            gname = e.fn.obj.name
            if name == "release":
                self.guard_state[gname] = "released"
            elif self.guard_state.get(gname) == "armed":
                self.guard_state[gname] = "done"
                lam = self._guard_lams.get(gname)
                if lam is not None:
                    self._run_lambda(lam, [], env)
            return (SYM, "void")
        if name in self.noreturn_calls:
            raise _Throw(name)
        for pat, k in self.invalidate.items():
            if pat == name or re.fullmatch(pat, fn_canon):
                self.epochs[k] = self.epochs.get(k, 0) + 1
                break
        if matched_role_call is not None and matched_role_call in self.may_throw_calls:
            if self._atom(f"throws:{matched_role_call}"):
                raise _Throw(f"from:{matched_role_call}")
        # role bound to the whole call expression (e.g. getter calls, results of opaque calls)
        rr = self._ord_role(whole)
        if rr is not None:
            return self.role_value(rr)
        br = self._bool_role(whole)
        if br is not None:
            if br.name in self.bstate:
                return (BOOL, self.bstate[br.name])
            return (BOOL, self._atom(br.name))
        # local lambda invoked by name
        if isinstance(e.fn, C.Id) and e.fn.name in env.lambdas_all():
            lam = env.lookup_lambda(e.fn.name)
            return self._run_lambda(lam, args_v, env)
        if name in self.inline_lambda_callees and lambdas:
            lam = lambdas[0]
            if name == "fallback_on_exception":
                try:
                    return self._run_lambda(lam, [], env)
                except _Throw:
                    if len(lambdas) > 1:
                        self._run_lambda(lambdas[1], [(SYM, "error")], env)
                    return args_v[0]
            if name == "capture":
                try:
                    self._run_lambda(lam, [], env)
                except _Throw:
                    pass
                return (SYM, whole)
            return self._run_lambda(lam, [], env)
        # helper inlining
        if name in self.inline and self.depth < 3:
            return self._inline_call(self.inline[name], args_v, env)
        return (SYM, whole)

    def _run_lambda(self, lam: C.Lambda, args, env: "Env"):
        inner = env.child()
        for (ty, nm), v in zip(lam.params, list(args) + [(SYM, "?")] * len(lam.params)):
            if nm:
                inner.vars[nm] = v if v[0] != SYM or len(v) < 3 else (SYM, nm)
        try:
            self.exec(lam.body, inner)
        except _Return as r:
            return r.value if r.value is not None else (SYM, "void")
        return (SYM, "void")

    def _inline_call(self, fa: C.FuncAST, args, env: "Env"):
        self.depth += 1
        try:
            inner = Env(Canon(self.base_aliases))
            for (ty, nm), v in zip(fa.params, args):
                if nm:
                    inner.vars[nm] = v
                    if v[0] == SYM:
                        inner.canon.aliases[nm] = v[1]
            save = self.fa
            self.fa = fa
            try:
                self.exec(fa.body, inner)
            except _Return as r:
                return r.value if r.value is not None else (SYM, "void")
            finally:
                self.fa = save
            return (SYM, "void")
        finally:
            self.depth -= 1


class Env:
    def __init__(self, canon: Canon, parent: Optional["Env"] = None):
        self.canon = canon
        self.parent = parent
        self.vars: Dict[str, Any] = {}
        self.lambdas: Dict[str, C.Lambda] = {}

    def child(self) -> "Env":
        # aliases are shared per function (names are unique enough); values are scoped
        e = Env(self.canon, self)
        return e

    def lookup(self, name: str):
        e = self
        while e is not None:
            if name in e.vars:
                return e.vars[name]
            e = e.parent
        return None

    def assign(self, name: str, v) -> None:
        e = self
        while e is not None:
            if name in e.vars:
                e.vars[name] = v
                return
            e = e.parent
        self.vars[name] = v

    def vars_all(self):
        out = set()
        e = self
        while e is not None:
            out.update(e.vars)
            e = e.parent
        return out

    def lambdas_all(self):
        out = set()
        e = self
        while e is not None:
            out.update(e.lambdas)
            e = e.parent
        return out

    def lookup_lambda(self, name: str):
        e = self
        while e is not None:
            if name in e.lambdas:
                return e.lambdas[name]
            e = e.parent
        return None


# ---------------------------------------------------------------------------------------------
@dataclass
class Expect:
    """Specified outcome of one valuation. Values are role names (their *initial* value), ('succ', role),
    True/False, or None for 'unchanged'."""
    throws: Any = None  # None = must not throw; True = must throw; str = must throw this type; 'may'
    stores: Dict[str, Any] = field(default_factory=dict)  # role -> expected final holder (role name / bool)
    calls: Optional[List[Tuple[str, Tuple[Any, ...]]]] = None  # exact ordered list of role calls (None = unchecked)
    ret: Any = "unchecked"
    dont_care: Sequence[str] = ()  # roles whose final value is not constrained in this row
    stores_on_throw: bool = False  # compare stores / calls even when the row throws


@dataclass
class K1Result:
    evaluations: int = 0
    orderings: int = 0
    mismatches: List[Dict[str, Any]] = field(default_factory=list)
    rows: Dict[str, int] = field(default_factory=dict)  # distinct outcome signature -> count
    sample_rows: List[str] = field(default_factory=list)
    bound_roles: List[str] = field(default_factory=list)
    atoms: List[str] = field(default_factory=list)
    dynamic_roles: List[str] = field(default_factory=list)


def _val_repr(v) -> str:
    if v is None:
        return "None"
    if v[0] == ORD:
        return f"rank{v[2]}"
    if v[0] == BOOL:
        return "T" if v[1] else "F"
    if v[0] == "tuple":
        return "{" + ",".join(_val_repr(x) for x in v[2]) + "}"
    return str(v[1])


def run_table(interp: Interp, spec: Callable[[View], Expect], *, unit: Optional[C.Node] = None,
              prelude: Optional[Sequence[C.Node]] = None,
              feasible: Optional[Callable[[View], bool]] = None,
              max_cases: int = 400000) -> K1Result:
    """Enumerate all orderings x boolean forks; compare code outcome with spec.

    Ordered terms the role table does not bind are added as free roles (at most 3) and the enumeration restarts:
    the specified table cannot depend on them, so any dependence of the code's outcome on such a term shows up
    as a mismatch with a witness ordering."""
    added = 0
    while True:
        try:
            res = _run_table(interp, spec, unit=unit, prelude=prelude, feasible=feasible, max_cases=max_cases)
            res.dynamic_roles = [r.name for r in interp.roles if r.name.startswith("?") or r.name.endswith("+1")]
            return res
        except NeedRole as nr:
            if added >= 3 or nr.role.name in interp.role_by_name:
                raise AnalysisError("model-mismatch", f"K1: {nr.why} (no role; dynamic role limit reached)")
            added += 1
            interp.roles.append(nr.role)
            interp.role_by_name[nr.role.name] = nr.role


def _run_table(interp: Interp, spec: Callable[[View], Expect], *, unit: Optional[C.Node] = None,
               prelude: Optional[Sequence[C.Node]] = None,
               feasible: Optional[Callable[[View], bool]] = None,
               max_cases: int = 400000) -> K1Result:
    res = K1Result()
    roles = interp.roles
    sorts: Dict[str, List[Role]] = {}
    for r in roles:
        if r.sort != "bool":
            sorts.setdefault(r.sort, []).append(r)
    per_sort: List[List[Dict[str, int]]] = []
    for sname, rs in sorts.items():
        names = [r.name for r in rs]
        lst = []
        for wo in weak_orderings(names):
            ok = True
            for r in rs:
                if r.sentinel == "min" and any(wo[o.name] <= wo[r.name] for o in rs if o is not r and o.sentinel != "min"):
                    # sentinel min is <= everything; allow equality only with non-strict sentinels
                    if any(wo[o.name] < wo[r.name] for o in rs if o is not r):
                        ok = False
                if r.sentinel == "max" and any(wo[o.name] > wo[r.name] for o in rs if o is not r):
                    ok = False
                if r.succ_of is not None:
                    b = wo[r.succ_of]
                    if not wo[r.name] > b:
                        ok = False
                    elif any(b < wo[o.name] < wo[r.name] for o in rs):
                        ok = False
                if not ok:
                    break
            if ok:
                lst.append(wo)
        per_sort.append(lst)
    sig_seen: Dict[str, str] = {}
    for combo in itertools.product(*per_sort) if per_sort else [()]:
        ranks: Dict[str, int] = {}
        for d in combo:
            ranks.update(d)
        res.orderings += 1
        stack: List[Dict[str, bool]] = [{}]
        while stack:
            bools = stack.pop()
            view = View(ranks, bools, interp)
            try:
                if feasible is not None and not feasible(view):
                    continue
                out = interp.run(ranks, bools, unit=unit, prelude=prelude)
                exp = spec(view)
            except NeedBool as nb:
                stack.append({**bools, nb.name: True})
                stack.append({**bools, nb.name: False})
                continue
            res.evaluations += 1
            if res.evaluations > max_cases:
                raise AnalysisError("model-mismatch", "K1: case explosion")
            diff = compare(out, exp, ranks, interp)
            sig = outcome_signature(out, ranks, interp)
            res.rows[sig] = res.rows.get(sig, 0) + 1
            if sig not in sig_seen:
                sig_seen[sig] = view.describe()
            if diff:
                res.mismatches.append({"valuation": view.describe(), "diff": diff, "code": sig})
    res.sample_rows = [f"{v}  =>  {k}" for k, v in list(sig_seen.items())[:12]]
    res.bound_roles = sorted(interp.bound_roles)
    res.atoms = sorted(interp.auto_atoms)
    missing = [r.name for r in roles if r.required and r.pattern and r.name not in interp.bound_roles and r.sentinel is None]
    if missing and not res.mismatches:
        raise AnalysisError("anchor-vanished", f"K1: roles never bound in {interp.fa.fd.qual if interp.fa.fd else '?'}: {missing}")
    return res


def _holder_names(v, ranks: Dict[str, int], interp: Interp) -> str:
    if v is None:
        return "None"
    if v[0] == ORD:
        names = sorted(r.name for r in interp.roles if r.sort == v[1] and ranks.get(r.name) == v[2])
        return "=".join(names) if names else f"rank{v[2]}"
    return _val_repr(v)


def outcome_signature(out: Outcome, ranks: Dict[str, int], interp: Interp) -> str:
    parts = []
    if out.throws:
        parts.append(f"throw {out.throws}")
    for role, v in sorted(out.stores.items()):
        parts.append(f"{role}:={_holder_names(v, ranks, interp)}")
    for name, args in out.calls:
        parts.append(f"{name}({','.join(_holder_names(a, ranks, interp) for a in args)})")
    if out.returned:
        parts.append(f"return {_holder_names(out.ret, ranks, interp) if out.ret is not None else ''}")
    return "; ".join(parts) or "no-effect"


def _expected_value(x, ranks: Dict[str, int], interp: Interp):
    """Translate a spec value into an abstract value."""
    if isinstance(x, bool):
        return (BOOL, x)
    if isinstance(x, int):
        return (NUM, x)
    if isinstance(x, str):
        if x in ranks:
            r = interp.role_by_name[x]
            return (ORD, r.sort, ranks[x])
        return (SYM, x)
    if isinstance(x, tuple) and x and x[0] == "any":
        return ("any",)
    if isinstance(x, tuple) and len(x) == 3 and x[0] == "tuple":
        return ("tuple", x[1], tuple(_expected_value(y, ranks, interp) for y in x[2]))
    return x


def _same(actual, expected) -> bool:
    if expected is not None and expected[0] == "any":
        return True
    if actual is None or expected is None:
        return actual is expected
    if actual[0] == ORD and expected[0] == ORD:
        return actual[1] == expected[1] and actual[2] == expected[2]
    if actual[0] == "tuple" and expected[0] == "tuple":
        return len(actual[2]) == len(expected[2]) and all(_same(a, b) for a, b in zip(actual[2], expected[2]))
    if actual[0] == SYM and expected[0] == SYM:
        return actual[1] == expected[1] or re.fullmatch(expected[1], actual[1]) is not None
    return actual[:2] == expected[:2]


def compare(out: Outcome, exp: Expect, ranks: Dict[str, int], interp: Interp) -> List[str]:
    diff: List[str] = []
    if exp.throws == "may":
        if out.throws:
            return diff
    elif exp.throws:
        if not out.throws:
            diff.append(f"spec throws{'' if exp.throws is True else ' ' + str(exp.throws)}, code does not")
        elif exp.throws is not True and not str(out.throws).endswith(str(exp.throws)):
            diff.append(f"spec throws {exp.throws}, code throws {out.throws}")
        if not exp.stores_on_throw or diff:
            return diff
    elif out.throws:
        diff.append(f"code throws {out.throws}, spec does not")
        return diff
    # stores: every lvalue role: final value must equal expected holder (default: unchanged)
    for r in interp.roles:
        if not r.lvalue or r.name in exp.dont_care:
            continue
        if r.sort == "bool":
            if r.name in exp.stores:
                want = exp.stores[r.name]
                got = out.stores.get(r.name)
                if want is None:
                    continue
                if got is None or got[1] != want:
                    diff.append(f"{r.name}: spec final {want}, code {'unchanged' if got is None else got[1]}")
            elif r.name in out.stores:
                # unchanged expected: a store of the initial value is fine only if value known equal
                init = interp.bools.get(r.name)
                if init is None or out.stores[r.name][1] != init:
                    diff.append(f"{r.name}: spec unchanged, code stores {out.stores[r.name][1]}")
            continue
        want_name = exp.stores.get(r.name, r.name)
        if want_name is None:
            continue
        want = _expected_value(want_name, ranks, interp)
        got = out.stores.get(r.name, (ORD, r.sort, ranks.get(r.name)))
        if not _same(got, want):
            diff.append(f"{r.name}: spec final value {want_name}, code leaves {_holder_names(got, ranks, interp)}")
    if exp.calls is not None:
        want_calls = [(n, None if tuple(args) == ("anyargs",) else tuple(_expected_value(a, ranks, interp) for a in args))
                      for n, args in exp.calls]
        got_calls = out.calls
        ok = len(want_calls) == len(got_calls) and all(
            wn == gn and (wa is None or (len(wa) == len(ga) and all(_same(g, w) for g, w in zip(ga, wa))))
            for (wn, wa), (gn, ga) in zip(want_calls, got_calls))
        if not ok:
            ws = "; ".join(f"{n}({','.join(str(a) for a in args)})" for n, args in exp.calls) or "none"
            gs = "; ".join(f"{n}({','.join(_holder_names(a, ranks, interp) for a in args)})" for n, args in got_calls) or "none"
            diff.append(f"calls: spec [{ws}], code [{gs}]")
    if exp.ret != "unchecked" and not out.throws:
        want = _expected_value(exp.ret, ranks, interp) if exp.ret is not None else None
        if exp.ret is None:
            if out.ret is not None and out.returned and out.ret[0] != SYM:
                diff.append(f"return: spec none, code {_holder_names(out.ret, ranks, interp)}")
        elif not out.returned or not _same(out.ret, want):
            diff.append(f"return: spec {exp.ret}, code {_holder_names(out.ret, ranks, interp) if out.returned else 'falls through'}")
    return diff
