"""Statement-level CFG with exception edges and the scope.h guard idioms, plus path queries (K2).

Nodes are *micro* nodes: one per call (in evaluation order), one per simple statement / condition.
Exceptional control flow follows landing-pad chains built from guard declarations
(`make_scope_exit`, `UnwindCleanupGuard`) and the capture idioms (`FirstExceptionRecorder::capture`,
`fallback_on_exception`, `annotate_on_exception`).  Path queries run on the product of the CFG with
the armed/released state of every guard, so `release()` / `complete()` are respected path-sensitively.
"""
from __future__ import annotations

import re
from dataclasses import dataclass, field
from typing import Callable, Dict, FrozenSet, Iterable, List, Optional, Sequence, Set, Tuple

from . import cparse as C
from .canon import Canon, callee_name
from .index import AnalysisError

NOEXCEPT_NAMES = {
    "release", "has_value", "valid", "empty", "size", "data", "get", "value_or", "has_exception", "std::move",
    "move", "forward", "std::forward", "operator bool", "started", "node_index", "static_cast", "sizeof",
    "std::uncaught_exceptions", "uncaught_exceptions", "std::max", "std::min", "max", "min", "std::addressof",
    "make_scope_exit", "UnwindCleanupGuard", "std::get", "load", "store", "test", "begin", "end", "cbegin", "cend",
    "std::is_same_v", "view", "evaluation_time", "next_scheduled_time", "graph", "schema", "type", "ops_ref",
    "std::construct_at", "std::exchange", "std::swap", "std::get_if", "holds_alternative", "std::holds_alternative",
    "front", "back", "first", "second", "pointer", "count", "find", "contains", "std::current_exception",
    "std::chrono::duration_cast", "time_since_epoch", "std::this_thread::get_id", "get_id", "graph_header",
    "graph_context", "graph_schedule", "graph_node_memory", "static_cast<void>",
}

# names GCC does NOT know to be non-throwing (no `noexcept` on the declaration; found by the GIR cross-check G3): accessors whose bodies
# cannot throw in practice.  They are NOT trusted: every rule verdict was re-checked with exceptional edges out of these calls and none
# depends on them, so they are removed from the non-throwing list (HGV_TRUST_ACCESSORS=1 restores the old, weaker model for comparison).
ASSUMED_NOEXCEPT = {"view", "valid", "graph", "get", "type", "ops_ref", "find", "contains", "begin", "end", "cbegin", "cend", "size", "empty",
                    "graph_context", "count", "std::get", "max", "min", "std::max", "std::min", "make_scope_exit", "graph_header", "graph_schedule",
                    "graph_node_memory", "data", "schema", "evaluation_time", "next_scheduled_time", "front", "back", "first", "second", "pointer"}
import os as _os
if _os.environ.get("HGV_TRUST_ACCESSORS") != "1":
    NOEXCEPT_NAMES -= ASSUMED_NOEXCEPT

# callees that invoke their lambda argument synchronously exactly once, exceptions propagating
SYNC_LAMBDA_CALLEES = {"run_executor_phase", "std::invoke", "invoke", "with_type_realization", "std::apply"}

GUARD_CTORS = {"make_scope_exit": "exit", "scope_exit": "exit", "UnwindCleanupGuard": "unwind"}


@dataclass
class Guard:
    gid: str
    name: str
    kind: str  # exit / exit_hide / unwind
    lam: Optional[C.Lambda]
    line: int


@dataclass
class N:
    id: int
    kind: str  # entry exit exc_exit call stmt cond decl throw join guard-test guard-complete loop-head handler
    label: str = ""
    ast: Optional[C.Node] = None
    line: int = 0
    succ: List[Tuple[int, str]] = field(default_factory=list)
    # call attributes
    callee: str = ""
    name: str = ""
    recv: str = ""
    args: Tuple[str, ...] = ()
    # stmt attributes
    stores: List[Tuple[str, str]] = field(default_factory=list)
    decl: Optional[str] = None
    # guard attributes
    guard: Optional[str] = None  # gid for guard-test / release / arm
    effect: Optional[str] = None  # 'release' / 'arm'
    ctx: str = ""  # lambda / region context label, e.g. 'guard:rollback', 'capture', 'lambda'
    depth: int = 0  # loop nesting depth
    loops: Tuple[int, ...] = ()  # ids of enclosing loop heads


class Ctx:
    __slots__ = ("eh", "brk", "cont", "ret", "guards", "brk_g", "cont_g", "ret_g", "region", "loops")

    def __init__(self, eh, brk=None, cont=None, ret=None, guards=(), brk_g=0, cont_g=0, ret_g=0, region="", loops=()):
        self.eh = eh
        self.brk = brk
        self.cont = cont
        self.ret = ret
        self.guards: Tuple[Guard, ...] = tuple(guards)
        self.brk_g = brk_g
        self.cont_g = cont_g
        self.ret_g = ret_g
        self.region = region
        self.loops = tuple(loops)

    def copy(self, **kw) -> "Ctx":
        c = Ctx(self.eh, self.brk, self.cont, self.ret, self.guards, self.brk_g, self.cont_g, self.ret_g, self.region,
                self.loops)
        for k, v in kw.items():
            setattr(c, k, v)
        return c


Outs = List[Tuple[int, str]]


class CFG:
    def __init__(self, fa: C.FuncAST, *, noexcept_names: Optional[Set[str]] = None,
                 extra_aliases: Optional[Dict[str, str]] = None, inline_named_lambdas: bool = True,
                 sync_callees: Optional[Set[str]] = None):
        self.sync_callees = set(SYNC_LAMBDA_CALLEES) | (sync_callees or set())
        self.fa = fa
        self.nodes: List[N] = []
        self.guards: Dict[str, Guard] = {}
        self.noexcept = set(NOEXCEPT_NAMES) | (noexcept_names or set())
        self.canon = Canon(extra_aliases or {})
        self.named_lambdas: Dict[str, C.Lambda] = {}
        self.inline_named_lambdas = inline_named_lambdas
        self._collect_aliases(fa.body)
        self.flags = self._collect_flags(fa.body)
        self.stable = self._collect_stable(fa)
        self.entry = self._new("entry").id
        self.exit = self._new("exit").id
        self.exc_exit = self._new("exc_exit").id
        ctx = Ctx(self.exc_exit, ret=self.exit)
        outs = self._stmt(fa.body, [(self.entry, "next")], ctx)
        self._connect(outs, self.exit)

    # -- construction helpers ----------------------------------------------------------
    def _collect_aliases(self, body: C.Node) -> None:
        seen: Set[str] = set()
        for n in body.walk():
            if isinstance(n, C.Decl):
                for d in n.decls:
                    if d.bindings is None and d.init is not None and (d.ref or d.ptr) and not isinstance(d.init, (C.Lambda, C.Ternary)):
                        init = d.init
                        if isinstance(init, C.Init) and init.type is None and len(init.elems) == 1:
                            init = init.elems[0]
                        if d.name in seen:
                            # shadowed / redeclared with another target: drop alias to stay sound
                            if self.canon.aliases.get(d.name) != self.canon(init):
                                self.canon.aliases.pop(d.name, None)
                            continue
                        seen.add(d.name)
                        self.canon.aliases[d.name] = self.canon(init)
                    elif d.bindings is None and isinstance(d.init, C.Lambda):
                        self.named_lambdas[d.name] = d.init

    def _collect_flags(self, body: C.Node) -> Set[str]:
        """Local bool variables that are only ever assigned the literals true/false (constant-propagated by Flow)."""
        cand: Dict[str, int] = {}
        bad: Set[str] = set()
        for n in body.walk():
            if isinstance(n, C.Decl) and "bool" in n.type.split() and "&" not in n.type and "*" not in n.type:
                for d in n.decls:
                    init = d.init
                    if isinstance(init, C.Init) and init.type is None and len(init.elems) == 1:
                        init = init.elems[0]
                    if isinstance(init, C.Lit) and init.text in ("true", "false"):
                        cand[d.name] = cand.get(d.name, 0) + 1
                    else:
                        bad.add(d.name)
        for n in body.walk():
            if isinstance(n, C.Binary) and n.op in C._ASSIGN and isinstance(n.l, C.Id) and n.l.name in cand:
                if not (n.op == "=" and isinstance(n.r, C.Lit) and n.r.text in ("true", "false")):
                    bad.add(n.l.name)
            elif isinstance(n, C.Unary) and n.op == "&" and isinstance(n.e, C.Id) and n.e.name in cand:
                bad.add(n.e.name)
            elif isinstance(n, C.Call):
                # passed by (possibly non-const) reference to an unknown callee: stay conservative only for out-params
                pass
        return {k for k, v in cand.items() if v == 1 and k not in bad}

    def _collect_stable(self, fa: C.FuncAST) -> Set[str]:
        """Plain local / parameter names that are never modified after initialisation: tests of the same name
        are correlated by Flow (if (p) A; ... if (p) B;)."""
        declared: Dict[str, int] = {}
        for _, nm in fa.params:
            if nm:
                declared[nm] = 1
        for n in fa.body.walk():
            if isinstance(n, C.Declarator) and n.bindings is None:
                declared[n.name] = declared.get(n.name, 0) + 1
        bad: Set[str] = set()
        for n in fa.body.walk():
            if isinstance(n, C.Binary) and n.op in C._ASSIGN and isinstance(n.l, C.Id):
                bad.add(n.l.name)
            elif isinstance(n, (C.Unary, C.Postfix)) and n.op in ("++", "--", "&") and isinstance(n.e, C.Id):
                bad.add(n.e.name)
            elif isinstance(n, C.Call) and isinstance(n.fn, C.Member) and not n.fn.arrow and isinstance(n.fn.obj, C.Id) \
                    and n.fn.name not in ("has_value", "valid", "empty", "size", "get", "view", "data"):
                bad.add(n.fn.obj.name)
            elif isinstance(n, C.Call):
                for a in n.args:
                    if isinstance(a, C.Call) and callee_name(a) in ("move", "std::move") and a.args and isinstance(a.args[0], C.Id):
                        bad.add(a.args[0].name)
        return {k for k, v in declared.items() if v == 1 and k not in bad and k not in self.flags}

    def _new(self, kind: str, label: str = "", ast: Optional[C.Node] = None, ctx: Optional[Ctx] = None) -> N:
        n = N(len(self.nodes), kind, label, ast, self.fa.line(ast) if ast is not None else 0)
        if ctx is not None:
            n.ctx = ctx.region
            n.depth = len(ctx.loops)
            n.loops = ctx.loops
        self.nodes.append(n)
        return n

    def _connect(self, outs: Outs, target: int) -> None:
        for nid, lab in outs:
            self.nodes[nid].succ.append((target, lab))

    def _append(self, ins: Outs, n: N) -> Outs:
        self._connect(ins, n.id)
        return [(n.id, "next")]

    # -- expressions -----------------------------------------------------------------------
    def _may_throw(self, call: C.Call, callee: str, name: str) -> bool:
        if name in self.noexcept or callee in self.noexcept:
            return False
        return True

    def _expr(self, e: Optional[C.Node], ins: Outs, ctx: Ctx) -> Outs:
        """Emit call nodes of e in evaluation order; returns dangling outs."""
        if e is None:
            return ins
        if isinstance(e, (C.Lit, C.Id, C.TypeExpr)):
            return ins
        if isinstance(e, C.Lambda):
            return ins  # not executed here
        if isinstance(e, C.Binary):
            if e.op in ("&&", "||"):
                outs_l = self._expr(e.l, ins, ctx)
                c = self._new("cond", self.canon(e.l), e.l, ctx)
                self._connect(outs_l, c.id)
                if e.op == "&&":
                    outs_r = self._expr(e.r, [(c.id, "T")], ctx)
                    return outs_r + [(c.id, "F")]
                outs_r = self._expr(e.r, [(c.id, "F")], ctx)
                return outs_r + [(c.id, "T")]
            if e.op in C._ASSIGN:
                outs = self._expr(e.r, ins, ctx)
                outs = self._expr_lhs(e.l, outs, ctx)
                return outs
            outs = self._expr(e.l, ins, ctx)
            return self._expr(e.r, outs, ctx)
        if isinstance(e, C.Ternary):
            outs_c = self._expr(e.c, ins, ctx)
            c = self._new("cond", self.canon(e.c), e.c, ctx)
            self._connect(outs_c, c.id)
            a = self._expr(e.a, [(c.id, "T")], ctx)
            b = self._expr(e.b, [(c.id, "F")], ctx)
            return a + b
        if isinstance(e, C.Unary):
            return self._expr(e.e, ins, ctx)
        if isinstance(e, C.Postfix):
            return self._expr(e.e, ins, ctx)
        if isinstance(e, C.Cast):
            return self._expr(e.e, ins, ctx)
        if isinstance(e, C.Member):
            return self._expr(e.obj, ins, ctx)
        if isinstance(e, C.Index):
            outs = self._expr(e.obj, ins, ctx)
            for a in e.args:
                outs = self._expr(a, outs, ctx)
            return outs
        if isinstance(e, C.Init):
            outs = ins
            for a in e.elems:
                outs = self._expr(a.value if isinstance(a, C.Desig) else a, outs, ctx)
            if e.type is not None:
                tn = self.canon(e.type)
                n = self._new("call", f"{tn}{{...}}", e, ctx)
                n.callee = tn
                n.name = tn.split("::")[-1]
                n.args = tuple(self.canon(a) for a in e.elems)
                outs = self._append(outs, n)
            return outs
        if isinstance(e, C.Throw):
            outs = self._expr(e.e, ins, ctx)
            n = self._new("throw", self.canon(e), e, ctx)
            self._connect(outs, n.id)
            n.succ.append((ctx.eh, "eh"))
            return []
        if isinstance(e, C.New):
            outs = ins
            for a in e.args:
                outs = self._expr(a, outs, ctx)
            return outs
        if isinstance(e, C.Delete):
            return self._expr(e.e, ins, ctx)
        if isinstance(e, C.Call):
            return self._call(e, ins, ctx)
        if isinstance(e, (C.Desig,)):
            return self._expr(e.value, ins, ctx)
        raise AnalysisError("unparsed-construct", f"CFG: expression {type(e).__name__} at {self.fa.loc(e)}")

    def _expr_lhs(self, e: C.Node, ins: Outs, ctx: Ctx) -> Outs:
        return self._expr(e, ins, ctx)

    def _call(self, e: C.Call, ins: Outs, ctx: Ctx) -> Outs:
        name = callee_name(e)
        callee = self.canon(e.fn)
        outs = ins
        # receiver
        if isinstance(e.fn, C.Member):
            outs = self._expr(e.fn.obj, outs, ctx)
        elif not isinstance(e.fn, C.Id):
            outs = self._expr(e.fn, outs, ctx)
        # guard operations
        if isinstance(e.fn, C.Member) and isinstance(e.fn.obj, C.Id) and name in ("release", "complete"):
            g = self._guard_by_name(e.fn.obj.name, ctx)
            if g is not None:
                if name == "release":
                    n = self._new("stmt", f"{g.name}.release()", e, ctx)
                    n.guard, n.effect = g.gid, "release"
                    n.name, n.callee, n.recv = "release", callee, g.name
                    return self._append(outs, n)
                # complete(): run once if armed
                t = self._new("guard-complete", f"{g.name}.complete()", e, ctx)
                t.guard = g.gid
                t.name, t.callee, t.recv = "complete", callee, g.name
                self._connect(outs, t.id)
                rel = self._new("stmt", f"{g.name}:=released", e, ctx)
                rel.guard, rel.effect = g.gid, "release"
                self.nodes[t.id].succ.append((rel.id, f"armed:{g.gid}"))
                body_outs = self._run_lambda(g.lam, [(rel.id, "next")], ctx, region=f"guard:{g.name}") if g.lam else [(rel.id, "next")]
                return body_outs + [(t.id, f"released:{g.gid}")]
        # idioms that run a lambda now
        lam_args = [a for a in e.args if isinstance(a, C.Lambda)]
        named = [self.named_lambdas.get(a.name) for a in e.args if isinstance(a, C.Id) and a.name in self.named_lambdas]
        if name == "capture" and (lam_args or named):
            lam = (lam_args or named)[0]
            join = self._new("join", "capture-end", e, ctx)
            inner = ctx.copy(eh=join.id)
            o = self._run_lambda(lam, outs, inner, region=(ctx.region + "/capture").strip("/"), absorb=True)
            self._connect(o, join.id)
            n = self._new("call", self.canon(e), e, ctx)
            n.callee, n.name, n.recv = callee, name, self.canon(e.fn.obj) if isinstance(e.fn, C.Member) else ""
            self._connect([(join.id, "next")], n.id)
            return [(n.id, "next")]
        if name == "fallback_on_exception" and (lam_args or named):
            lams = lam_args or named
            # args: fallback, lambda[, handler]
            outs = self._expr(e.args[0], outs, ctx)
            join = self._new("join", "fallback-end", e, ctx)
            if len(lams) > 1:
                hstart = self._new("handler", "fallback-handler", lams[1], ctx)
                ho = self._run_lambda(lams[1], [(hstart.id, "next")], ctx, region=(ctx.region + "/fallback-handler").strip("/"))
                self._connect(ho, join.id)
                inner = ctx.copy(eh=hstart.id)
            else:
                inner = ctx.copy(eh=join.id)
            o = self._run_lambda(lams[0], outs, inner, region=(ctx.region + "/fallback").strip("/"))
            self._connect(o, join.id)
            n = self._new("call", self.canon(e), e, ctx)
            n.callee, n.name = callee, name
            self._connect([(join.id, "next")], n.id)
            return [(n.id, "next")]
        if name == "annotate_on_exception" and (lam_args or named):
            lams = lam_args or named
            if len(lams) > 1:
                hstart = self._new("handler", "annotate-handler", lams[1], ctx)
                ho = self._run_lambda(lams[1], [(hstart.id, "next")], ctx, region=(ctx.region + "/annotate-handler").strip("/"))
                self._connect(ho, ctx.eh)  # rethrow
                for nid, lab in ho:
                    pass
                inner = ctx.copy(eh=hstart.id)
            else:
                inner = ctx
            o = self._run_lambda(lams[0], outs, inner, region=(ctx.region + "/annotate").strip("/"))
            n = self._new("call", self.canon(e), e, ctx)
            n.callee, n.name = callee, name
            self._connect(o, n.id)
            return [(n.id, "next")]
        if name in self.sync_callees and (lam_args or named):
            for a in e.args:
                if not isinstance(a, C.Lambda):
                    outs = self._expr(a, outs, ctx)
            o = self._run_lambda((lam_args or named)[0], outs, ctx, region=(ctx.region + f"/{name}").strip("/"))
            n = self._new("call", self.canon(e), e, ctx)
            n.callee, n.name = callee, name
            n.args = tuple(self.canon(a) for a in e.args)
            self._connect(o, n.id)
            n.succ.append((ctx.eh, "eh"))
            return [(n.id, "next")]
        # immediately-invoked lambda
        if isinstance(e.fn, C.Lambda):
            for a in e.args:
                outs = self._expr(a, outs, ctx)
            return self._run_lambda(e.fn, outs, ctx, region=(ctx.region + "/iife").strip("/"))
        # named local lambda call
        if self.inline_named_lambdas and isinstance(e.fn, C.Id) and e.fn.name in self.named_lambdas and e.fn.targs is None:
            for a in e.args:
                outs = self._expr(a, outs, ctx)
            return self._run_lambda(self.named_lambdas[e.fn.name], outs, ctx,
                                    region=(ctx.region + f"/lambda:{e.fn.name}").strip("/"))
        # arguments
        for a in e.args:
            outs = self._expr(a, outs, ctx)
        n = self._new("call", self.canon(e), e, ctx)
        n.callee = callee
        n.name = name
        n.recv = self.canon(e.fn.obj) if isinstance(e.fn, C.Member) else ""
        n.args = tuple(self.canon(a) for a in e.args)
        self._connect(outs, n.id)
        if self._may_throw(e, callee, name):
            n.succ.append((ctx.eh, "eh"))
        return [(n.id, "next")]

    def _guard_by_name(self, name: str, ctx: Ctx) -> Optional[Guard]:
        for g in reversed(ctx.guards):
            if g.name == name:
                return g
        return None

    def _run_lambda(self, lam: C.Lambda, ins: Outs, ctx: Ctx, region: str, absorb: bool = False) -> Outs:
        """Inline the lambda body; `return` inside goes to the lambda end."""
        end = self._new("join", "lambda-end", lam, ctx)
        inner = ctx.copy(ret=end.id, ret_g=len(ctx.guards), brk=None, cont=None, region=region)
        outs = self._stmt(lam.body, ins, inner)
        self._connect(outs, end.id)
        return [(end.id, "next")]

    # -- guard cleanup chains --------------------------------------------------------------
    def _landing(self, g: Guard, ctx: Ctx) -> int:
        """Exceptional landing pad for guard g: run lambda if armed, continue to outer handler."""
        t = self._new("guard-test", f"~{g.name} (unwinding)", None, ctx)
        t.guard = g.gid
        t.line = g.line
        if g.lam is not None:
            # exceptions inside the cleanup are swallowed (unwind / hide) or terminate: continue to outer eh
            inner = ctx.copy(eh=ctx.eh, region=f"guard:{g.name}")
            o = self._run_lambda(g.lam, [(t.id, f"armed:{g.gid}")], inner, region=f"guard:{g.name}")
            self._connect(o, ctx.eh)
        else:
            t.succ.append((ctx.eh, f"armed:{g.gid}"))
        t.succ.append((ctx.eh, f"released:{g.gid}"))
        return t.id

    def _normal_cleanup(self, guards: Sequence[Guard], ins: Outs, ctx: Ctx) -> Outs:
        """Run scope_exit guards (innermost first) on a normal scope exit."""
        outs = ins
        for g in reversed(list(guards)):
            if g.kind == "unwind":
                continue
            t = self._new("guard-test", f"~{g.name} (scope exit)", None, ctx)
            t.guard = g.gid
            t.line = g.line
            self._connect(outs, t.id)
            if g.lam is not None:
                eh = ctx.eh
                join = None
                if g.kind == "exit_hide":
                    join = self._new("join", "hide-exceptions", None, ctx)
                    eh = join.id
                inner = ctx.copy(eh=eh)
                o = self._run_lambda(g.lam, [(t.id, f"armed:{g.gid}")], inner, region=f"guard:{g.name}")
                if join is not None:
                    self._connect(o, join.id)
                    o = [(join.id, "next")]
                outs = o + [(t.id, f"released:{g.gid}")]
            else:
                outs = [(t.id, f"armed:{g.gid}"), (t.id, f"released:{g.gid}")]
        return outs

    # -- statements ------------------------------------------------------------------------
    def _stmt(self, s: C.Node, ins: Outs, ctx: Ctx) -> Outs:
        if isinstance(s, C.Block):
            return self._block(s, ins, ctx)
        if isinstance(s, C.ExprStmt):
            outs = self._expr(s.e, ins, ctx)
            n = self._new("stmt", self.canon(s.e), s, ctx)
            self._stores(s.e, n)
            return self._append(outs, n) if outs else []
        if isinstance(s, C.Decl):
            outs = ins
            for d in s.decls:
                if isinstance(d.init, C.Lambda):
                    n = self._new("decl", f"{d.name}=<lambda>", s, ctx)
                    n.decl = d.name
                    outs = self._append(outs, n)
                    continue
                outs = self._expr(d.init, outs, ctx)
                n = self._new("decl", f"{s.type} {d.name}={self.canon(d.init) if d.init is not None else ''}", s, ctx)
                n.decl = d.name
                if d.init is not None:
                    init = d.init
                    if isinstance(init, C.Init) and init.type is None and len(init.elems) == 1:
                        init = init.elems[0]
                    n.stores.append((d.name, self.canon(init)))
                outs = self._append(outs, n) if outs else []
            return outs
        if isinstance(s, C.If):
            outs = ins
            if s.init is not None:
                outs = self._stmt(s.init, outs, ctx)
            if isinstance(s.cond, C.Decl):
                outs = self._stmt(s.cond, outs, ctx)
                label = s.cond.decls[0].name
                cast = s.cond
            else:
                outs, label, cast = self._cond(s.cond, outs, ctx)
                return self._branch_multi(outs, s, ctx)
            c = self._new("cond", label, cast, ctx)
            self._connect(outs, c.id)
            t = self._stmt(s.then, [(c.id, "T")], ctx)
            f = self._stmt(s.els, [(c.id, "F")], ctx) if s.els is not None else [(c.id, "F")]
            return t + f
        if isinstance(s, C.Return):
            outs = self._expr(s.e, ins, ctx)
            if not outs:
                return []
            n = self._new("stmt", "return " + (self.canon(s.e) if s.e is not None else ""), s, ctx)
            outs = self._append(outs, n)
            outs = self._normal_cleanup(ctx.guards[ctx.ret_g:], outs, ctx)
            self._connect(outs, ctx.ret)
            return []
        if isinstance(s, C.Break):
            if ctx.brk is None:
                raise AnalysisError("unparsed-construct", f"CFG: break outside loop at {self.fa.loc(s)}")
            n = self._new("stmt", "break", s, ctx)
            outs = self._append(ins, n)
            outs = self._normal_cleanup(ctx.guards[ctx.brk_g:], outs, ctx)
            self._connect(outs, ctx.brk)
            return []
        if isinstance(s, C.Continue):
            if ctx.cont is None:
                raise AnalysisError("unparsed-construct", f"CFG: continue outside loop at {self.fa.loc(s)}")
            n = self._new("stmt", "continue", s, ctx)
            outs = self._append(ins, n)
            outs = self._normal_cleanup(ctx.guards[ctx.cont_g:], outs, ctx)
            self._connect(outs, ctx.cont)
            return []
        if isinstance(s, C.For):
            outs = ins
            if s.init is not None:
                outs = self._stmt(s.init, outs, ctx)
            head = self._new("loop-head", "for " + (self.canon(s.cond) if s.cond is not None else ""), s, ctx)
            self._connect(outs, head.id)
            after = self._new("join", "for-end", s, ctx)
            stepj = self._new("join", "for-step", s, ctx)
            lctx = ctx.copy(loops=ctx.loops + (head.id,))
            if s.cond is not None:
                co = self._expr(s.cond, [(head.id, "next")], lctx)
                c = self._new("cond", self.canon(s.cond), s.cond, lctx)
                self._connect(co, c.id)
                self.nodes[c.id].succ.append((after.id, "F"))
                body_in = [(c.id, "T")]
            else:
                body_in = [(head.id, "next")]
            bctx = lctx.copy(brk=after.id, cont=stepj.id, brk_g=len(ctx.guards), cont_g=len(ctx.guards))
            bo = self._stmt(s.body, body_in, bctx)
            self._connect(bo, stepj.id)
            so = self._expr(s.step, [(stepj.id, "next")], lctx)
            if s.step is not None:
                sn = self._new("stmt", self.canon(s.step), s.step, lctx)
                self._stores(s.step, sn)
                so = self._append(so, sn)
            for nid, lab in so:
                self.nodes[nid].succ.append((head.id, "back"))
            return [(after.id, "next")]
        if isinstance(s, C.RangeFor):
            outs = ins
            if s.init is not None:
                outs = self._stmt(s.init, outs, ctx)
            outs = self._expr(s.range, outs, ctx)
            head = self._new("loop-head", f"for {','.join(s.names)} : {self.canon(s.range)}", s, ctx)
            self._connect(outs, head.id)
            after = self._new("join", "for-end", s, ctx)
            lctx = ctx.copy(loops=ctx.loops + (head.id,))
            c = self._new("cond", f"more:{self.canon(s.range)}", s, lctx)
            self.nodes[head.id].succ.append((c.id, "next"))
            self.nodes[c.id].succ.append((after.id, "F"))
            bctx = lctx.copy(brk=after.id, cont=head.id, brk_g=len(ctx.guards), cont_g=len(ctx.guards))
            bo = self._stmt(s.body, [(c.id, "T")], bctx)
            for nid, lab in bo:
                self.nodes[nid].succ.append((head.id, "back"))
            return [(after.id, "next")]
        if isinstance(s, C.While):
            head = self._new("loop-head", "while " + self.canon(s.cond), s, ctx)
            self._connect(ins, head.id)
            after = self._new("join", "while-end", s, ctx)
            lctx = ctx.copy(loops=ctx.loops + (head.id,))
            if isinstance(s.cond, C.Decl):
                co = self._stmt(s.cond, [(head.id, "next")], lctx)
                label = s.cond.decls[0].name
            else:
                co = self._expr(s.cond, [(head.id, "next")], lctx)
                label = self.canon(s.cond)
            c = self._new("cond", label, s.cond, lctx)
            self._connect(co, c.id)
            self.nodes[c.id].succ.append((after.id, "F"))
            bctx = lctx.copy(brk=after.id, cont=head.id, brk_g=len(ctx.guards), cont_g=len(ctx.guards))
            bo = self._stmt(s.body, [(c.id, "T")], bctx)
            for nid, lab in bo:
                self.nodes[nid].succ.append((head.id, "back"))
            return [(after.id, "next")]
        if isinstance(s, C.DoWhile):
            head = self._new("loop-head", "do", s, ctx)
            self._connect(ins, head.id)
            after = self._new("join", "do-end", s, ctx)
            condj = self._new("join", "do-cond", s, ctx)
            lctx = ctx.copy(loops=ctx.loops + (head.id,))
            bctx = lctx.copy(brk=after.id, cont=condj.id, brk_g=len(ctx.guards), cont_g=len(ctx.guards))
            bo = self._stmt(s.body, [(head.id, "next")], bctx)
            self._connect(bo, condj.id)
            co = self._expr(s.cond, [(condj.id, "next")], lctx)
            c = self._new("cond", self.canon(s.cond), s.cond, lctx)
            self._connect(co, c.id)
            self.nodes[c.id].succ.append((head.id, "back"))
            self.nodes[c.id].succ.append((after.id, "F"))
            return [(after.id, "next")]
        if isinstance(s, C.Switch):
            outs = ins
            if s.init is not None:
                outs = self._stmt(s.init, outs, ctx)
            outs = self._expr(s.cond, outs, ctx)
            c = self._new("cond", "switch " + self.canon(s.cond), s, ctx)
            self._connect(outs, c.id)
            after = self._new("join", "switch-end", s, ctx)
            bctx = ctx.copy(brk=after.id, brk_g=len(ctx.guards))
            cur: Outs = []
            has_default = False
            body = s.body.stmts if isinstance(s.body, C.Block) else [s.body]
            for st in body:
                if isinstance(st, C.Case):
                    lab = "default" if st.value is None else "case " + self.canon(st.value)
                    if st.value is None:
                        has_default = True
                    j = self._new("join", lab, st, ctx)
                    self.nodes[c.id].succ.append((j.id, lab))
                    self._connect(cur, j.id)
                    cur = [(j.id, "next")]
                else:
                    cur = self._stmt(st, cur, bctx)
            self._connect(cur, after.id)
            if not has_default:
                self.nodes[c.id].succ.append((after.id, "nomatch"))
            return [(after.id, "next")]
        if isinstance(s, C.Try):
            disp = self._new("handler", "catch-dispatch", s, ctx)
            inner = ctx.copy(eh=disp.id)
            bo = self._stmt(s.body, ins, inner)
            outs = list(bo)
            catch_all = False
            for h in s.handlers:
                if h.decl.strip() == "...":
                    catch_all = True
                hn = self._new("handler", f"catch({h.decl})", h, ctx)
                self.nodes[disp.id].succ.append((hn.id, "catch"))
                ho = self._stmt(h.body, [(hn.id, "next")], ctx)
                outs += ho
            if not catch_all:
                self.nodes[disp.id].succ.append((ctx.eh, "eh"))
            return outs
        if isinstance(s, (C.Empty, C.Other, C.Case)):
            return ins
        if isinstance(s, C.Opaque):
            raise AnalysisError("unparsed-construct", f"{self.fa.loc(s)}: {s.text[:100]}")
        raise AnalysisError("unparsed-construct", f"CFG: statement {type(s).__name__} at {self.fa.loc(s)}")

    def _cond(self, e: C.Node, ins: Outs, ctx: Ctx):
        return ins, self.canon(e), e

    def _branch_multi(self, ins: Outs, s: C.If, ctx: Ctx) -> Outs:
        """If statement with short-circuit aware condition."""
        t_outs, f_outs = self._cond_tf(s.cond, ins, ctx)
        t = self._stmt(s.then, t_outs, ctx)
        f = self._stmt(s.els, f_outs, ctx) if s.els is not None else f_outs
        return t + f

    def _cond_tf(self, e: C.Node, ins: Outs, ctx: Ctx) -> Tuple[Outs, Outs]:
        if isinstance(e, C.Binary) and e.op == "&&":
            lt, lf = self._cond_tf(e.l, ins, ctx)
            rt, rf = self._cond_tf(e.r, lt, ctx)
            return rt, lf + rf
        if isinstance(e, C.Binary) and e.op == "||":
            lt, lf = self._cond_tf(e.l, ins, ctx)
            rt, rf = self._cond_tf(e.r, lf, ctx)
            return lt + rt, rf
        if isinstance(e, C.Unary) and e.op == "!":
            t, f = self._cond_tf(e.e, ins, ctx)
            return f, t
        outs = self._expr(e, ins, ctx)
        c = self._new("cond", self.canon(e), e, ctx)
        self._connect(outs, c.id)
        return [(c.id, "T")], [(c.id, "F")]

    def _block(self, b: C.Block, ins: Outs, ctx: Ctx) -> Outs:
        outs = ins
        cur = ctx
        declared: List[Guard] = []
        for st in b.stmts:
            g = self._guard_decl(st, cur)
            if g is not None:
                # arming node
                n = self._new("decl", f"guard {g.name} ({g.kind})", st, cur)
                n.guard, n.effect, n.decl = g.gid, "arm", g.name
                outs = self._append(outs, n) if outs else []
                landing = self._landing(g, cur)
                cur = cur.copy(eh=landing, guards=cur.guards + (g,))
                declared.append(g)
                continue
            outs = self._stmt(st, outs, cur)
        if declared and outs:
            outs = self._normal_cleanup(declared, outs, ctx.copy(eh=ctx.eh))
        return outs

    def _guard_decl(self, st: C.Node, ctx: Ctx) -> Optional[Guard]:
        if not isinstance(st, C.Decl) or len(st.decls) != 1:
            return None
        d = st.decls[0]
        init = d.init
        kind = None
        lam = None
        call = None
        if isinstance(init, C.Call):
            nm = callee_name(init)
            if nm in GUARD_CTORS:
                kind = GUARD_CTORS[nm]
                call = init
                if nm == "make_scope_exit" and isinstance(init.fn, C.Id) and init.fn.targs and "true" in init.fn.targs:
                    kind = "exit_hide"
        elif isinstance(init, C.Init) and init.type is None and any(k in st.type for k in GUARD_CTORS):
            for k, v in GUARD_CTORS.items():
                if k in st.type.split():
                    kind = v
            call = init
        if kind is None:
            return None
        args = call.args if isinstance(call, C.Call) else call.elems
        for a in args:
            if isinstance(a, C.Lambda):
                lam = a
            elif isinstance(a, C.Id) and a.name in self.named_lambdas:
                lam = self.named_lambdas[a.name]
        gid = f"{d.name}@{self.fa.line(st)}"
        g = Guard(gid, d.name, kind, lam, self.fa.line(st))
        self.guards[gid] = g
        return g

    def _stores(self, e: C.Node, n: N) -> None:
        for x in e.walk(into_lambdas=False):
            if isinstance(x, C.Binary) and x.op in C._ASSIGN:
                n.stores.append((self.canon(x.l), (x.op if x.op != "=" else "") + self.canon(x.r)))
            elif isinstance(x, (C.Unary, C.Postfix)) and x.op in ("++", "--"):
                n.stores.append((self.canon(x.e), x.op))

    # -- description -----------------------------------------------------------------------
    def describe(self, nid: int) -> str:
        n = self.nodes[nid]
        return f"{self.fa.fi.path}:{n.line} [{n.kind}] {n.label[:90]}"

    def dump(self) -> str:
        out = []
        for n in self.nodes:
            out.append(f"{n.id:4d} {n.kind:14s} L{n.line:<5d} {n.ctx:20s} {n.label[:70]:70s} -> " +
                       ", ".join(f"{t}:{l}" for t, l in n.succ))
        return "\n".join(out)


# ---------------------------------------------------------------------------------------------
# Product exploration with guard states
# ---------------------------------------------------------------------------------------------
State = Tuple[int, FrozenSet[str]]


class Flow:
    """Reachable product graph (node x released-guards)."""

    def __init__(self, cfg: CFG):
        self.cfg = cfg
        self.succ: Dict[State, List[Tuple[State, str]]] = {}
        self.pred: Dict[State, List[State]] = {}
        self.start: State = (cfg.entry, frozenset())
        self._explore()

    def _step(self, st: State) -> List[Tuple[State, str]]:
        nid, rel = st
        n = self.cfg.nodes[nid]
        out_rel = rel
        if n.effect == "release" and n.guard:
            out_rel = rel | {n.guard}
        elif n.effect == "arm" and n.guard:
            out_rel = rel - {n.guard}
        flags = self.cfg.flags
        if flags and n.kind in ("stmt", "decl"):
            for l, r in n.stores:
                if l in flags and r in ("true", "false"):
                    out_rel = frozenset(x for x in out_rel if not x.startswith(f"flag:{l}=")) | {f"flag:{l}={r}"}
        res = []
        for tgt, lab in n.succ:
            if lab.startswith("armed:"):
                if lab[6:] in rel:
                    continue
            elif lab.startswith("released:"):
                if lab[9:] not in rel:
                    continue
            elif n.kind == "cond" and lab in ("T", "F") and n.label in flags:
                if f"flag:{n.label}=true" in rel and lab == "F":
                    continue
                if f"flag:{n.label}=false" in rel and lab == "T":
                    continue
            elif n.kind == "cond" and lab in ("T", "F") and n.label in self.cfg.stable:
                if f"cond:{n.label}=T" in rel and lab == "F":
                    continue
                if f"cond:{n.label}=F" in rel and lab == "T":
                    continue
                res.append(((tgt, out_rel | {f"cond:{n.label}={lab}"}), lab))
                continue
            res.append(((tgt, out_rel), lab))
        return res

    def _explore(self) -> None:
        stack = [self.start]
        self.succ[self.start] = []
        seen = {self.start}
        while stack:
            st = stack.pop()
            nxt = self._step(st)
            self.succ[st] = nxt
            for t, lab in nxt:
                self.pred.setdefault(t, []).append(st)
                if t not in seen:
                    seen.add(t)
                    stack.append(t)
        if len(seen) > 400000:
            raise AnalysisError("model-mismatch", "CFG product too large")

    def states_of(self, pred: Callable[[N], bool]) -> List[State]:
        return [st for st in self.succ if pred(self.cfg.nodes[st[0]])]

    def nodes_of(self, pred: Callable[[N], bool]) -> List[int]:
        return sorted({st[0] for st in self.succ if pred(self.cfg.nodes[st[0]])})

    def reach(self, sources: Iterable[State], *, avoid: Callable[[N], bool] = lambda n: False,
              targets: Callable[[N], bool], labels_skip: Sequence[str] = (), after_source: bool = True,
              edge_skip: Optional[Callable[[N, str], bool]] = None,
              first_edge: Optional[Callable[[str], bool]] = None) -> Optional[List[State]]:
        """Is a target state reachable from any source without passing an avoided node?  Returns a witness path.

        after_source: start from the successors of the sources (the source node itself is not tested).
        """
        from collections import deque
        q = deque()
        parent: Dict[State, Optional[State]] = {}
        for s in sources:
            if after_source:
                for t, lab in self.succ.get(s, []):
                    if any(lab.startswith(x) for x in labels_skip):
                        continue
                    if first_edge is not None and not first_edge(lab):
                        continue
                    if t not in parent:
                        parent[t] = s
                        q.append(t)
                parent.setdefault(s, None)
            else:
                parent[s] = None
                q.append(s)
        while q:
            st = q.popleft()
            n = self.cfg.nodes[st[0]]
            if avoid(n):
                continue
            if targets(n):
                path = [st]
                while parent.get(path[-1]) is not None:
                    path.append(parent[path[-1]])
                    if len(path) > 10000:
                        break
                return list(reversed(path))
            for t, lab in self.succ.get(st, []):
                if any(lab.startswith(x) for x in labels_skip):
                    continue
                if edge_skip is not None and edge_skip(n, lab):
                    continue
                if t not in parent:
                    parent[t] = st
                    q.append(t)
        return None

    def path_text(self, path: List[State], limit: int = 14) -> str:
        items = []
        for st in path:
            n = self.cfg.nodes[st[0]]
            if n.kind in ("join",):
                continue
            items.append(f"L{n.line}:{n.kind}:{n.label[:50]}")
        if len(items) > limit:
            items = items[:limit // 2] + ["..."] + items[-limit // 2:]
        return " -> ".join(items)

    # -- canned queries --------------------------------------------------------------------
    def must_precede(self, a: Callable[[N], bool], b: Callable[[N], bool]) -> Optional[List[State]]:
        """Every path entry->b passes a.  Returns witness path violating it (or None)."""
        return self.reach([self.start], avoid=a, targets=b, after_source=False)

    def must_follow(self, a: Callable[[N], bool], b: Callable[[N], bool], *, exits: str = "normal",
                    first_edge: Optional[Callable[[str], bool]] = None) -> Optional[List[State]]:
        """Every path from a to an exit passes b. exits: 'normal' | 'all' | 'exc'."""
        cfg = self.cfg
        if exits == "normal":
            tgt = lambda n: n.id == cfg.exit
        elif exits == "exc":
            tgt = lambda n: n.id == cfg.exc_exit
        else:
            tgt = lambda n: n.id in (cfg.exit, cfg.exc_exit)
        srcs = self.states_of(a)
        skip = ("eh",) if exits == "normal" else ()
        return self.reach(srcs, avoid=b, targets=tgt, labels_skip=(), first_edge=first_edge)

    def count_on_paths(self, a: Callable[[N], bool]) -> int:
        return len(self.nodes_of(a))
