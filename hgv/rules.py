"""Rule helpers shared by the property modules (K1..K13 front doors)."""
from __future__ import annotations

import bisect
import re
from typing import Any, Callable, Dict, Iterable, List, Optional, Sequence, Tuple

from . import cparse as C
from .canon import Canon, callee_name
from .cfg import CFG, Flow, N
from .index import AnalysisError, FuncDef, Tree
from .k1 import Expect, Interp, Role, View, run_table
from .report import Run

_ast_cache: Dict[Tuple[int, str, int], C.FuncAST] = {}


def parse(run: Run, fd: FuncDef, strict: bool = True) -> C.FuncAST:
    fi = run.tree.file(fd.file)
    key = (id(fi), fd.qual, fd.body[0])
    fa = _ast_cache.get(key)
    if fa is None:
        fa = C.parse_function(fi, fd)
        _strip_inert(fa)
        _ast_cache[key] = fa
        if len(_ast_cache) > 4000:
            _ast_cache.clear()
    if strict and fa.opaque:
        o = fa.opaque[0]
        raise AnalysisError("unparsed-construct", f"{fa.loc(o)}: {o.text[:100]}")
    run.functions[f"{fd.file}::{fd.qual}"] = f"L{fd.line}-{fd.end_line}"
    return fa


def _inert_expr(e: Optional[C.Node]) -> bool:
    """An expression whose evaluation has no effect and cannot throw: a literal, a name, or a cast of one to void."""
    if e is None or isinstance(e, (C.Lit, C.Id)):
        return True
    if isinstance(e, C.Cast):
        return _inert_expr(e.e)
    if isinstance(e, C.Unary) and e.op in ("+", "-", "!", "~"):
        return _inert_expr(e.e)
    return False


def _strip_inert(fa: C.FuncAST) -> None:
    """Front-end normalisation (like the alpha-normalisation of locals): statements without any effect are dropped from every block
    before the rules look at the function, so that no rule can depend on their presence or position --
      * empty statements and expression statements that only evaluate a literal / a name (`(void)x;`, `static_cast<void>(0);`)
      * declarations of locals that are initialised from a literal (or not at all) and never mentioned again in the function.
    Both are semantics preserving; anything else is left alone."""
    mentioned: Dict[str, int] = {}
    for n in fa.body.walk():
        if isinstance(n, C.Id):
            mentioned[n.name] = mentioned.get(n.name, 0) + 1
        elif isinstance(n, C.Lambda):
            for nm in re.findall(r"[A-Za-z_]\w*", n.captures if isinstance(n.captures, str) else ""):
                mentioned[nm] = mentioned.get(nm, 0) + 1

    def inert(st: C.Node) -> bool:
        if isinstance(st, C.Empty):
            return True
        if isinstance(st, C.ExprStmt):
            return _inert_expr(st.e) and not isinstance(st.e, C.Id)
        if isinstance(st, C.Decl):
            if not st.decls:
                return False
            for d in st.decls:
                if d.bindings or not d.name or d.ref or mentioned.get(d.name, 0):
                    return False
                if not (d.init is None or isinstance(d.init, C.Lit)):
                    return False
                ty = st.type if isinstance(st.type, str) else getattr(st.type, "text", "")
                if not re.fullmatch(r"(const\s+|unsigned\s+|std::)*(int|bool|long|size_t|char|double|float|auto|std::size_t|uint\d+_t|int\d+_t)(\s+const)?", (ty or "").strip()):
                    return False
            return True
        return False

    for n in list(fa.body.walk()):
        if isinstance(n, C.Block) and any(inert(x) for x in n.stmts):
            n.stmts = [x for x in n.stmts if not inert(x)]


def fn(run: Run, rel: str, name: str, **kw) -> C.FuncAST:
    return parse(run, run.tree.func(rel, name, **kw))


# ---------------------------------------------------------------------------------------------
# K1
# ---------------------------------------------------------------------------------------------
def k1(run: Run, rule: str, fa: C.FuncAST, roles: Sequence[Role], spec: Callable[[View], Expect], *,
       unit: Optional[C.Node] = None, feasible=None, what: str = "", **interp_kw) -> None:
    ip = Interp(fa, roles, **interp_kw)
    prelude = prelude_of(fa, unit) if unit is not None else None
    res = run_table(ip, spec, unit=unit, prelude=prelude, feasible=feasible)
    run.count(res.evaluations, rule if len(res.rows) >= 2 else None)
    qual = fa.fd.qual if fa.fd else "?"
    run.sample({"rule": rule, "function": f"{fa.fi.path}::{qual}", "orderings": res.orderings,
                "cases": res.evaluations, "table_rows": res.sample_rows[:8]})
    if run._cur is not None:
        run._cur["sites"] = run._cur.get("sites", 0) + 1
        run._cur["cases"] = run._cur.get("cases", 0) + res.evaluations
        run._cur["distinct_rows"] = len(res.rows)
    seen = set()
    for m in res.mismatches:
        key = f"{qual}:{'|'.join(m['diff'])}"
        # one finding per distinct diff text (first witness ordering)
        dkey = "|".join(sorted(re.sub(r"rank\d+", "rank", d) for d in m["diff"]))
        if dkey in seen:
            continue
        seen.add(dkey)
        run.finding(rule, f"{qual}:{dkey}"[:200],
                    f"{what or rule}: decision table of {qual} differs from the specified table; witness: "
                    f"{m['valuation']}: {'; '.join(m['diff'])} (code outcome: {m['code']})",
                    loc=f"{fa.fi.path}:{fa.fd.line if fa.fd else 0}")
        if len(seen) >= 6:
            break


def prelude_of(fa: C.FuncAST, unit: C.Node) -> List[C.Node]:
    """Statements that textually precede `unit` on the path from the function body to it."""
    out: List[C.Node] = []

    def rec(n: C.Node) -> bool:
        if n is unit:
            return True
        if isinstance(n, C.Block):
            for i, s in enumerate(n.stmts):
                if _contains(s, unit):
                    out.extend(n.stmts[:i])
                    return rec(s)
            return False
        for ch in n.children():
            if _contains(ch, unit):
                if isinstance(n, C.For) and n.init is not None and ch is not n.init:
                    out.append(n.init)
                if isinstance(n, C.If) and n.init is not None and ch is not n.init:
                    out.append(n.init)
                return rec(ch)
        return False

    rec(fa.body)
    return out


def _contains(root: C.Node, target: C.Node) -> bool:
    for n in root.walk():
        if n is target:
            return True
    return False


# ---------------------------------------------------------------------------------------------
# AST queries
# ---------------------------------------------------------------------------------------------
def find(fa_or_node, pred: Callable[[C.Node], bool], into_lambdas: bool = True) -> List[C.Node]:
    root = fa_or_node.body if isinstance(fa_or_node, C.FuncAST) else fa_or_node
    return [n for n in root.walk(into_lambdas=into_lambdas) if pred(n)]


def calls(fa_or_node, name: Optional[str] = None, canon: Optional[Canon] = None, callee_re: Optional[str] = None,
          into_lambdas: bool = True) -> List[C.Call]:
    cn = canon or Canon()
    rx = re.compile(callee_re) if callee_re else None
    out = []
    for n in find(fa_or_node, lambda x: isinstance(x, C.Call), into_lambdas):
        if name is not None and callee_name(n) != name:
            continue
        if rx is not None and not rx.fullmatch(cn(n.fn)):
            continue
        out.append(n)
    return out


def acting_calls(fa_or_node, into_lambdas: bool = True) -> List[C.Call]:
    """The calls that can act on the program's state as this function sees it: a member call, or a call with at least one argument that is not a literal.
    A free-function call whose arguments are all literals (a trace / log line) cannot touch the objects the function was handed; rules that demand
    "exactly these calls" compare this list, so that adding a trace line is not a finding."""
    out = []
    for c in calls(fa_or_node, into_lambdas=into_lambdas):
        if isinstance(c.fn, C.Member) or not isinstance(c.fn, C.Id):
            out.append(c)
            continue
        if any(not isinstance(a, C.Lit) for a in c.args):
            out.append(c)
    return out


def loops(fa_or_node, into_lambdas: bool = True) -> List[C.Node]:
    return find(fa_or_node, lambda x: isinstance(x, (C.For, C.RangeFor, C.While, C.DoWhile)), into_lambdas)


def aliases_of(fa: C.FuncAST) -> Canon:
    """Canon with the reference / pointer aliases of the whole function (flow-insensitive)."""
    cn = Canon()
    seen = set()
    declared: Dict[str, int] = {}
    for _, nm in fa.params:
        if nm:
            declared[nm] = declared.get(nm, 0) + 1
    for n in fa.body.walk():
        if isinstance(n, C.Declarator) and n.bindings is None:
            declared[n.name] = declared.get(n.name, 0) + 1
        elif isinstance(n, C.Declarator):
            for b in n.bindings:
                declared[b] = declared.get(b, 0) + 1
        elif isinstance(n, C.RangeFor):
            for b in n.names:
                declared[b] = declared.get(b, 0) + 1
        elif isinstance(n, C.Lambda):
            for _, nm in n.params:
                if nm:
                    declared[nm] = declared.get(nm, 0) + 1
    ambiguous = {k for k, v in declared.items() if v > 1}
    for n in fa.body.walk():
        if isinstance(n, C.Decl):
            for d in n.decls:
                if d.bindings is None and d.init is not None and (d.ref or d.ptr) and not isinstance(d.init, (C.Lambda, C.Ternary)):
                    init = d.init
                    if isinstance(init, C.Init) and init.type is None and len(init.elems) == 1:
                        init = init.elems[0]
                    if d.name in ambiguous:
                        # same name declared more than once in the function (shadowing / sibling scopes): keep the alias only
                        # when every declaration binds the same target
                        others = [x for x in fa.body.walk() if isinstance(x, C.Declarator) and x.name == d.name and x is not d]
                        same = all((x.ref or x.ptr) and x.init is not None and cn(x.init) == cn(init) for x in others) and \
                            declared[d.name] == len(others) + 1
                        if not same:
                            continue
                    if d.name in seen:
                        continue
                    seen.add(d.name)
                    cn.aliases[d.name] = cn(init)
    return cn


def const_locals(fa: C.FuncAST, cn: Optional[Canon] = None) -> Callable[[str], str]:
    """Substitution of the function's write-once value locals (`const auto x = <expr>;`, declared once, never assigned) by their
    initialisers in a canonical text: naming an accessor call with a local changes no behaviour, so an argument comparison must not see it.
    Only for expressions whose meaning does not depend on WHEN they are evaluated inside the function (accessors)."""
    cn = cn or aliases_of(fa)
    decls: Dict[str, List[C.Node]] = {}
    for n in fa.body.walk():
        if isinstance(n, C.Decl):
            for d in n.decls:
                if d.bindings is None and d.name:
                    decls.setdefault(d.name, []).append((n, d))
    assigned = {cn(x.l) for x in fa.body.walk() if isinstance(x, C.Binary) and x.op in C._ASSIGN}
    assigned |= {cn(x.e) for x in fa.body.walk() if isinstance(x, (C.Unary, C.Postfix)) and x.op in ("++", "--")}
    table: Dict[str, str] = {}
    for nm, ds in decls.items():
        if len(ds) != 1 or nm in assigned or nm in {p for _, p in fa.params}:
            continue
        st, d = ds[0]
        specs = " ".join(st.specs) if isinstance(st.specs, (list, tuple)) else str(st.specs or "")
        ty = st.type if isinstance(st.type, str) else ""
        if "const" not in specs + " " + ty or d.ref or d.ptr or d.init is None or isinstance(d.init, (C.Lambda, C.Init)):
            continue
        table[nm] = cn(d.init)

    def subst(text: str) -> str:
        for _ in range(3):
            new = text
            for nm, init in table.items():
                new = re.sub(rf"(?<![\w.>:]){re.escape(nm)}(?!\w)", f"({init})" if re.search(r"[ &|?<>=+\-*/]", init) else init, new)
            if new == text:
                break
            text = new
        return text
    return subst


def loop_shape(loop: C.Node, cn: Canon) -> Dict[str, Any]:
    """Induction-variable shape of a `for` loop (K3)."""
    shape: Dict[str, Any] = {"kind": type(loop).__name__}
    body = loop.body
    shape["breaks"] = len([n for n in _own_jumps(body) if isinstance(n, C.Break)])
    shape["continues"] = len([n for n in _own_jumps(body) if isinstance(n, C.Continue)])
    shape["returns"] = len(find(body, lambda x: isinstance(x, C.Return), into_lambdas=False))
    if isinstance(loop, C.For):
        if isinstance(loop.init, C.Decl) and len(loop.init.decls) == 1:
            d = loop.init.decls[0]
            shape["var"] = d.name
            init = d.init
            if isinstance(init, C.Init) and init.type is None and len(init.elems) == 1:
                init = init.elems[0]
            shape["init"] = cn(init) if init is not None else None
        elif isinstance(loop.init, C.ExprStmt) and isinstance(loop.init.e, C.Binary) and loop.init.e.op == "=":
            shape["var"] = cn(loop.init.e.l)
            shape["init"] = cn(loop.init.e.r)
        else:
            shape["var"] = None
            shape["init"] = None
        if isinstance(loop.cond, C.Binary):
            shape["cond_op"] = loop.cond.op
            shape["cond_l"] = cn(loop.cond.l)
            shape["cond_r"] = cn(loop.cond.r)
        else:
            shape["cond_op"] = None
            shape["cond"] = cn(loop.cond) if loop.cond is not None else None
        st = loop.step
        if isinstance(st, (C.Unary, C.Postfix)) and st.op in ("++", "--"):
            shape["step"] = st.op
            shape["step_var"] = cn(st.e)
        elif isinstance(st, C.Binary) and st.op in ("+=", "-="):
            shape["step"] = st.op + cn(st.r)
            shape["step_var"] = cn(st.l)
        else:
            shape["step"] = cn(st) if st is not None else None
            shape["step_var"] = None
        # writes to the induction variable inside the body
        var = shape.get("step_var") or shape.get("var")
        w = 0
        if var:
            for n in body.walk(into_lambdas=True):
                if isinstance(n, C.Binary) and n.op in C._ASSIGN and cn(n.l) == var:
                    w += 1
                elif isinstance(n, (C.Unary, C.Postfix)) and n.op in ("++", "--") and cn(n.e) == var:
                    w += 1
        shape["body_writes_var"] = w
    elif isinstance(loop, C.RangeFor):
        shape["range"] = cn(loop.range)
        shape["names"] = loop.names
    elif isinstance(loop, (C.While, C.DoWhile)):
        shape["cond"] = cn(loop.cond)
    return shape


def _own_jumps(body: C.Node) -> Iterable[C.Node]:
    """break/continue statements that belong to this loop (not to nested loops / switches / lambdas)."""
    stack = [body]
    while stack:
        n = stack.pop()
        if isinstance(n, (C.Break, C.Continue)):
            yield n
            continue
        if isinstance(n, (C.For, C.RangeFor, C.While, C.DoWhile, C.Lambda)):
            continue
        if isinstance(n, C.Switch):
            # continue inside a switch still belongs to the loop; break does not
            for x in n.body.walk(into_lambdas=False):
                if isinstance(x, C.Continue):
                    yield x
            continue
        stack.extend(n.children())


# ---------------------------------------------------------------------------------------------
# K2
# ---------------------------------------------------------------------------------------------
_flow_cache: Dict[int, Flow] = {}


def flow(run: Run, fa: C.FuncAST, **kw) -> Flow:
    f = _flow_cache.get(id(fa))
    if f is None:
        f = Flow(CFG(fa, **kw))
        _flow_cache[id(fa)] = f
        if len(_flow_cache) > 500:
            _flow_cache.clear()
    return f


def call_is(name: Optional[str] = None, recv: Optional[str] = None, callee: Optional[str] = None,
            region: Optional[str] = None, arg: Optional[Tuple[int, str]] = None) -> Callable[[N], bool]:
    rrx = re.compile(recv) if recv else None
    crx = re.compile(callee) if callee else None
    grx = re.compile(region) if region is not None else None
    arx = re.compile(arg[1]) if arg else None

    def pred(n: N) -> bool:
        if n.kind not in ("call", "guard-complete") and not (n.kind == "stmt" and n.name):
            return False
        if name is not None and n.name != name:
            return False
        if rrx is not None and not rrx.fullmatch(n.recv):
            return False
        if crx is not None and not crx.fullmatch(n.callee):
            return False
        if grx is not None and not grx.fullmatch(n.ctx):
            return False
        if arx is not None:
            if len(n.args) <= arg[0] or not arx.fullmatch(n.args[arg[0]]):
                return False
        return True
    return pred


def store_is(lhs: str, rhs: Optional[str] = None, region: Optional[str] = None) -> Callable[[N], bool]:
    lrx = re.compile(lhs)
    rrx = re.compile(rhs) if rhs is not None else None
    grx = re.compile(region) if region is not None else None

    def pred(n: N) -> bool:
        if n.kind not in ("stmt", "decl"):
            return False
        if grx is not None and not grx.fullmatch(n.ctx):
            return False
        for l, r in n.stores:
            if lrx.fullmatch(l) and (rrx is None or rrx.fullmatch(r)):
                return True
        return False
    return pred


def either(*preds):
    return lambda n: any(p(n) for p in preds)


def require_nodes(run: Run, fl: Flow, pred, what: str, floor: int = 1) -> List[int]:
    ns = fl.nodes_of(pred)
    if len(ns) < floor:
        raise AnalysisError("anchor-vanished", f"{what}: matched {len(ns)} CFG nodes in "
                            f"{fl.cfg.fa.fd.qual if fl.cfg.fa.fd else '?'}, floor {floor}")
    return ns


def k2_precede(run: Run, rule: str, fl: Flow, a, b, desc: str, a_floor: int = 1, b_floor: int = 1) -> None:
    """Every path from entry to a `b` node passes an `a` node."""
    require_nodes(run, fl, b, f"{rule} (B: {desc})", b_floor)
    if not fl.nodes_of(a):
        # the guarded event exists but the required earlier event does not occur at all in this function
        qual = fl.cfg.fa.fd.qual if fl.cfg.fa.fd else "?"
        run.count(1, rule)
        run.finding(rule, f"{qual}:precede:{desc}"[:200], f"{desc}: the required earlier event does not occur in {qual}",
                    loc=fl.cfg.describe(fl.nodes_of(b)[0]))
        return
    w = fl.must_precede(a, b)
    run.count(1, rule)
    qual = fl.cfg.fa.fd.qual if fl.cfg.fa.fd else "?"
    if run._cur is not None:
        run._cur["sites"] = run._cur.get("sites", 0) + 1
    if w is not None:
        run.finding(rule, f"{qual}:precede:{desc}"[:200],
                    f"{desc}: a path reaches the second event without the first: {fl.path_text(w)}",
                    loc=fl.cfg.describe(w[-1][0]))
    else:
        run.sample({"rule": rule, "function": qual, "holds": f"must-precede: {desc}"})


def k2_follow(run: Run, rule: str, fl: Flow, a, b, desc: str, exits: str = "normal", a_floor: int = 1,
              b_floor: int = 1, after: str = "any") -> None:
    """Every path from an `a` node to an exit passes a `b` node.

    after: 'any' (all successors of a), 'completed' (a returned normally), 'thrown' (a threw)."""
    require_nodes(run, fl, a, f"{rule} (A: {desc})", a_floor)
    if not fl.nodes_of(b):
        qual = fl.cfg.fa.fd.qual if fl.cfg.fa.fd else "?"
        run.count(1, rule)
        run.finding(rule, f"{qual}:follow[{exits}]:{desc}"[:200], f"{desc}: the required later event does not occur in {qual}",
                    loc=fl.cfg.describe(fl.nodes_of(a)[0]))
        return
    fe = None
    if after == "completed":
        fe = lambda lab: lab != "eh"
    elif after == "thrown":
        fe = lambda lab: lab == "eh"
    w = fl.must_follow(a, b, exits=exits, first_edge=fe)
    run.count(1, rule)
    qual = fl.cfg.fa.fd.qual if fl.cfg.fa.fd else "?"
    if run._cur is not None:
        run._cur["sites"] = run._cur.get("sites", 0) + 1
    if w is not None:
        run.finding(rule, f"{qual}:follow[{exits}]:{desc}"[:200],
                    f"{desc}: a path leaves ({exits} exit) after the first event without the second: {fl.path_text(w)}",
                    loc=fl.cfg.describe(w[0][0]))
    else:
        run.sample({"rule": rule, "function": qual, "holds": f"must-follow[{exits}]: {desc}"})


def k2_never_after(run: Run, rule: str, fl: Flow, a, b, desc: str) -> None:
    """No path from an `a` node reaches a `b` node."""
    require_nodes(run, fl, a, f"{rule} (A: {desc})")
    srcs = fl.states_of(a)
    w = fl.reach(srcs, targets=b)
    run.count(1, rule)
    qual = fl.cfg.fa.fd.qual if fl.cfg.fa.fd else "?"
    if w is not None:
        run.finding(rule, f"{qual}:never-after:{desc}"[:200],
                    f"{desc}: forbidden event reachable: {fl.path_text(w)}", loc=fl.cfg.describe(w[-1][0]))
    else:
        run.sample({"rule": rule, "function": qual, "holds": f"never-after: {desc}"})


# ---------------------------------------------------------------------------------------------
# K5 ops tables
# ---------------------------------------------------------------------------------------------
def designated_slots(node: C.Node, cn: Optional[Canon] = None) -> Dict[str, str]:
    """Slots of the first designated initialiser found under node: slot -> canonical value."""
    cn = cn or Canon(keep_targs=True)
    best: Dict[str, str] = {}
    for n in node.walk():
        if isinstance(n, C.Init):
            d = {e.name: cn(e.value) for e in n.elems if isinstance(e, C.Desig)}
            if len(d) > len(best):
                best = d
    return best


def slot_assignments(fa: C.FuncAST, obj_re: str = r".*") -> Dict[str, str]:
    """`obj.slot = value;` assignments in a function: 'obj.slot' -> canonical value."""
    cn = Canon(keep_targs=True)
    rx = re.compile(obj_re)
    out: Dict[str, str] = {}
    for n in fa.body.walk():
        if isinstance(n, C.Binary) and n.op == "=" and isinstance(n.l, C.Member):
            o = cn(n.l.obj)
            if rx.fullmatch(o):
                out[f"{o}.{n.l.name}"] = cn(n.r)
    return out


# ---------------------------------------------------------------------------------------------
# K4 tree-wide token scans
# ---------------------------------------------------------------------------------------------
def enclosing_function(tree: Tree, rel: str, tok_index: int) -> Optional[FuncDef]:
    fi = tree.file(rel)
    best = None
    for f in fi.funcs:
        if f.body[0] <= tok_index <= f.body[1]:
            if best is None or f.body[0] >= best.body[0]:
                best = f
        elif f.init_list is not None and f.init_list[0] <= tok_index <= f.init_list[1]:
            best = f
    return best


_ASSIGN_OPS = {"=", "+=", "-=", "*=", "/=", "|=", "&=", "^=", "<<=", ">>=", "%="}


def field_writers(tree: Tree, field: str, files: Optional[Sequence[str]] = None) -> List[Tuple[str, str, int, str]]:
    """All stores `<x>.field = ...` / `<x>->field = ...` / `++x.field` in the tree.

    Returns (file, enclosing function qual or '<namespace scope>', line, kind)."""
    out = []
    for rel in (files or tree.all_files()):
        txt = tree.read(rel)
        if field not in txt:
            continue
        fi = tree.file(rel)
        toks = fi.toks
        for i, t in enumerate(toks):
            if t.kind != "id" or t.text != field:
                continue
            nxt = toks[i + 1] if i + 1 < len(toks) else None
            prv = toks[i - 1] if i > 0 else None
            if nxt is None:
                continue
            kind = None
            if nxt.kind == "op" and nxt.text in _ASSIGN_OPS:
                kind = "store"
            elif nxt.kind == "op" and nxt.text in ("++", "--"):
                kind = "incdec"
            else:
                # prefix ++x.field : walk back over the access path
                j = i - 1
                while j > 0 and (toks[j].text in (".", "->", "::") or toks[j].kind == "id" or toks[j].text in (")", "]")):
                    if toks[j].text in (")", "]"):
                        j = fi.match[j]
                    j -= 1
                if j >= 0 and toks[j].kind == "op" and toks[j].text in ("++", "--") and (nxt.text in (";", ")", ",")):
                    kind = "incdec"
            if kind is None:
                continue
            # designated initialisers '.field = v' inside braces are construction, not stores
            if prv is not None and prv.text == "." and i >= 2 and toks[i - 2].kind == "op" and toks[i - 2].text in ("{", ","):
                kind = "designated-init"
            # declarations 'Type field = ...' (member default / local var of same name)
            if prv is not None and prv.kind == "id" and prv.text not in ("return", "else"):
                kind = "declaration"
            if prv is not None and prv.kind == "op" and prv.text in ("&", "*", ">") and kind == "store" and \
                    i >= 2 and toks[i - 2].kind == "id":
                # 'T &field = ' / 'T *field =' / 'vector<T> field =' declarations
                fd0 = enclosing_function(tree, rel, i)
                if fd0 is None:
                    kind = "declaration"
            fd = enclosing_function(tree, rel, i)
            out.append((rel, fd.qual if fd else "<scope>", t.line, kind))
    return out


def callers_of(tree: Tree, name: str, files: Optional[Sequence[str]] = None, member_only: bool = False
               ) -> List[Tuple[str, str, int]]:
    """Call sites `name(` in the tree: (file, enclosing function, line)."""
    out = []
    for rel in (files or tree.all_files()):
        txt = tree.read(rel)
        if name not in txt:
            continue
        fi = tree.file(rel)
        toks = fi.toks
        for i, t in enumerate(toks):
            if t.kind == "id" and t.text == name and i + 1 < len(toks) and toks[i + 1].text == "(":
                prv = toks[i - 1] if i > 0 else None
                if member_only and not (prv is not None and prv.text in (".", "->")):
                    continue
                fd = enclosing_function(tree, rel, i)
                if fd is not None and fd.params[0] == i + 1:
                    continue  # the definition itself
                if fd is None:
                    # declaration at class/namespace scope
                    continue
                out.append((rel, fd.qual, t.line))
    return out


# ---------------------------------------------------------------------------------------------
# call closure (K7 owner sweeps)
# ---------------------------------------------------------------------------------------------
def call_closure(run: Run, fa: C.FuncAST, files: Sequence[str], depth: int = 3,
                 dispatch: Optional[Dict[str, str]] = None) -> List[Tuple[C.FuncAST, C.Call]]:
    """All call expressions reachable from fa through functions defined in `files` (by unqualified name)."""
    out: List[Tuple[C.FuncAST, C.Call]] = []
    seen = set()
    work = [(fa, 0)]
    while work:
        cur, d = work.pop()
        key = (cur.fi.path, cur.fd.qual if cur.fd else id(cur), cur.fd.body[0] if cur.fd else 0)
        if key in seen:
            continue
        seen.add(key)
        for c in calls(cur):
            out.append((cur, c))
            if d >= depth:
                continue
            nm = callee_name(c)
            if not nm or nm in ("stop", "start", "evaluate"):
                continue
            if dispatch and nm in dispatch:
                nm = dispatch[nm]
            for rel in files:
                if nm not in run.tree.read(rel):
                    continue
                for fd in run.tree.funcs(rel, nm):
                    try:
                        work.append((parse(run, fd, strict=False), d + 1))
                    except AnalysisError:
                        pass
    return out


# ---------------------------------------------------------------------------------------------
# K8 lockset
# ---------------------------------------------------------------------------------------------
_LOCK_TYPES = ("lock_guard", "unique_lock", "scoped_lock")


def lock_accesses(fa: C.FuncAST, mutex_re: str, fields: Sequence[str], via: Optional[str] = None,
                  entry_held: bool = False) -> List[Tuple[C.Node, str, bool]]:
    """Every access to one of `fields` in fa with the lock state at that point: (node, field, held).

    A lock is held from the declaration of a lock_guard/unique_lock/scoped_lock over a mutex matching
    mutex_re to the end of its block, minus `lockvar.unlock()` .. `lockvar.lock()` spans.  Lambda bodies
    inherit the state at their definition point (wait predicates, local helpers used in the same region).
    """
    cn = aliases_of(fa)
    mrx = re.compile(mutex_re)
    vrx = re.compile(via) if via else None
    fset = set(fields)
    shadow = {nm for _, nm in fa.params if nm}
    for n in fa.body.walk():
        if isinstance(n, C.Declarator) and n.bindings is None:
            shadow.add(n.name)
        elif isinstance(n, C.Lambda):
            for _, nm in n.params:
                if nm:
                    shadow.add(nm)
    out: List[Tuple[C.Node, str, bool]] = []

    def scan_expr(e: Optional[C.Node], held: bool) -> None:
        if e is None:
            return
        stack = [e]
        while stack:
            x = stack.pop()
            if isinstance(x, C.Lambda):
                walk_block(x.body, held)
                continue
            if vrx is None:
                if isinstance(x, C.Id) and x.name in fset and x.name not in shadow:
                    out.append((x, x.name, held))
                elif isinstance(x, C.Member) and isinstance(x.obj, C.Lit) and x.obj.text == "this" and x.name in fset:
                    out.append((x, x.name, held))
            else:
                if isinstance(x, C.Member) and x.name in fset and vrx.fullmatch(cn(x.obj)):
                    out.append((x, x.name, held))
            if isinstance(x, C.Member) and not (vrx is not None):
                # a.b where b is a field name of *another* object is not ours; still descend into the object
                stack.append(x.obj)
                continue
            stack.extend(x.children())

    def walk_block(b: C.Node, held: bool) -> bool:
        stmts = b.stmts if isinstance(b, C.Block) else [b]
        lock_vars: Dict[str, bool] = {}
        cur = held
        for s in stmts:
            cur = walk_stmt(s, cur, lock_vars)
        return held if isinstance(b, C.Block) else cur

    def walk_stmt(s: C.Node, held: bool, lock_vars: Dict[str, bool]) -> bool:
        if isinstance(s, C.Decl):
            is_lock = any(k in s.type for k in _LOCK_TYPES)
            for d in s.decls:
                if is_lock and d.init is not None:
                    args = d.init.elems if isinstance(d.init, C.Init) else [d.init]
                    if any(mrx.fullmatch(cn(a)) for a in args):
                        lock_vars[d.name] = True
                        held = True
                        continue
                scan_expr(d.init, held)
            return held
        if isinstance(s, C.ExprStmt):
            e = s.e
            if isinstance(e, C.Call) and isinstance(e.fn, C.Member) and isinstance(e.fn.obj, C.Id) \
                    and e.fn.obj.name in lock_vars and e.fn.name in ("unlock", "lock"):
                return e.fn.name == "lock"
            scan_expr(e, held)
            return held
        if isinstance(s, C.Block):
            walk_block(s, held)
            return held
        if isinstance(s, C.If):
            if s.init is not None:
                held = walk_stmt(s.init, held, lock_vars)
            if isinstance(s.cond, C.Decl):
                held = walk_stmt(s.cond, held, lock_vars)
            else:
                scan_expr(s.cond, held)
            a = walk_stmt(s.then, held, dict(lock_vars)) if not isinstance(s.then, C.Block) else (walk_block_lv(s.then, held, lock_vars))
            b = held
            if s.els is not None:
                b = walk_stmt(s.els, held, dict(lock_vars)) if not isinstance(s.els, C.Block) else (walk_block_lv(s.els, held, lock_vars))
            return a and b
        if isinstance(s, (C.For,)):
            if s.init is not None:
                held = walk_stmt(s.init, held, lock_vars)
            scan_expr(s.cond, held)
            scan_expr(s.step, held)
            walk_any(s.body, held, lock_vars)
            return held
        if isinstance(s, C.RangeFor):
            scan_expr(s.range, held)
            walk_any(s.body, held, lock_vars)
            return held
        if isinstance(s, (C.While, C.DoWhile)):
            scan_expr(s.cond if not isinstance(s.cond, C.Decl) else None, held)
            walk_any(s.body, held, lock_vars)
            return held
        if isinstance(s, C.Switch):
            scan_expr(s.cond, held)
            walk_any(s.body, held, lock_vars)
            return held
        if isinstance(s, C.Return):
            scan_expr(s.e, held)
            return held
        if isinstance(s, C.Try):
            walk_any(s.body, held, lock_vars)
            for h in s.handlers:
                walk_any(h.body, held, lock_vars)
            return held
        if isinstance(s, C.Case):
            scan_expr(s.value, held)
            return held
        return held

    def walk_block_lv(b: C.Block, held: bool, lock_vars: Dict[str, bool]) -> bool:
        """Block nested in a statement: unlock()/lock() on an outer lock variable inside it affects the outer state."""
        cur = held
        inner = dict(lock_vars)
        outer_names = set(lock_vars)
        for s in b.stmts:
            cur = walk_stmt(s, cur, inner)
        # locks declared inside die with the block; state of outer locks persists
        declared_inside = set(inner) - outer_names
        if declared_inside and not any(lock_vars.values()):
            return held
        return cur if not declared_inside else held

    def walk_any(s: C.Node, held: bool, lock_vars: Dict[str, bool]) -> bool:
        if isinstance(s, C.Block):
            return walk_block_lv(s, held, lock_vars)
        return walk_stmt(s, held, dict(lock_vars))

    walk_block_lv(fa.body, entry_held, {})
    return out


# ---------------------------------------------------------------------------------------------
# K5 polarity agreement of ops-table wiring
# ---------------------------------------------------------------------------------------------
POLARITY_PAIRS = [("added", "removed"), ("insert", "remove"), ("subscribe", "unsubscribe"), ("start", "stop"),
                  ("simulation", "realtime"), ("capture", "apply"), ("peered", "non_peered"), ("root", "nested"),
                  ("begin", "end"), ("push", "pop"), ("first", "last"), ("active", "passive"), ("input", "output")]


def _words(name: str) -> List[str]:
    return [w for w in re.split(r"[_:<>&\s]+", name.lower()) if w]


def slot_wirings(tree: Tree, rel: str) -> List[Tuple[str, str, int, str]]:
    """`x.slot = &fn;` and `.slot = &fn,` wirings in a file: (slot, fn, line, enclosing function)."""
    fi = tree.file(rel)
    toks = fi.toks
    out = []
    for i, t in enumerate(toks):
        if t.kind == "id" and i + 3 < len(toks) and toks[i + 1].text == "=" and toks[i + 2].text == "&" and toks[i + 3].kind == "id" \
                and i > 0 and toks[i - 1].text in (".", "->"):
            # collect the (possibly qualified / templated) function name
            j = i + 3
            name = toks[j].text
            while j + 2 < len(toks) and toks[j + 1].text == "::" and toks[j + 2].kind == "id":
                name += "::" + toks[j + 2].text
                j += 2
            fd = enclosing_function(tree, rel, i)
            out.append((t.text, name, t.line, fd.qual if fd else "<scope>"))
    return out


def polarity_findings(tree: Tree, rel: str) -> Tuple[int, List[Tuple[str, str, int, str, str]]]:
    """Slots wired to a function of the opposite polarity.  Returns (#wirings inspected, findings)."""
    ws = slot_wirings(tree, rel)
    bad = []
    for slot, fn_, line, encl in ws:
        sw, fw = _words(slot), _words(fn_.split("::")[-1])
        for a, b in POLARITY_PAIRS:
            for x, y in ((a, b), (b, a)):
                if x in sw and y not in sw and y in fw and x not in fw:
                    bad.append((slot, fn_, line, encl, f"{x}/{y}"))
    return len(ws), bad


# ---------------------------------------------------------------------------------------------
# K12 mutable statics census
# ---------------------------------------------------------------------------------------------
def mutable_statics(tree: Tree, prefixes: Sequence[str]) -> List[Tuple[str, int, str, str, str]]:
    """Mutable `static` / `thread_local` variables (namespace, class or function scope) in files under the given
    path prefixes: (file, line, enclosing function or '<scope>', variable name, declaration text)."""
    out = []
    for rel in tree.all_files():
        if not any(rel.startswith(p) for p in prefixes):
            continue
        txt = tree.read(rel)
        if "static" not in txt and "thread_local" not in txt:
            continue
        fi = tree.file(rel)
        toks = fi.toks
        for i, tk in enumerate(toks):
            if not (tk.kind == "id" and tk.text in ("static", "thread_local")):
                continue
            if i > 0 and not (toks[i - 1].text in (";", "{", "}", ":", "inline") or toks[i - 1].kind == "pp"):
                continue
            if i > 0 and toks[i - 1].text == "inline" and not (i > 1 and (toks[i - 2].text in (";", "{", "}") or toks[i - 2].kind == "pp")):
                continue
            j = i
            parts: List[str] = []
            has_paren = False
            while j < len(toks):
                x = toks[j]
                if x.kind == "op" and x.text in "([":
                    if x.text == "(":
                        has_paren = True
                    parts.append("(..)" if x.text == "(" else "[..]")
                    j = fi.match[j] + 1
                    continue
                if x.kind == "op" and x.text in (";", "{", "="):
                    break
                parts.append(x.text)
                j += 1
            if j >= len(toks):
                continue
            if has_paren:
                continue  # function declaration / definition (or ctor-call initialised object, not used in this tree)
            words = set(parts)
            if "constexpr" in words or "consteval" in words or "assert" in " ".join(parts):
                continue
            if "const" in words and "mutable" not in words and "*" not in words:
                continue
            ids = [p for p in parts if re.fullmatch(r"[A-Za-z_]\w*", p)]
            name = ids[-1] if ids else "?"
            fd = enclosing_function(tree, rel, i)
            out.append((rel, tk.line, fd.qual if fd else "<scope>", name, " ".join(parts)[:140]))
    return out


def namespace_globals(tree: Tree, prefixes: Sequence[str]) -> List[Tuple[str, int, str, str]]:
    """Mutable variables declared at NAMESPACE scope without `static` / `thread_local` / `const` / `constexpr`
    (one per process, shared by every thread): (file, line, name, declaration text)."""
    out = []
    SKIP_FIRST = {"using", "typedef", "template", "struct", "class", "enum", "union", "namespace", "extern", "friend", "static_assert",
                  "concept", "static", "thread_local", "public", "private", "protected", "return", "if", "for", "while", "switch", "case",
                  "default", "do", "else", "try", "catch", "throw", "goto", "break", "continue", "requires", "explicit", "virtual", "operator"}
    for rel in tree.all_files():
        if not any(rel.startswith(p) for p in prefixes):
            continue
        fi = tree.file(rel)
        toks = fi.toks
        stack: List[str] = []  # kinds of the open braces
        i = 0
        n = len(toks)
        stmt_start = True
        while i < n:
            tk = toks[i]
            if tk.kind == "pp":
                i += 1
                stmt_start = True
                continue
            if tk.kind == "op" and tk.text == "{":
                # namespace brace?
                k = i - 1
                while k >= 0 and (toks[k].kind == "id" or toks[k].text == "::") and toks[k].text != "namespace":
                    k -= 1
                kind = "ns" if k >= 0 and toks[k].text == "namespace" else "other"
                if kind == "other" and i >= 2 and toks[i - 1].kind == "str" and toks[i - 2].text == "extern":
                    kind = "ns"
                if kind == "other":
                    i = fi.match[i] + 1
                    stmt_start = False
                    # a '}' of a function/class body followed by ';' or not: next token starts a statement either way
                    if i < n and toks[i].text == ";":
                        i += 1
                    stmt_start = True
                    continue
                stack.append(kind)
                i += 1
                stmt_start = True
                continue
            if tk.kind == "op" and tk.text == "}":
                if stack:
                    stack.pop()
                i += 1
                stmt_start = True
                continue
            if tk.kind == "op" and tk.text == ";":
                i += 1
                stmt_start = True
                continue
            if not stmt_start:
                i += 1
                continue
            # a statement at namespace scope starts here: collect it up to ';' or a body
            j = i
            parts: List[str] = []
            pre_paren = False
            seen_eq = False
            is_decl = tk.kind == "id" or tk.text in ("::", "[")
            ended = None
            while j < n:
                x = toks[j]
                if x.kind == "op" and x.text in "([":
                    if x.text == "(" and not seen_eq:
                        pre_paren = True
                    parts.append("(..)" if x.text == "(" else "[..]")
                    j = fi.match[j] + 1
                    continue
                if x.kind == "op" and x.text == "{":
                    nxt = fi.match[j] + 1
                    if nxt < n and toks[nxt].text == ";" and not pre_paren:
                        parts.append("{..}")
                        j = nxt
                        continue
                    ended = "body"
                    break
                if x.kind == "op" and x.text == "=" and not seen_eq:
                    seen_eq = True
                if x.kind == "op" and x.text == ";":
                    ended = ";"
                    break
                parts.append(x.text)
                j += 1
            if ended == "body" or ended is None:
                stmt_start = False
                i = j  # the '{' handler above skips the body
                continue
            i = j + 1
            stmt_start = True
            if not is_decl or not parts or parts[0] in SKIP_FIRST or pre_paren:
                continue
            words = set(parts)
            if words & {"constexpr", "consteval", "constinit", "typedef", "using", "static", "thread_local", "extern", "operator", "friend", "template"}:
                continue
            head = parts[:parts.index("=")] if "=" in parts else [p for p in parts if p != "{..}"]
            if "const" in head and "*" not in head:
                continue
            ids = [p for p in head if re.fullmatch(r"[A-Za-z_]\w*", p)]
            if len(ids) < 2:
                continue  # `name;` alone is an expression/macro, not a declaration
            out.append((rel, toks[i - 1].line if i - 1 < n else 0, ids[-1], " ".join(parts)[:140]))
    return out


SLOT_ACCESSOR = re.compile(r"slot_(live|occupied|added|removed|published|updated|constructed|modified)|key_at_slot|at_slot|value_at_slot|entry_at|has_slot|slot_key")
# per-slot side tables (vectors indexed by slot id and grown with the slot store): their size() IS a slot bound
SLOT_BOUND_EXCEPTIONS = {("proxy.cpp", "built_times_.size()"): "built_times_ is a per-slot vector grown in on_slot_inserted"}


def slot_bounds(run: Run, rule: str, prefixes: Sequence[str], floor: int = 1) -> None:
    """Slot ids are SPARSE: they index the slot store, not the live elements.  (A) every counted loop whose index is handed to a
    slot-indexed accessor is bounded by a slot capacity; (B) a slot id returned by find_slot is compared only with a slot capacity
    (or the no-slot sentinel).  A live count (size(), entry_count()) as the bound silently skips elements above a hole."""
    tree = run.tree
    loops_n = cmp_n = 0
    for rel in tree.all_files():
        if not any(rel.startswith(p) for p in prefixes):
            continue
        fi = tree.file(rel)
        for fd in fi.funcs:
            if fd.body is None:
                continue
            body = fi.text(fd.body[0], fd.body[1])
            if "slot" not in body:
                continue
            fa = parse(run, fd, strict=False)
            cn = aliases_of(fa)
            locals_ = {}
            for d in find(fa, lambda n: isinstance(n, C.Declarator) and n.init is not None and n.bindings is None):
                locals_[d.name] = None if d.name in locals_ else cn(d.init)

            def res(x: str) -> str:
                for _ in range(3):
                    if locals_.get(x):
                        x = locals_[x]
                return x
            for l in loops(fa):
                if not isinstance(l, C.For):
                    continue
                sh = loop_shape(l, cn)
                v = sh.get("var")
                if not v or sh.get("cond_op") != "<":
                    continue
                uses = [c for c in calls(l.body) if SLOT_ACCESSOR.fullmatch(callee_name(c).split("::")[-1] or "") and any(cn(a) == v for a in c.args)]
                if not uses:
                    continue
                loops_n += 1
                run.count(1, f"{rule}.loop")
                b = res(sh.get("cond_r", ""))
                if "slot_capacity(" in b or (rel.split("/")[-1], b) in SLOT_BOUND_EXCEPTIONS:
                    continue
                run.finding(rule, f"{fd.name}:slot-loop-bound:{b[:60]}", f"{fd.qual}: the loop over slot ids `{v}` (used by {callee_name(uses[0])}) is bounded by `{b}`, "
                            "which is not a slot capacity: slot ids are sparse, elements in slots above a hole are skipped", loc=fa.loc(l))
            for n in fa.body.walk():
                if not (isinstance(n, C.Binary) and n.op in ("<", ">=", ">", "<=")):
                    continue
                for a, b in ((n.l, n.r), (n.r, n.l)):
                    ta = res(cn(a))
                    if "find_slot(" not in ta:
                        continue
                    tb = res(cn(b))
                    cmp_n += 1
                    run.count(1, f"{rule}.cmp")
                    if "slot_capacity(" in tb or "NO_CHILD" in tb or "npos" in tb:
                        continue
                    run.finding(rule, f"{fd.name}:slot-id-compared-with:{tb[:60]}", f"{fd.qual}: a slot id from find_slot is compared with `{tb}`, which is not a slot "
                                "capacity: a live key in a slot above a hole is treated as absent", loc=fa.loc(n))
    run.sites(loops_n + cmp_n, floor, "slot-id bounds")


_SLOT_STATE = re.compile(r"slot_(live|occupied|constructed)")


def membership_scans(run: Run, rule: str, table: Sequence[Tuple[str, str, Optional[str], str]]) -> None:
    """K4 table of the scans over slot ids that enumerate the CURRENT members of a keyed collection.  A slot is `occupied` / `constructed` from its
    insertion until the PHYSICAL erase, which happens lazily at the next mutation; it is `live` only while the key is a member.  A scan that builds,
    compares or drops per-key state for the current key set must therefore filter with slot_live: with slot_occupied it also visits keys that were
    removed in the previous cycle (ghost children; a removal applied to the slot's next tenant).  Each row (file, function, class, why) was confirmed
    by reading; the rule requires every counted loop over a slot capacity in that function to test slot_live(loop variable) and none of the weaker
    states on it."""
    n = 0
    for rel, name, cls, why in table:
        fds = [f for f in run.tree.funcs(rel, name, cls) if f.body is not None]
        if not fds:
            raise AnalysisError("anchor-vanished", f"function {name} not found in {rel}")
        scans = []
        for fd_ in fds:                                     # overloads: the forwarding ones have no scan
            fa = parse(run, fd_)
            cn = aliases_of(fa)
            for l in loops(fa):
                if not isinstance(l, C.For):
                    continue
                sh = loop_shape(l, cn)
                if "slot_capacity(" in (sh.get("cond_r") or "") and sh.get("var"):
                    scans.append((l, sh["var"], fa, cn))
        run.sites(len(scans), 1, f"{name} slot scans")
        for l, v, fa, cn in scans:
            tests = {_SLOT_STATE.search(callee_name(c)).group(0) for c in calls(l.body)
                     if _SLOT_STATE.search(callee_name(c) or "") and any(cn(a) == v for a in c.args)}
            n += 1
            run.count(1, f"{rule}.scan")
            if tests != {"slot_live"}:
                run.finding(rule, f"{name}:membership-scan-filter:{'+'.join(sorted(tests)) or 'none'}",
                            f"{fa.fd.qual}: the scan over slot ids `{v}` enumerates current members ({why}) and must filter with slot_live({v}); it tests "
                            f"{sorted(tests) or 'nothing'}: a slot that is only pending its physical erase (key removed in the previous cycle) is treated as a member",
                            loc=fa.loc(l))
    run.sites(n, len(table), "membership scans")


def bitmap_positions(run: Run, rule: str, rel: str, floor: int = 1) -> None:
    """K6: every position reconstructed from a bit scan of a SlotBitmap word (`countr_zero` / `countl_zero`) is `word_index * SlotBitmap::bits_per_word + bit`.
    With any other multiplier (sizeof(word) = 8, a literal) the first word still maps correctly and every position >= 64 aliases a low one."""
    fi = run.tree.file(rel)
    n = 0
    for fd in fi.funcs:
        if fd.body is None or "countr_zero" not in fi.text(fd.body[0], fd.body[1]) and "countl_zero" not in fi.text(fd.body[0], fd.body[1]):
            continue
        if any(o is not fd and o.body is not None and o.body[0] > fd.body[0] and o.body[1] < fd.body[1] and
               ("countr_zero" in fi.text(o.body[0], o.body[1]) or "countl_zero" in fi.text(o.body[0], o.body[1])) for o in fi.funcs):
            continue
        fa = parse(run, fd, strict=False)
        cn = aliases_of(fa)
        sub = const_locals(fa, cn)
        bits = {d.name for d in find(fa, lambda x: isinstance(x, C.Declarator) and x.init is not None and re.search(r"count[lr]_zero", cn(x.init)))}
        for e in find(fa, lambda x: isinstance(x, C.Binary) and x.op == "+"):
            l, r = cn(e.l).replace(" ", ""), cn(e.r).replace(" ", "")
            for a, b in ((l, r), (r, l)):
                if b in bits and "*" in a and re.search(r"word", a):
                    n += 1
                    run.count(1, rule + ".pos")
                    fac = [x for x in re.split(r"\*", a.strip("()")) if not re.fullmatch(r"\(?\w*word\w*\)?", x)]
                    if [sub(x) for x in fac] != ["SlotBitmap::bits_per_word"] and fac != ["SlotBitmap::bits_per_word"]:
                        run.finding(rule, f"{fd.name}:bitmap-position-multiplier:{'*'.join(fac)[:40]}", f"{fd.qual}: a bit position is reconstructed as `{a} + {b}`; the word "
                                    "index must be multiplied by SlotBitmap::bits_per_word (64): with another factor every position in the second and later bitmap words "
                                    "maps onto a low slot (children in slots >= 64 are never visited, low ones twice)", loc=fa.loc(e))
    run.sites(n, floor, f"bitmap positions in {rel}")


def share(run: Run, rule: str, module, src_rules: Sequence[str], prefix: bool = False) -> None:
    """Re-evaluate rule instances that belong to another property under `rule` of this property (the same function is looked at by
    several properties; each attributes a break to itself).  Runs the other module's check in a quiet sub-run and copies the findings
    of `src_rules` (exact ids, or id prefixes with prefix=True).  Inside a sub-run nothing is shared again (no recursion, no
    double work): a property only ever imports another property's OWN rule instances."""
    if getattr(run, "is_sub", False):
        return
    cache = run.__dict__.setdefault("_share_cache", {}) if hasattr(run, "__dict__") else {}
    sub = cache.get(module.__name__)
    if sub is None:                                      # one sub-run per shared module and run: several obligations may import from the same module
        sub = Run(run.prop, run.tier, run.tree, quiet=True)
        sub.is_sub = True
        module.check(sub)
        cache[module.__name__] = sub
        run.evaluations += sub.evaluations
    run.count(1, rule)
    match = (lambda r: any(r.startswith(x) for x in src_rules)) if prefix else (lambda r: r in src_rules)
    for f in sub.findings:
        if match(f.rule):
            run.finding(rule, f.key, f.message, f.loc)
    for e in sub.errors:
        if any(e.startswith(x) for x in src_rules):
            raise AnalysisError("model-mismatch", e)


def taint_closure(fa: C.FuncAST, seeds: Iterable[str], passes: int = 4) -> set:
    """Names of locals that (transitively) receive data from `seeds` inside one function: declarations whose initialiser mentions a
    tainted name, assignments / compound assignments whose right side does, range-for bindings over a tainted range, and containers
    that receive a tainted argument through push_back / emplace_back / insert / set / append.  Flow-insensitive, intra-procedural
    (a may-analysis: used for "does X reach Y at all" obligations, where the absence of flow is the finding)."""
    tainted = set(seeds)
    mentions = lambda node: node is not None and any(isinstance(x, C.Id) and x.name.split("::")[0] in tainted for x in node.walk())

    def root_name(e):
        while isinstance(e, (C.Member, C.Index, C.Call)):
            e = e.obj if isinstance(e, (C.Member, C.Index)) else e.fn
        if isinstance(e, C.Unary):
            return root_name(e.e)
        return e.name if isinstance(e, C.Id) else None
    for _ in range(passes):
        before = len(tainted)
        for n in fa.body.walk():
            if isinstance(n, C.Declarator) and n.init is not None and mentions(n.init):
                if n.name:
                    tainted.add(n.name)
                for b in (n.bindings or []):
                    tainted.add(b)
            elif isinstance(n, C.RangeFor) and mentions(n.range):
                for nm in (n.names or []):
                    if nm:
                        tainted.add(nm)
            elif isinstance(n, C.Binary) and n.op in ("=", "+=", "|=") and mentions(n.r):
                r = root_name(n.l)
                if r:
                    tainted.add(r)
            elif isinstance(n, C.Call) and isinstance(n.fn, C.Member) and n.fn.name in ("push_back", "emplace_back", "insert", "set", "append", "emplace") \
                    and any(mentions(a) for a in n.args):
                r = root_name(n.fn.obj)
                if r:
                    tainted.add(r)
        if len(tainted) == before:
            break
    return tainted
