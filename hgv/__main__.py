"""CLI: python3 -m hgv check <id> [--tier quick|thorough] | selftest <id> | setup | replay <path> | all"""
from __future__ import annotations

import argparse
import importlib
import json
import os
import sys
import time
import traceback

from .index import AnalysisError, Tree
from .report import Run, VERIF, load_known

PROPS = [f"C{n:02d}" for n in range(1, 21)]


def load(prop: str):
    return importlib.import_module(f"hgv.props.{prop.lower()}")


def run_check(prop: str, tier: str, tree: Tree = None, quiet: bool = False) -> Run:
    mod = load(prop)
    run = Run(prop, tier, tree, quiet=quiet)
    run.decided = list(getattr(mod, "DECIDED", []))
    run.not_decided = list(getattr(mod, "NOT_DECIDED", []))
    mod.check(run)
    return run


def cmd_check(prop: str, tier: str) -> int:
    try:
        mod = load(prop)
    except ModuleNotFoundError:
        print(f"ANALYSIS-ERROR {prop} no check module")
        return 2
    try:
        run = run_check(prop, tier)
        known = [k for k in load_known() if k.get("status", "known") == "known"]
        fresh = [f for f in run.findings if not any(k["property"] == f.prop and k["rule"] == f.rule and k["key"] == f.key for k in known)]
        if tier == "thorough" and not fresh and not run.errors:
            from .selftest import run_selftest
            st = run_selftest(prop, run.tree)
            run.extra["selftest"] = st
            for msg in st.get("failures", []):
                run.errors.append(f"selftest: {msg}")
            from .gir import thorough_gir
            try:
                g = thorough_gir(prop, run)
                if g is not None:
                    run.extra["gir"] = g
                    # the machinery distrusts itself: a call the compiler sees and the parser does not (G2), or an exceptional edge the
                    # compiler has and the SRC CFG lacks (G3), makes the verdict unreliable -> ANALYSIS-ERROR, never a silent pass
                    for m in list(g.get("g2_missing_in_src", []))[:5]:
                        run.errors.append(f"gir-mismatch G2: {m}")
                    for m in list(g.get("g3_noexcept_with_eh", []))[:5]:
                        run.errors.append(f"gir-mismatch G3: {m}")
                    pc = g.get("positive_control")
                    if not g.get("skipped") and (pc is None or not pc.get("reported")):
                        run.errors.append("gir: the positive control (a hidden call must be reported by the G2 comparison) did not fire")
                    if not g.get("skipped") and g.get("functions_checked", 0) == 0:
                        run.errors.append("gir: no analysed function could be matched in the compiler's dump")
            except AnalysisError as e:
                run.errors.append(str(e))
        return run.finish(mod.EXPLANATION, mod.ASSUMPTIONS, mod.TECHNIQUE)
    except Exception as e:  # never a traceback exit
        print(f"ANALYSIS-ERROR {prop} internal: {e!r}")
        traceback.print_exc(limit=8, file=sys.stdout)
        return 2


def main(argv=None) -> int:
    ap = argparse.ArgumentParser(prog="hgv")
    sub = ap.add_subparsers(dest="cmd", required=True)
    c = sub.add_parser("check")
    c.add_argument("prop")
    c.add_argument("--tier", default=os.environ.get("VERIF_TIER", "quick"))
    s = sub.add_parser("selftest")
    s.add_argument("prop")
    sub.add_parser("setup")
    r = sub.add_parser("replay")
    r.add_argument("path")
    a = sub.add_parser("all")
    a.add_argument("--tier", default="quick")
    args = ap.parse_args(argv)
    if args.cmd == "check":
        tier = args.tier if args.tier in ("quick", "thorough") else "quick"
        return cmd_check(args.prop.upper(), tier)
    if args.cmd == "selftest":
        from .selftest import run_selftest
        st = run_selftest(args.prop.upper(), Tree(), verbose=True)
        print(json.dumps({k: v for k, v in st.items() if k != "details"}, indent=1))
        return 0 if not st["failures"] else 2
    if args.cmd == "setup":
        t0 = time.time()
        t = Tree()
        n = 0
        for rel in t.all_files():
            n += len(t.file(rel).funcs)
        print(f"hgv setup: indexed {len(t.all_files())} files, {n} function definitions in {time.time()-t0:.1f}s")
        os.makedirs(os.path.join(VERIF, "evidence"), exist_ok=True)
        return 0
    if args.cmd == "replay":
        with open(args.path) as fh:
            d = json.load(fh)
        print(json.dumps(d, indent=1))
        rc = cmd_check(d["property"], d.get("tier", "quick"))
        return rc
    if args.cmd == "all":
        worst = 0
        for p in PROPS:
            try:
                load(p)
            except ModuleNotFoundError:
                continue
            rc = cmd_check(p, args.tier)
            worst = max(worst, rc)
        return worst
    return 2


if __name__ == "__main__":
    sys.exit(main())
