"""GIR front-end: GCC's own CFG of the real translation units, used by the thorough tier as a CROSS-CHECK of the SRC front-end.

Nothing here executes hgraph: `g++ -O0 -c -o /dev/null -fdump-tree-cfg-blocks-details-lineno=<scratch>` only compiles the TU and
prints, per function instance, the basic blocks, their successor edges (with the EH flag) and every statement with its
[file:line:col] tag and its *resolved* callee.  The dump is parsed, reduced to the functions a property's rules looked at, and
compared with what the SRC parser believed:

  G1  every call the SRC parser saw inside an analysed function exists in the compiler's view of that source extent
      (otherwise the parser invented or mis-attributed a call);
  G2  every call to an hgraph function that the compiler placed inside the extent was seen by the SRC parser
      (otherwise a macro, an implicit conversion or a parser blind spot hides an effect from the rules);
  G3  every callee the SRC CFG treats as non-throwing (cfg.NOEXCEPT_NAMES) has no EH successor edge in any block of the
      extent that ends in a call to it (otherwise an exception path is missing from the K2 rules).

Disagreement is an ANALYSIS-ERROR (exit 2): the machinery distrusts itself, never the code.  Scratch lives under $TMPDIR and is
removed before the check returns.
"""
from __future__ import annotations

import os
import re
import shutil
import subprocess
import tempfile
from concurrent.futures import ThreadPoolExecutor
from dataclasses import dataclass, field
from typing import Dict, List, Optional, Set, Tuple

from .index import AnalysisError

SDK = "/venv/lib/python3.12/site-packages"
WITNESS_DIR = os.path.join(os.path.dirname(os.path.abspath(__file__)), "witness")
LOC = re.compile(r"\[(/[^\]:]+):(\d+):(\d+)\] ")
FUNC = re.compile(r"^;; Function (.*) \((\S+), funcdef_no=")
BB = re.compile(r"^;;\s+basic block (\d+),")
SUCC = re.compile(r"^;;\s+(?:succ:\s+)?(\d+)( \([A-Z_,]+\))?")


@dataclass
class GCall:
    file: str
    line: int
    col: int
    callee: str  # resolved pretty name (no arguments) or '*field' for an indirect call through a loaded field / '*' unknown
    base: str  # unqualified name
    block: int
    eh: bool = False  # the block ending in this call has an EH successor


@dataclass
class GFunc:
    pretty: str
    mangled: str
    calls: List[GCall] = field(default_factory=list)
    lines: Set[Tuple[str, int]] = field(default_factory=set)
    blocks: int = 0
    eh_edges: int = 0


def flags(repo: str, gen: str) -> List[str]:
    return ["-std=c++23", "-O0", "-g0", "-w", "-pthread", "-DHGRAPH_ENABLE_PYTHON_USER_NODES=0", "-DHGRAPH_TIME_ZONE_BACKEND_STD=1",
            "-DHGRAPH_STATIC_DEFINE", "-DFMT_HEADER_ONLY=1", "-DSPDLOG_FMT_EXTERNAL=1",
            f"-I{repo}/include", f"-I{repo}/include/third_party", f"-I{repo}/src", f"-I{gen}",
            "-isystem", f"{SDK}/include", "-isystem", f"{SDK}/pyarrow/include"]


def _split_callee(stmt: str) -> Optional[Tuple[str, str]]:
    """'lhs = callee (args);' -> (callee, args).  The callee/args separator is the first ' (' at angle depth 0."""
    s = stmt
    depth = 0
    i = 0
    n = len(s)
    start = 0
    # optional 'lhs = '
    m = re.match(r"^[^=(]*? = ", s)
    if m and "(" not in m.group(0):
        start = m.end()
    i = start
    while i < n - 1:
        c = s[i]
        if s.startswith("operator", i):
            j = i + 8
            while j < n and s[j] in "<>=!+-*/%&|^~[](),":
                if s[j] == "(" and not s.startswith("()", j):
                    break
                j += 2 if s.startswith("()", j) or s.startswith("[]", j) else 1
            i = j
            continue
        if c == "<":
            depth += 1
        elif c == ">":
            depth = max(0, depth - 1)
        elif c == " " and s[i + 1] == "(" and depth == 0:
            return s[start:i], s[i + 2:]
        i += 1
    return None


def _base(callee: str) -> str:
    c = callee
    # drop trailing template argument list
    while c.endswith(">") and "operator" not in c.split("::")[-1]:
        depth = 0
        k = len(c) - 1
        while k >= 0:
            if c[k] == ">":
                depth += 1
            elif c[k] == "<":
                depth -= 1
                if depth == 0:
                    break
            k -= 1
        if k <= 0:
            break
        c = c[:k].rstrip()
    # last '::' at depth 0
    depth = 0
    last = 0
    i = 0
    while i < len(c):
        ch = c[i]
        if ch in "<(":
            depth += 1
        elif ch in ">)":
            depth = max(0, depth - 1)
        elif ch == ":" and c.startswith("::", i) and depth == 0:
            last = i + 2
            i += 1
        i += 1
    return c[last:]


def _tail(callee: str) -> str:
    """The last '::'-component of a pretty name, template arguments included."""
    depth = 0
    last = 0
    i = 0
    while i < len(callee):
        ch = callee[i]
        if ch in "<(":
            depth += 1
        elif ch in ">)":
            depth = max(0, depth - 1)
        elif ch == ":" and callee.startswith("::", i) and depth == 0:
            last = i + 2
            i += 1
        i += 1
    return callee[last:]


def parse_dump(path: str, want_files: Set[str]) -> List[GFunc]:
    """Parse a -fdump-tree-cfg-blocks-details-lineno dump; keep only functions with a statement located in want_files."""
    out: List[GFunc] = []
    cur: Optional[GFunc] = None
    block = -1
    pending: List[GCall] = []  # calls of the current block (EH flag known at the succ line)
    temps: Dict[str, str] = {}
    in_succ = False
    with open(path, errors="replace") as fh:
        for raw in fh:
            line = raw.rstrip("\n")
            m = FUNC.match(line)
            if m:
                if cur is not None and cur.lines:
                    out.append(cur)
                cur = GFunc(m.group(1), m.group(2))
                block = -1
                pending = []
                temps = {}
                in_succ = False
                continue
            if cur is None:
                continue
            if line.startswith(";;"):
                mb = BB.match(line)
                if mb and line.startswith(";;   basic block"):
                    block = int(mb.group(1))
                    cur.blocks += 1
                    pending = []
                    in_succ = False
                    continue
                if "succ:" in line:
                    in_succ = True
                    if "(EH" in line or ",EH" in line or "EH," in line:
                        cur.eh_edges += 1
                        if pending:
                            pending[-1].eh = True
                    continue
                if in_succ and re.match(r"^;;\s+\d+ \(", line):
                    if "EH" in line:
                        cur.eh_edges += 1
                        if pending:
                            pending[-1].eh = True
                    continue
                in_succ = False
                continue
            in_succ = False
            if not line.startswith("  ") or block < 0:
                continue
            locs = LOC.findall(line)
            if not locs:
                continue
            f0, l0, c0 = locs[0]
            stmt = LOC.sub("", line.strip())
            stmt = re.sub(r";( \[(return slot optimization|tail call|must tail call)\])+$", ";", stmt)
            for f, l, _ in locs:
                if f in want_files:
                    cur.lines.add((f, int(l)))
            mt = re.match(r"^(_\d+|[A-Za-z_][\w.]*) = &?(.+);$", stmt)
            if mt and "(" not in mt.group(2):
                temps[mt.group(1)] = mt.group(2)
            if not stmt.endswith(");") or stmt.startswith(("if (", "switch (", "goto ", "return", "//")):
                continue
            sp = _split_callee(stmt)
            if sp is None:
                continue
            callee = sp[0].strip()
            if not callee or callee.startswith(("{", "(")) or " " in callee.split("<")[0] and not callee.startswith("operator"):
                # e.g. 'x = (T) y' casts or aggregates
                if not re.match(r"^[\w:~{}<>,*& .()\[\]=!+\-/%|^]+$", callee):
                    continue
            if re.fullmatch(r"_\d+|[a-z_]\w*\.\d+", callee) or callee.startswith("OBJ_TYPE_REF"):
                src = temps.get(callee, "")
                fm = re.search(r"(?:->|\.)([A-Za-z_]\w*)$", src)
                callee = "*" + (fm.group(1) if fm else "")
            elif callee in ("__builtin_unwind_resume", "__builtin_eh_pointer", "__cxa_begin_catch", "__cxa_end_catch", "__cxa_rethrow",
                            "__cxa_allocate_exception", "__cxa_throw", "__cxa_free_exception", "__builtin_trap", "__cxa_guard_acquire",
                            "__cxa_guard_release", "__cxa_guard_abort", "__builtin_memcpy", "__builtin_memset", "__builtin_expect"):
                continue
            base = _base(callee) if not callee.startswith("*") else callee
            if base == "operator()":
                # functor / std::function member invoked through a loaded field: name the call after the field
                a0 = sp[1].split(",")[0].strip().rstrip(");")
                src = temps.get(a0, a0)
                fm = re.search(r"(?:->|\.)([A-Za-z_]\w*)$", src.lstrip("&"))
                if fm:
                    base = "*" + fm.group(1)
            gc = GCall(f0, int(l0), int(c0), callee, base, block)
            cur.calls.append(gc)
            pending.append(gc)
    if cur is not None and cur.lines:
        out.append(cur)
    return out


class _CompileSlot:
    """Machine-wide cap on concurrent g++ processes (all 20 thorough checks may run at once): one of N lock files, flock'ed."""
    N = max(4, (os.cpu_count() or 8) - 2)

    def __enter__(self):
        import fcntl
        import time
        d = os.path.join(os.environ.get("TMPDIR") or "/tmp", "hgv_gir_slots")
        os.makedirs(d, exist_ok=True)
        while True:
            for k in range(self.N):
                fh = open(os.path.join(d, f"slot{k}"), "w")
                try:
                    fcntl.flock(fh, fcntl.LOCK_EX | fcntl.LOCK_NB)
                    self.fh = fh
                    return self
                except OSError:
                    fh.close()
            time.sleep(0.5)

    def __exit__(self, *a):
        self.fh.close()
        return False


def compile_dump(repo: str, tu: str, scratch: str, gen: str, extra: Tuple[str, ...] = ()) -> str:
    out = os.path.join(scratch, re.sub(r"[^A-Za-z0-9]", "_", tu) + ".cfg")
    cmd = ["g++", *flags(repo, gen), *extra, "-c", "-o", "/dev/null", f"-fdump-tree-cfg-blocks-details-lineno={out}", tu if os.path.isabs(tu) else os.path.join(repo, tu)]
    with _CompileSlot():
        r = subprocess.run(cmd, capture_output=True, text=True)
    if r.returncode != 0 or not os.path.exists(out):
        first = "\n".join(r.stderr.splitlines()[:6])
        raise AnalysisError("compile-failed", f"{tu}: {first}")
    return out


def make_gen(scratch: str) -> str:
    gen = os.path.join(scratch, "gen")
    os.makedirs(os.path.join(gen, "hgraph"), exist_ok=True)
    src = os.path.join(SDK, "include", "hgraph", "version.h")
    if not os.path.exists(src):
        raise AnalysisError("compile-failed", "hgraph/version.h not found in the SDK include directory")
    shutil.copy(src, os.path.join(gen, "hgraph", "version.h"))
    return gen


# SRC call names that have no GIMPLE call of the same name at -O0 (language constructs, casts, functional casts of builtin types)
SRC_NOT_CALLS = {"static_cast", "const_cast", "reinterpret_cast", "dynamic_cast", "sizeof", "alignof", "decltype", "typeid", "noexcept", "assert",
                 "static_assert", "bool", "int", "size_t", "double", "float", "char", "long", "unsigned", "uint64_t", "int64_t", "uint32_t", "int32_t",
                 "uint8_t", "uint16_t", "ptrdiff_t", "uintptr_t", "intptr_t", "byte", "void", "requires", "co_await", "offsetof", "alignas",
                 "__builtin_expect", "defined", "launder"}
# GIR callees the SRC rules never reason about (compiler-inserted or library plumbing)
GIR_IGNORE_BASE = re.compile(r"operator.*|~.*|__.*|_M_.*|get<.*|forward|move|addressof|__addressof|declval|construct_at|destroy_at|swap|begin|end|cbegin|cend")


def witness_for(rel: str) -> Optional[str]:
    """Header anchors are compiled through a tiny include-only witness TU (no logic of its own)."""
    if not rel.endswith((".h", ".hpp")):
        return None
    return rel


def thorough_gir(prop: str, run) -> Optional[dict]:
    """Cross-check the functions analysed by `run` against GCC's CFG of their translation units."""
    from . import rules as R
    from . import cparse as C
    from .cfg import NOEXCEPT_NAMES
    repo = run.tree.root
    if run.tree.overlay:
        return {"skipped": "overlay tree (self-test / patch run): the compiler reads the files on disk"}
    funcs = dict(run.functions)
    if not funcs:
        return {"skipped": "no function-level rule instance"}
    by_file: Dict[str, List[Tuple[str, int, int]]] = {}
    for key, span in funcs.items():
        rel, qual = key.split("::", 1)
        m = re.match(r"L(\d+)-(\d+)", span)
        if not m:
            continue
        by_file.setdefault(rel, []).append((qual, int(m.group(1)), int(m.group(2))))
    tree_names = {f.name for rel in run.tree.all_files() for f in run.tree.file(rel).funcs}
    # calls that GCC places at an aggregate / constructor site but that are written elsewhere in the source: default member
    # initialisers of the structs of the tree (`const X *ops{empty_inspection_ops()}`); SRC does not model them
    default_init_calls: Set[str] = set()
    for rel in run.tree.all_files():
        fi0 = run.tree.file(rel)
        for sd in fi0.structs:
            for fld in sd.fields:
                if fld.init is None:
                    continue
                a0, b0 = fld.init
                for k in range(a0, min(b0, len(fi0.toks) - 1)):
                    if fi0.toks[k].kind == "id" and fi0.toks[k + 1].text == "(":
                        default_init_calls.add(fi0.toks[k].text)
    scratch = tempfile.mkdtemp(prefix=f"hgv_gir_{prop}_", dir=os.environ.get("TMPDIR") or "/tmp")
    res = {"tus": [], "functions_checked": 0, "gir_instances": 0, "src_calls": 0, "gir_calls": 0, "g1_missing_in_gir": [], "g2_missing_in_src": [],
           "g3_noexcept_with_eh": [], "not_instantiated": [], "blocks": 0, "eh_edges": 0, "positive_control": None,
           "policy": "G2 and G3 disagreements are ANALYSIS-ERRORs (exit 2); G1 (the parser sees a call the build does not contain: preprocessor-disabled code, "
                     "virtual calls, std niebloids) over-approximates and is reported only"}
    try:
        gen = make_gen(scratch)
        jobs = []
        for rel in sorted(by_file):
            if rel.endswith(".cpp"):
                jobs.append((rel, os.path.join(repo, rel), ()))
            else:
                w = os.path.join(scratch, re.sub(r"[^A-Za-z0-9]", "_", rel) + "_witness.cpp")
                inc = rel.split("include/", 1)[1] if "include/" in rel else os.path.join(repo, rel)
                with open(w, "w") as fh:
                    fh.write(f"// include-only witness for {rel}\n#include <{inc}>\n" if "include/" in rel else f'#include "{inc}"\n')
                jobs.append((rel, w, ("-fkeep-inline-functions",)))

        def work(job):
            rel, path, extra = job
            try:
                return rel, compile_dump(repo, path, scratch, gen, extra), None
            except AnalysisError as e:
                return rel, None, str(e)
        with ThreadPoolExecutor(max_workers=min(8, len(jobs))) as ex:
            dumps = list(ex.map(work, jobs))
        for rel, dump, err in dumps:
            if err is not None:
                raise AnalysisError("compile-failed", err)
            absf = os.path.join(repo, rel)
            gfs = parse_dump(dump, {absf})
            os.remove(dump)
            res["tus"].append(rel)
            fi = run.tree.file(rel)
            for qual, a, b in by_file[rel]:
                fds = [f for f in fi.funcs if f.qual == qual and f.line == a]
                if not fds:
                    continue
                fa = R.parse(run, fds[0], strict=False)
                src_calls: Dict[str, int] = {}
                for c in R.calls(fa):
                    nm = R.callee_name(c)
                    if nm:
                        src_calls[nm] = src_calls.get(nm, 0) + 1
                if fds[0].init_list:
                    # constructor member-init list: not part of the parsed body; take its call names from the tokens
                    ia, ib = fds[0].init_list
                    for k in range(ia, min(ib, len(fi.toks) - 1)):
                        if fi.toks[k].kind == "id" and fi.toks[k + 1].text in ("(", "{", "<"):
                            src_calls[fi.toks[k].text] = src_calls.get(fi.toks[k].text, 0) + 1
                inst = [g for g in gfs if any(f == absf and a <= l <= b for f, l in g.lines)]
                # keep instances that live inside the extent (the function itself, its lambdas, its guard instantiations)
                gir_calls: Dict[str, GCall] = {}
                gir_bases: Set[str] = set()
                n_inst = 0
                for g in inst:
                    inside = [c for c in g.calls if c.file == absf and a <= c.line <= b]
                    if not inside:
                        continue
                    n_inst += 1
                    res["blocks"] += g.blocks
                    res["eh_edges"] += g.eh_edges
                    for c in inside:
                        gir_bases.add(c.base.lstrip("*"))
                        gir_calls.setdefault(c.base.lstrip("*"), c)
                        if c.base in NOEXCEPT_NAMES and c.eh:
                            res["g3_noexcept_with_eh"].append(f"{rel}:{c.line}: {c.callee} is on the SRC non-throwing list but GCC gives its block an EH edge ({qual})")
                res["functions_checked"] += 1
                res["gir_instances"] += n_inst
                res["src_calls"] += sum(src_calls.values())
                res["gir_calls"] += len(gir_calls)
                if n_inst == 0:
                    res["not_instantiated"].append(f"{rel}::{qual}")
                    continue
                local_names = {d.name for d in R.find(fa, lambda n: isinstance(n, C.Declarator))} | {nm for _, nm in fa.params if nm}
                for lam in R.find(fa, lambda n: isinstance(n, C.Lambda)):
                    local_names |= {nm for _, nm in lam.params if nm}
                for nm in sorted(src_calls):
                    if nm in SRC_NOT_CALLS or nm in gir_bases:
                        continue
                    if nm in local_names:
                        continue  # call of a local lambda / function object: GCC names it operator()
                    if nm.split("::")[-1] not in tree_names:
                        continue  # not a function of this code base (std / third-party niebloids, macros): outside the rules' vocabulary
                    res["g1_missing_in_gir"].append(f"{rel}::{qual}: SRC saw a call `{nm}` that GCC does not place in L{a}-{b}")
                def g2_for(seen: Dict[str, int]) -> List[str]:
                    out_: List[str] = []
                    for nm, c in sorted(gir_calls.items()):
                        if nm in seen or not nm or GIR_IGNORE_BASE.fullmatch(nm) or nm in default_init_calls:
                            continue
                        if not c.callee.startswith(("hgraph::", "*")):
                            continue
                        owner = c.callee[:len(c.callee) - len(_tail(c.callee))].rstrip(":")
                        if owner and _base(owner) == _base(c.callee):
                            continue  # constructor: SRC models construction as a declaration / brace-init, not as a call
                        out_.append(f"{rel}:{c.line}:{c.col}: GCC calls `{c.callee}` inside {qual}, the SRC parser saw no call named `{nm}`")
                    return out_
                real = g2_for(src_calls)
                res["g2_missing_in_src"].extend(real)
                if res.get("positive_control") is None and not real:
                    # positive control (every run): hide one call the parser DID see; the same comparison must now report it
                    for nm in sorted(src_calls):
                        if nm not in gir_calls:
                            continue
                        hidden = {k: v for k, v in src_calls.items() if k != nm}
                        got = g2_for(hidden)
                        if got:
                            res["positive_control"] = {"function": f"{rel}::{qual}", "hidden_call": nm, "reported": any(f"`{nm}`" in x for x in got)}
                            break
    finally:
        shutil.rmtree(scratch, ignore_errors=True)
    if res["functions_checked"] and res.get("positive_control") is None:
        res["positive_control"] = {"reported": False}
    return res
