"""GIR front-end (g++ GIMPLE CFG dumps) -- thorough tier cross-checks. Filled in later."""
from __future__ import annotations


def thorough_gir(prop, run):
    return None
