"""Canonical text of expressions (alias-substituted access paths)."""
from __future__ import annotations

import re

from typing import Dict, Optional

from . import cparse as C

_DROP_CALLS = {"std::move", "std::forward", "std::as_const", "move", "forward"}


def _nospace(s: Optional[str]) -> str:
    return (s or "").replace(" ", "")


class Canon:
    """Renders expressions to canonical strings under an alias environment.

    aliases: local name -> canonical text of what it refers to (reference / pointer locals).
    keep_targs: keep template arguments in rendered names.
    """

    def __init__(self, aliases: Optional[Dict[str, str]] = None, keep_targs: bool = False):
        self.aliases = dict(aliases or {})
        self.keep_targs = keep_targs

    def child(self) -> "Canon":
        return Canon(self.aliases, self.keep_targs)

    def __call__(self, e) -> str:
        return self.render(e)

    def render(self, e) -> str:
        r = self.render
        if e is None:
            return ""
        if isinstance(e, C.Id):
            nm = e.name
            if nm in self.aliases and e.targs is None:
                return self.aliases[nm]
            if e.targs is not None and self.keep_targs:
                return f"{nm}<{_nospace(e.targs)}>"
            return nm
        if isinstance(e, C.Lit):
            return e.text
        if isinstance(e, C.Member):
            if isinstance(e.obj, C.Lit) and e.obj.text == "this":
                base = e.name
                if e.targs is not None and self.keep_targs:
                    base += f"<{_nospace(e.targs)}>"
                return base
            o = r(e.obj)
            arrow = e.arrow
            # (*p).x == p->x ; (&x)->y == x.y
            if not arrow and o.startswith("*") and _simple(o[1:]):
                o = o[1:]
                arrow = True
            elif arrow and o.startswith("&") and _simple(o[1:]):
                o = o[1:]
                arrow = False
            elif not _postfix_safe(o):
                o = f"({o})"
            nm = e.name
            if e.targs is not None and self.keep_targs:
                nm += f"<{_nospace(e.targs)}>"
            return f"{o}{'->' if arrow else '.'}{nm}"
        if isinstance(e, C.Call):
            fn = r(e.fn)
            if fn in _DROP_CALLS and len(e.args) == 1:
                return r(e.args[0])
            return f"{fn}({','.join(r(a) for a in e.args)})"
        if isinstance(e, C.Index):
            o = r(e.obj)
            if not _postfix_safe(o):
                o = f"({o})"
            return f"{o}[{','.join(r(a) for a in e.args)}]"
        if isinstance(e, C.Unary):
            inner = r(e.e)
            if e.op == "*" and inner.startswith("&") and _simple(inner[1:]):
                return inner[1:]
            if e.op == "&" and inner.startswith("*") and _simple(inner[1:]):
                return inner[1:]
            if not _postfix_safe(inner):
                inner = f"({inner})"
            return f"{e.op}{inner}"
        if isinstance(e, C.Postfix):
            return f"{r(e.e)}{e.op}"
        if isinstance(e, C.Binary):
            if e.op in ("==", "!="):
                # symmetric: one canonical operand order (constants on the right, otherwise lexicographic), so `a == b` and `b == a` agree
                l, rr = self._p(e.l), self._p(e.r)
                lc, rc = _constant_like(l), _constant_like(rr)
                if (lc and not rc) or (lc == rc and rr < l):
                    l, rr = rr, l
                return f"{l}{e.op}{rr}"
            return f"{self._p(e.l)}{e.op}{self._p(e.r)}"
        if isinstance(e, C.Ternary):
            return f"{self._p(e.c)}?{self._p(e.a)}:{self._p(e.b)}"
        if isinstance(e, C.Cast):
            if e.kind in ("static_cast", "const_cast", "c"):
                return r(e.e)
            return f"{e.kind}<{_nospace(e.type)}>({r(e.e)})"
        if isinstance(e, C.Init):
            t = r(e.type) if e.type is not None else ""
            return f"{t}{{{','.join(r(a) for a in e.elems)}}}"
        if isinstance(e, C.Desig):
            return f".{e.name}={r(e.value)}"
        if isinstance(e, C.Lambda):
            return "<lambda>"
        if isinstance(e, C.Throw):
            return f"throw {r(e.e)}"
        if isinstance(e, C.New):
            return f"new {_nospace(e.type)}({','.join(r(a) for a in e.args)})"
        if isinstance(e, C.Delete):
            return f"delete {r(e.e)}"
        if isinstance(e, C.TypeExpr):
            return _nospace(e.text)
        if isinstance(e, C.Decl):
            return " ".join(f"{d.name}={r(d.init)}" for d in e.decls)
        if isinstance(e, C.Declarator):
            return f"{e.name}={r(e.init)}"
        return f"<{type(e).__name__}>"

    def _p(self, e) -> str:
        s = self.render(e)
        if isinstance(e, (C.Binary, C.Ternary)):
            return f"({s})"
        return s


def _constant_like(s: str) -> bool:
    """nullptr / true / false / numbers / enumerators and ALL-CAPS constants: conventionally the right operand of == / !=."""
    return bool(re.fullmatch(r"nullptr|true|false|-?[0-9][\w.']*|[A-Z][A-Z0-9_]+|(?:[A-Za-z_]\w*::)+[A-Za-z_]\w*|'.*'|\".*\"", s))


def _simple(s: str) -> bool:
    """s is an identifier-ish access path without operators that bind looser than postfix."""
    depth = 0
    for ch in s:
        if ch in "([{<":
            depth += 1
        elif ch in ")]}>":
            depth -= 1
        elif depth == 0 and ch in "+-*/%&|^!?=,~ ":
            return False
    return True


def _postfix_safe(s: str) -> bool:
    if not s:
        return True
    if s[0] in "*&!-+~":
        return False
    return _simple(s.replace("->", "."))


def callee_name(call) -> str:
    """Unqualified name of the called entity ('schedule_node' for a.b->schedule_node(...))."""
    fn = call.fn
    if isinstance(fn, C.Member):
        return fn.name
    if isinstance(fn, C.Id):
        return fn.name.split("::")[-1]
    return ""
