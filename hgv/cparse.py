"""Statement + expression parser for C++ function bodies (the subset the hgraph tree uses).

Produces a light AST.  Anything outside the modelled syntax raises ParseError; `parse_body` can turn
a failing *statement* into an Opaque node (recorded in FuncAST.opaque) so that rules can refuse to
decide about functions that contain one.
"""
from __future__ import annotations

from typing import Dict, List, Optional, Sequence, Set, Tuple

from .index import AnalysisError, FileIndex, FuncDef
from .lexer import Tok


class ParseError(Exception):
    def __init__(self, msg: str, tok: Optional[Tok] = None):
        super().__init__(msg + (f" at line {tok.line}:{tok.col} near {tok.text!r}" if tok else ""))
        self.tok = tok


# ---------------------------------------------------------------------------------------------
# AST
# ---------------------------------------------------------------------------------------------
class Node:
    __slots__ = ("ti",)  # token index of first token (for location)
    fields: Tuple[str, ...] = ()

    def children(self):
        for f in self.fields:
            v = getattr(self, f)
            if isinstance(v, Node):
                yield v
            elif isinstance(v, (list, tuple)):
                for x in v:
                    if isinstance(x, Node):
                        yield x
                    elif isinstance(x, (list, tuple)):
                        for y in x:
                            if isinstance(y, Node):
                                yield y

    def walk(self, into_lambdas: bool = True):
        stack = [self]
        while stack:
            n = stack.pop()
            yield n
            if isinstance(n, Lambda) and not into_lambdas and n is not self:
                continue
            stack.extend(reversed(list(n.children())))

    def __repr__(self):
        return f"{type(self).__name__}({', '.join(repr(getattr(self, f)) for f in self.fields)})"


def _mk(name, fields):
    def __init__(self, *args, ti=-1):
        if len(args) != len(fields):
            raise TypeError(f"{name} expects {fields}")
        for f, a in zip(fields, args):
            setattr(self, f, a)
        self.ti = ti
    return type(name, (Node,), {"__slots__": tuple(fields), "fields": tuple(fields), "__init__": __init__})


# expressions
Id = _mk("Id", ("name", "targs"))  # name: 'a::b', targs: text or None
Lit = _mk("Lit", ("kind", "text"))
Call = _mk("Call", ("fn", "args"))
Member = _mk("Member", ("obj", "name", "arrow", "targs"))
Index = _mk("Index", ("obj", "args"))
Unary = _mk("Unary", ("op", "e"))
Postfix = _mk("Postfix", ("op", "e"))
Binary = _mk("Binary", ("op", "l", "r"))
Ternary = _mk("Ternary", ("c", "a", "b"))
Cast = _mk("Cast", ("kind", "type", "e"))
Init = _mk("Init", ("type", "elems"))  # type: Node or None; elems: list of Node / Desig
Desig = _mk("Desig", ("name", "value"))
Lambda = _mk("Lambda", ("captures", "params", "body", "specs"))
Throw = _mk("Throw", ("e",))
New = _mk("New", ("type", "args"))
Delete = _mk("Delete", ("e",))
TypeExpr = _mk("TypeExpr", ("text",))  # a type used as an expression operand (sizeof(T), etc.)
# statements
Block = _mk("Block", ("stmts",))
If = _mk("If", ("init", "cond", "then", "els", "constexpr"))
For = _mk("For", ("init", "cond", "step", "body"))
RangeFor = _mk("RangeFor", ("decl", "names", "range", "body", "init"))
While = _mk("While", ("cond", "body"))
DoWhile = _mk("DoWhile", ("body", "cond"))
Switch = _mk("Switch", ("init", "cond", "body"))
Case = _mk("Case", ("value",))  # value None => default
Return = _mk("Return", ("e",))
Break = _mk("Break", ())
Continue = _mk("Continue", ())
Decl = _mk("Decl", ("specs", "type", "decls"))
Declarator = _mk("Declarator", ("name", "init", "init_kind", "ref", "bindings", "ptr"))
ExprStmt = _mk("ExprStmt", ("e",))
Try = _mk("Try", ("body", "handlers"))  # handlers: list of Handler
Handler = _mk("Handler", ("decl", "name", "body"))
Empty = _mk("Empty", ())
Other = _mk("Other", ("text",))  # using / static_assert / typedef / local struct ...
Opaque = _mk("Opaque", ("text",))


class FuncAST:
    def __init__(self, fd: Optional[FuncDef], fi: FileIndex, body: Block, params: List[Tuple[str, str]],
                 opaque: List[Opaque]):
        self.fd = fd
        self.fi = fi
        self.body = body
        self.params = params  # (type text, name)
        self.opaque = opaque

    def loc(self, n: Node) -> str:
        if n.ti is not None and 0 <= n.ti < len(self.fi.toks):
            t = self.fi.toks[n.ti]
            return f"{self.fi.path}:{t.line}:{t.col}"
        return self.fi.path

    def line(self, n: Node) -> int:
        if n.ti is not None and 0 <= n.ti < len(self.fi.toks):
            return self.fi.toks[n.ti].line
        return 0


# ---------------------------------------------------------------------------------------------
_BUILTIN_TYPES = {"void", "bool", "char", "short", "int", "long", "float", "double", "signed", "unsigned",
                  "wchar_t", "char8_t", "char16_t", "char32_t", "auto", "size_t"}
_DECL_SPECS = {"static", "const", "constexpr", "thread_local", "inline", "volatile", "mutable", "typename",
               "constinit", "extern", "register", "consteval"}
_STMT_KW = {"requires", "if", "for", "while", "do", "switch", "case", "default", "return", "break", "continue", "try",
            "throw", "goto", "using", "static_assert", "typedef", "else", "struct", "class", "enum", "union",
            "co_return", "co_await", "co_yield", "delete", "new", "sizeof", "this", "nullptr", "true", "false",
            "operator", "template", "namespace", "catch"}
_CASTS = {"static_cast", "const_cast", "reinterpret_cast", "dynamic_cast"}

_BINPREC = {
    ".*": 14, "->*": 14,
    "*": 13, "/": 13, "%": 13,
    "+": 12, "-": 12,
    "<<": 11, ">>": 11,
    "<=>": 10,
    "<": 9, "<=": 9, ">": 9, ">=": 9,
    "==": 8, "!=": 8,
    "&": 7, "^": 6, "|": 5, "&&": 4, "||": 3,
}
_ASSIGN = {"=", "+=", "-=", "*=", "/=", "%=", "&=", "|=", "^=", "<<=", ">>="}
_ALT_OPS = {"and": "&&", "or": "||", "not": "!"}


class Parser:
    def __init__(self, fi: FileIndex, lo: int, hi: int, known_templates: Optional[Set[str]] = None,
                 tolerant: bool = True):
        self.fi = fi
        self.toks = fi.toks
        self.match = fi.match
        self.i = lo
        self.hi = hi
        self.locals: Set[str] = set()
        self.known_templates = known_templates or set()
        self.tolerant = tolerant
        self.opaque: List[Opaque] = []

    # -- token helpers -------------------------------------------------------------------
    def peek(self, k: int = 0) -> Optional[Tok]:
        j = self.i + k
        # skip preprocessor tokens transparently
        while j < self.hi and self.toks[j].kind == "pp":
            j += 1
        return self.toks[j] if j < self.hi else None

    def _skip_pp(self):
        while self.i < self.hi and self.toks[self.i].kind == "pp":
            self.i += 1

    def at(self, text: str) -> bool:
        self._skip_pp()
        return self.i < self.hi and self.toks[self.i].text == text and self.toks[self.i].kind in ("op", "id")

    def at_op(self, text: str) -> bool:
        self._skip_pp()
        return self.i < self.hi and self.toks[self.i].kind == "op" and self.toks[self.i].text == text

    def at_id(self, text: Optional[str] = None) -> bool:
        self._skip_pp()
        if self.i >= self.hi:
            return False
        t = self.toks[self.i]
        return t.kind == "id" and (text is None or t.text == text)

    def cur(self) -> Tok:
        self._skip_pp()
        if self.i >= self.hi:
            raise ParseError("unexpected end", self.toks[self.hi - 1] if self.hi > 0 else None)
        return self.toks[self.i]

    def expect(self, text: str) -> int:
        self._skip_pp()
        if self.i >= self.hi or self.toks[self.i].text != text:
            raise ParseError(f"expected {text!r}", self.toks[min(self.i, self.hi - 1)])
        self.i += 1
        return self.i - 1

    def text(self, a: int, b: int) -> str:
        return " ".join(t.text for t in self.toks[a:b] if t.kind != "pp")

    # -- template angle matching -------------------------------------------------------
    def _angle_end(self, k: int, limit: int) -> int:
        """toks[k] == '<'. Return index *after* the matching '>' or -1 (expression heuristics)."""
        depth = 0
        toks = self.toks
        j = k
        while j < limit:
            t = toks[j]
            if t.kind == "op":
                x = t.text
                if x == "<":
                    depth += 1
                elif x == ">":
                    depth -= 1
                    if depth == 0:
                        return j + 1
                elif x == ">>":
                    if depth >= 2:
                        depth -= 2
                        if depth == 0:
                            return j + 1
                    else:
                        return -1
                elif x in "([{":
                    j = self.match[j]
                elif x in (";", ")", "]", "}", "||", "=", "+=", "-=", "?"):
                    return -1
                elif x == "&&":
                    # T&& inside template args is a type; 'a < b && c > d' is an expression
                    nxt = toks[j + 1] if j + 1 < limit else None
                    if nxt is not None and not (nxt.kind == "op" and nxt.text in (">", ",", ">>", "...")):
                        return -1
            elif t.kind in ("str",):
                pass
            j += 1
        return -1

    def _template_follows(self, k: int, decl_ctx: bool = False) -> int:
        """toks[k] is '<' directly after an identifier. Return end index (after '>') if it is a template
        argument list, else -1."""
        prev = self.toks[k - 1]
        name = prev.text
        end = self._angle_end(k, self.hi)
        if end < 0:
            return -1
        if name in self.locals and name not in self.known_templates:
            return -1
        nxt = self.toks[end] if end < self.hi else None
        if nxt is None:
            return end
        if nxt.kind in ("num", "str", "chr"):
            return -1
        return end

    # -- types ------------------------------------------------------------------------------
    def _try_type(self, j: int, allow_auto_binding: bool = True) -> Optional[Tuple[int, bool]]:
        """Try to read decl-specifiers + a type + ptr/ref ops starting at token j.
        Returns (index after type, saw_specifier_or_builtin) or None."""
        toks = self.toks
        hi = self.hi
        strong = False
        k = j
        # specifiers & attributes
        while k < hi:
            t = toks[k]
            if t.kind == "pp":
                k += 1
                continue
            if t.kind == "id" and t.text in _DECL_SPECS:
                strong = True
                k += 1
                continue
            if t.text == "[" and k + 1 < hi and toks[k + 1].text == "[":
                k = self.match[k] + 1
                continue
            break
        if k >= hi:
            return None
        t = toks[k]
        if t.kind != "id" and t.text != "::":
            return None
        if t.kind == "id" and t.text in ("struct", "class", "enum", "union"):
            # elaborated type specifier
            k += 1
            strong = True
            t = toks[k]
        if t.kind == "id" and t.text in _BUILTIN_TYPES:
            strong = True
            while k < hi and toks[k].kind == "id" and (toks[k].text in _BUILTIN_TYPES or toks[k].text in ("const", "volatile")):
                k += 1
        elif t.kind == "id" and t.text == "decltype":
            if toks[k + 1].text != "(":
                return None
            k = self.match[k + 1] + 1
            strong = True
        else:
            if t.kind == "id" and t.text in _STMT_KW:
                return None
            # qualified id with template args
            if t.text == "::":
                k += 1
            while True:
                if k >= hi or toks[k].kind != "id" or toks[k].text in _STMT_KW:
                    if k < hi and toks[k].kind == "id" and toks[k].text == "template":
                        k += 1
                        continue
                    return None
                k += 1
                if k < hi and toks[k].text == "<" and toks[k].kind == "op":
                    e = self._template_follows(k, decl_ctx=True)
                    if e < 0:
                        return None
                    k = e
                if k < hi and toks[k].text == "::":
                    k += 1
                    continue
                break
        # cv + ptr/ref
        while k < hi:
            t = toks[k]
            if t.kind == "id" and t.text in ("const", "volatile"):
                k += 1
            elif t.kind == "op" and t.text in ("*", "&", "&&"):
                k += 1
            elif t.kind == "op" and t.text == "...":
                k += 1
            else:
                break
        return k, strong

    def _looks_like_decl(self) -> Optional[int]:
        """If a declaration starts at self.i, return index of the first declarator token."""
        self._skip_pp()
        r = self._try_type(self.i)
        if r is None:
            return None
        k, strong = r
        toks = self.toks
        if k >= self.hi:
            return None
        t = toks[k]
        if t.kind == "op" and t.text == "[" and toks[k - 1].text in ("auto", "&", "&&", "const"):
            # structured binding
            close = self.match[k]
            if toks[close + 1].text in ("=", "{", ":", "("):
                return k
            return None
        if t.kind == "id" and t.text not in _STMT_KW:
            nxt = toks[k + 1] if k + 1 < self.hi else None
            if nxt is None:
                return None
            if nxt.kind == "op" and nxt.text in ("=", "{", "(", ";", ",", "[", ":"):
                if nxt.text == "(" and not strong:
                    # 'T name(args);' vs call; two consecutive ids => declaration
                    return k
                return k
            return None
        if strong and t.kind == "op" and t.text == "(" and toks[k + 1].text in ("*", "&"):
            return k  # function pointer declarator (rare)
        return None

    # -- statements ---------------------------------------------------------------------
    def parse_block_body(self, close: int) -> Block:
        start = self.i
        stmts: List[Node] = []
        while True:
            self._skip_pp()
            if self.i >= close:
                break
            stmts.append(self.statement_tolerant(close))
        return Block(stmts, ti=start - 1)

    def statement_tolerant(self, close: int) -> Node:
        save = self.i
        if not self.tolerant:
            return self.statement()
        try:
            return self.statement()
        except ParseError as e:
            # skip to end of statement: ';' at depth 0 or a matched brace block
            self.i = save
            k = save
            toks = self.toks
            while k < close:
                t = toks[k]
                if t.kind == "op" and t.text in "([":
                    k = self.match[k] + 1
                    continue
                if t.kind == "op" and t.text == "{":
                    k = self.match[k] + 1
                    # a block ends the statement unless followed by ';' ',' ')' '.' (initialiser)
                    if k < close and toks[k].text in (";",):
                        k += 1
                        break
                    if k < close and toks[k].kind == "op" and toks[k].text in (",", ".", ")", "(", "=", "->"):
                        continue
                    if k < close and toks[k].kind == "id" and toks[k].text in ("else", "catch", "while"):
                        continue
                    break
                if t.kind == "op" and t.text == ";":
                    k += 1
                    break
                k += 1
            op = Opaque(f"{e} :: " + self.text(save, min(k, save + 40)), ti=save)
            self.opaque.append(op)
            self.i = max(k, save + 1)
            return op

    def statement(self) -> Node:
        self._skip_pp()
        t = self.cur()
        ti = self.i
        if t.kind == "op":
            if t.text == "{":
                close = self.match[self.i]
                self.i += 1
                b = self.parse_block_body(close)
                self.i = close + 1
                b.ti = ti
                return b
            if t.text == ";":
                self.i += 1
                return Empty(ti=ti)
            if t.text == "[" and self.toks[self.i + 1].text == "[":
                self.i = self.match[self.i] + 1
                return self.statement()
        if t.kind == "id":
            x = t.text
            if x == "if":
                return self._if()
            if x == "for":
                return self._for()
            if x == "while":
                self.i += 1
                po = self.expect("(")
                close = self.match[po]
                cond = self._cond_until(close)
                self.i = close + 1
                body = self.statement()
                return While(cond, body, ti=ti)
            if x == "do":
                self.i += 1
                body = self.statement()
                if not self.at_id("while"):
                    raise ParseError("expected while", self.cur())
                self.i += 1
                po = self.expect("(")
                close = self.match[po]
                cond = self._expr_until(close)
                self.i = close + 1
                self.expect(";")
                return DoWhile(body, cond, ti=ti)
            if x == "switch":
                self.i += 1
                po = self.expect("(")
                close = self.match[po]
                init, cond = self._init_and_cond(close)
                self.i = close + 1
                body = self.statement()
                return Switch(init, cond, body, ti=ti)
            if x == "case":
                self.i += 1
                # find ':' at depth 0 (not '::')
                k = self.i
                depth = 0
                while k < self.hi:
                    tt = self.toks[k]
                    if tt.kind == "op" and tt.text in "([{":
                        k = self.match[k] + 1
                        continue
                    if tt.kind == "op" and tt.text == "?":
                        depth += 1
                    if tt.kind == "op" and tt.text == ":":
                        if depth == 0:
                            break
                        depth -= 1
                    k += 1
                v = self._expr_until(k)
                self.i = k + 1
                return Case(v, ti=ti)
            if x == "default" and self.toks[self.i + 1].text == ":":
                self.i += 2
                return Case(None, ti=ti)
            if x == "return" or x == "co_return":
                self.i += 1
                if self.at_op(";"):
                    self.i += 1
                    return Return(None, ti=ti)
                e = self.expression()
                self.expect(";")
                return Return(e, ti=ti)
            if x == "break":
                self.i += 1
                self.expect(";")
                return Break(ti=ti)
            if x == "continue":
                self.i += 1
                self.expect(";")
                return Continue(ti=ti)
            if x == "try":
                self.i += 1
                body = self.statement()
                handlers = []
                while self.at_id("catch"):
                    hti = self.i
                    self.i += 1
                    po = self.expect("(")
                    close = self.match[po]
                    decl = self.text(po + 1, close)
                    nm = None
                    if close - 1 > po and self.toks[close - 1].kind == "id" and close - 1 > po + 1:
                        nm = self.toks[close - 1].text
                        self.locals.add(nm)
                    self.i = close + 1
                    hb = self.statement()
                    handlers.append(Handler(decl, nm, hb, ti=hti))
                return Try(body, handlers, ti=ti)
            if x in ("using", "static_assert", "typedef", "goto") or (x == "namespace" and self.toks[self.i + 2].text == "="):
                k = self.i
                while k < self.hi and self.toks[k].text != ";":
                    if self.toks[k].kind == "op" and self.toks[k].text in "([{":
                        k = self.match[k]
                    k += 1
                txt = self.text(self.i, k)
                self.i = k + 1
                return Other(txt, ti=ti)
            if x in ("struct", "class", "enum", "union"):
                # local type definition?  find '{' before ';'
                k = self.i
                while k < self.hi and self.toks[k].text not in ("{", ";", "(", "="):
                    k += 1
                if k < self.hi and self.toks[k].text == "{":
                    close = self.match[k]
                    k2 = close + 1
                    while k2 < self.hi and self.toks[k2].text != ";":
                        k2 += 1
                    txt = self.text(self.i, k)
                    self.i = k2 + 1
                    return Other("local-type " + txt, ti=ti)
            if x == "else":
                raise ParseError("dangling else", t)
            # label 'name:' (not '::')
            if self.toks[self.i + 1].text == ":" and self.toks[self.i + 1].kind == "op" and x not in ("public", "private"):
                # only if not part of ?: — statement start so safe
                self.i += 2
                return Other("label " + x, ti=ti)
        # declaration?
        d = self._looks_like_decl()
        if d is not None:
            return self._declaration(d, (";",))
        e = self.expression()
        self.expect(";")
        return ExprStmt(e, ti=ti)

    def _init_and_cond(self, close: int):
        """Contents of if/switch parentheses: [init ;] condition."""
        # find ';' at depth 0 inside (self.i, close)
        k = self.i
        semi = -1
        while k < close:
            t = self.toks[k]
            if t.kind == "op" and t.text in "([{":
                k = self.match[k] + 1
                continue
            if t.kind == "op" and t.text == ";":
                semi = k
                break
            k += 1
        init = None
        if semi >= 0:
            save_hi = self.hi
            self.hi = semi + 1
            d = self._looks_like_decl()
            if d is not None:
                init = self._declaration(d, (";",))
            else:
                e = self.expression()
                self.expect(";")
                init = ExprStmt(e)
            self.hi = save_hi
            self.i = semi + 1
        cond = self._cond_until(close)
        return init, cond

    def _cond_until(self, close: int) -> Node:
        """A condition which may be a declaration ('auto x = f()')."""
        save_hi = self.hi
        self.hi = close
        try:
            d = self._looks_like_decl()
            if d is not None and self.toks[d].kind == "id" and self.toks[d + 1].text not in ("=", "{"):
                # a condition declaration always has an `=` / brace initialiser: `a && f(x)` is an expression, not `a &&f(x)`
                # (blind spot found by the GIR cross-check: the call in the condition was invisible to the rules)
                d = None
            if d is not None:
                return self._declaration(d, ())
            e = self.expression()
            if self.i != close:
                raise ParseError("trailing tokens in condition", self.cur())
            return e
        finally:
            self.hi = save_hi

    def _expr_until(self, end: int) -> Node:
        save_hi = self.hi
        self.hi = end
        try:
            e = self.expression()
            self._skip_pp()
            if self.i != end:
                raise ParseError("trailing tokens in expression", self.cur())
            return e
        finally:
            self.hi = save_hi

    def _if(self) -> Node:
        ti = self.i
        self.i += 1
        cx = False
        if self.at_id("constexpr"):
            cx = True
            self.i += 1
        if self.at_op("!") and self.toks[self.i + 1].text == "consteval":
            self.i += 2
            cx = True
        po = self.expect("(")
        close = self.match[po]
        init, cond = self._init_and_cond(close)
        self.i = close + 1
        then = self.statement()
        els = None
        if self.at_id("else"):
            self.i += 1
            els = self.statement()
        return If(init, cond, then, els, cx, ti=ti)

    def _for(self) -> Node:
        ti = self.i
        self.i += 1
        po = self.expect("(")
        close = self.match[po]
        # range-for? find ':' at depth 0 that is not '::' and no ';' at depth 0 before... (init-stmt allowed)
        k = self.i
        semis: List[int] = []
        colon = -1
        qdepth = 0
        while k < close:
            t = self.toks[k]
            if t.kind == "op" and t.text in "([{":
                k = self.match[k] + 1
                continue
            if t.kind == "op" and t.text == ";":
                semis.append(k)
            elif t.kind == "op" and t.text == "?":
                qdepth += 1
            elif t.kind == "op" and t.text == ":":
                if qdepth:
                    qdepth -= 1
                elif colon < 0:
                    colon = k
            k += 1
        if colon >= 0 and len(semis) <= 1 and (not semis or semis[0] < colon):
            init = None
            if semis:
                save_hi = self.hi
                self.hi = semis[0] + 1
                d = self._looks_like_decl()
                if d is not None:
                    init = self._declaration(d, (";",))
                else:
                    e = self.expression()
                    self.expect(";")
                    init = ExprStmt(e)
                self.hi = save_hi
                self.i = semis[0] + 1
            # declaration part
            dstart = self.i
            decl_text = self.text(dstart, colon)
            names: List[str] = []
            if self.toks[colon - 1].text == "]":
                ob = self.match[colon - 1]
                names = [t.text for t in self.toks[ob + 1:colon - 1] if t.kind == "id"]
            elif self.toks[colon - 1].kind == "id":
                names = [self.toks[colon - 1].text]
            for nm in names:
                self.locals.add(nm)
            self.i = colon + 1
            rng = self._expr_until(close)
            self.i = close + 1
            body = self.statement()
            return RangeFor(decl_text, names, rng, body, init, ti=ti)
        if len(semis) != 2:
            raise ParseError("malformed for", self.toks[po])
        init = None
        if semis[0] > self.i:
            save_hi = self.hi
            self.hi = semis[0] + 1
            d = self._looks_like_decl()
            if d is not None:
                init = self._declaration(d, (";",))
            else:
                e = self.expression()
                self.expect(";")
                init = ExprStmt(e)
            self.hi = save_hi
        self.i = semis[0] + 1
        cond = None
        if semis[1] > self.i:
            cond = self._expr_until(semis[1])
        self.i = semis[1] + 1
        step = None
        if close > self.i:
            step = self._expr_until(close)
        self.i = close + 1
        body = self.statement()
        return For(init, cond, step, body, ti=ti)

    def _declaration(self, dstart: int, terminators: Sequence[str]) -> Node:
        ti = self.i
        toks = self.toks
        # split specifiers / type text
        type_toks = [t for t in toks[self.i:dstart] if t.kind != "pp"]
        specs = [t.text for t in type_toks if t.kind == "id" and t.text in _DECL_SPECS and t.text != "const"]
        # strip trailing ptr/ref for base type text; record per-declarator ref for first declarator
        type_text = " ".join(t.text for t in type_toks)
        base_ref = bool(type_toks) and type_toks[-1].text in ("&", "&&")
        base_ptr = bool(type_toks) and (type_toks[-1].text == "*" or (len(type_toks) > 1 and type_toks[-1].text == "const" and type_toks[-2].text == "*"))
        self.i = dstart
        decls: List[Node] = []
        first = True
        while True:
            self._skip_pp()
            dti = self.i
            ref = base_ref if first else False
            ptr = base_ptr if first else False
            if not first:
                while self.at_op("*") or self.at_op("&") or self.at_op("&&") or self.at_id("const"):
                    if self.cur().text in ("&", "&&"):
                        ref = True
                    if self.cur().text == "*":
                        ptr = True
                    self.i += 1
            bindings = None
            name = None
            if self.at_op("["):
                close = self.match[self.i]
                bindings = [t.text for t in toks[self.i + 1:close] if t.kind == "id"]
                for b in bindings:
                    self.locals.add(b)
                self.i = close + 1
                name = "[" + ",".join(bindings) + "]"
            elif self.at_op("("):
                # function pointer declarator: ( * name ) ( params )
                close = self.match[self.i]
                ids = [t.text for t in toks[self.i + 1:close] if t.kind == "id"]
                name = ids[-1] if ids else "?"
                self.i = close + 1
                if self.at_op("("):
                    self.i = self.match[self.i] + 1
                self.locals.add(name)
            else:
                t = self.cur()
                if t.kind != "id":
                    raise ParseError("declarator name expected", t)
                name = t.text
                self.locals.add(name)
                self.i += 1
            # array suffix
            while self.at_op("["):
                self.i = self.match[self.i] + 1
            init = None
            kind = None
            if self.at_op("="):
                self.i += 1
                kind = "="
                init = self.assignment_expr()
            elif self.at_op("{"):
                kind = "{}"
                init = self._braced_init(None)
            elif self.at_op("("):
                kind = "()"
                close = self.match[self.i]
                pti = self.i
                self.i += 1
                args = self._arg_list(close)
                self.i = close + 1
                init = Init(None, args, ti=pti)
            elif self.at_op(":") and not terminators:
                pass
            decls.append(Declarator(name, init, kind, ref, bindings, ptr, ti=dti))
            first = False
            if self.at_op(","):
                self.i += 1
                continue
            break
        if terminators:
            self._skip_pp()
            if self.i >= self.hi or self.toks[self.i].text not in terminators:
                raise ParseError("expected ';' after declaration", self.toks[min(self.i, self.hi - 1)])
            self.i += 1
        return Decl(specs, type_text, decls, ti=ti)

    # -- expressions --------------------------------------------------------------------
    def expression(self) -> Node:
        e = self.assignment_expr()
        while self.at_op(","):
            ti = self.i
            self.i += 1
            r = self.assignment_expr()
            e = Binary(",", e, r, ti=ti)
        return e

    def assignment_expr(self) -> Node:
        self._skip_pp()
        if self.at_id("throw"):
            ti = self.i
            self.i += 1
            if self.at_op(";") or self.at_op(")") or self.at_op(",") or self.at_op(":"):
                return Throw(None, ti=ti)
            return Throw(self.assignment_expr(), ti=ti)
        if self.at_id("co_yield") or self.at_id("co_await"):
            ti = self.i
            op = self.cur().text
            self.i += 1
            return Unary(op, self.assignment_expr(), ti=ti)
        c = self.binary_expr(3)
        self._skip_pp()
        if self.at_op("?"):
            ti = self.i
            self.i += 1
            a = self.expression()
            self.expect(":")
            b = self.assignment_expr()
            return Ternary(c, a, b, ti=ti)
        if self.i < self.hi and self.toks[self.i].kind == "op" and self.toks[self.i].text in _ASSIGN:
            ti = self.i
            op = self.toks[self.i].text
            self.i += 1
            if self.at_op("{"):
                r = self._braced_init(None)
            else:
                r = self.assignment_expr()
            return Binary(op, c, r, ti=ti)
        return c

    def binary_expr(self, minprec: int) -> Node:
        left = self.unary_expr()
        while True:
            self._skip_pp()
            if self.i >= self.hi:
                return left
            t = self.toks[self.i]
            op = t.text
            if t.kind == "id" and op in _ALT_OPS:
                op = _ALT_OPS[op]
            elif t.kind != "op":
                return left
            prec = _BINPREC.get(op)
            if prec is None or prec < minprec or op == "!":
                return left
            ti = self.i
            self.i += 1
            right = self.binary_expr(prec + 1)
            left = Binary(op, left, right, ti=ti)

    def unary_expr(self) -> Node:
        self._skip_pp()
        t = self.cur()
        ti = self.i
        if t.kind == "op" and t.text in ("!", "-", "+", "~", "*", "&", "++", "--"):
            self.i += 1
            e = self.unary_expr()
            return Unary(t.text, e, ti=ti)
        if t.kind == "id" and t.text == "not":
            self.i += 1
            return Unary("!", self.unary_expr(), ti=ti)
        if t.kind == "id" and t.text in ("sizeof", "alignof", "typeid", "noexcept", "decltype"):
            self.i += 1
            if self.at_op("...") :
                self.i += 1
            if self.at_op("("):
                close = self.match[self.i]
                txt = self.text(self.i + 1, close)
                self.i = close + 1
                e: Node = Call(Id(t.text, None, ti=ti), [TypeExpr(txt, ti=ti)], ti=ti)
                return self._postfix(e)
            e = self.unary_expr()
            return Call(Id(t.text, None, ti=ti), [e], ti=ti)
        if t.kind == "id" and t.text == "new":
            self.i += 1
            if self.at_op("("):  # placement
                self.i = self.match[self.i] + 1
            r = self._try_type(self.i)
            if r is None:
                raise ParseError("new-type", self.cur())
            tt = self.text(self.i, r[0])
            self.i = r[0]
            args: List[Node] = []
            if self.at_op("(") or self.at_op("{"):
                close = self.match[self.i]
                self.i += 1
                args = self._arg_list(close)
                self.i = close + 1
            return New(tt, args, ti=ti)
        if t.kind == "id" and t.text == "delete":
            self.i += 1
            if self.at_op("["):
                self.i = self.match[self.i] + 1
            return Delete(self.unary_expr(), ti=ti)
        if t.kind == "op" and t.text == "(":
            # C-style cast '(void)x' or '(T)x' -- only the (void) form and simple type names are recognised
            close = self.match[self.i]
            inner = [x for x in self.toks[self.i + 1:close] if x.kind != "pp"]
            if len(inner) == 1 and inner[0].text == "void":
                self.i = close + 1
                e = self.unary_expr()
                return Cast("c", "void", e, ti=ti)
        return self._postfix(self.primary())

    def _arg_list(self, close: int) -> List[Node]:
        args: List[Node] = []
        save_hi = self.hi
        self.hi = close
        try:
            self._skip_pp()
            while self.i < close:
                if self.at_op("{"):
                    a = self._braced_init(None)
                elif self.at_op(".") and self.toks[self.i + 1].kind == "id" and self.toks[self.i + 2].text in ("=", "{"):
                    a = self._designator()
                else:
                    a = self.assignment_expr()
                if self.at_op("..."):
                    a = Postfix("...", a, ti=self.i)
                    self.i += 1
                args.append(a)
                self._skip_pp()
                if self.i < close:
                    if self.at_op(","):
                        self.i += 1
                        self._skip_pp()
                        continue
                    raise ParseError("expected ',' in argument list", self.cur())
            return args
        finally:
            self.hi = save_hi

    def _designator(self) -> Node:
        ti = self.i
        self.expect(".")
        name = self.cur().text
        self.i += 1
        if self.at_op("="):
            self.i += 1
            if self.at_op("{"):
                v = self._braced_init(None)
            else:
                v = self.assignment_expr()
        else:
            v = self._braced_init(None)
        return Desig(name, v, ti=ti)

    def _braced_init(self, type_node: Optional[Node]) -> Node:
        ti = self.i
        ob = self.expect("{")
        close = self.match[ob]
        elems = self._arg_list(close)
        self.i = close + 1
        return Init(type_node, elems, ti=ti if type_node is None else type_node.ti)

    def primary(self) -> Node:
        self._skip_pp()
        t = self.cur()
        ti = self.i
        if t.kind == "num":
            self.i += 1
            return Lit("num", t.text, ti=ti)
        if t.kind == "str":
            self.i += 1
            # adjacent string literal concatenation
            txt = t.text
            while self.i < self.hi and self.toks[self.i].kind == "str":
                txt += " " + self.toks[self.i].text
                self.i += 1
            # user-defined literal suffix e.g. "abc"sv
            if self.i < self.hi and self.toks[self.i].kind == "id" and self.toks[self.i].col == self.toks[self.i - 1].col + len(self.toks[self.i - 1].text) \
                    and self.toks[self.i].line == self.toks[self.i - 1].line and self.toks[self.i].text in ("sv", "s"):
                self.i += 1
            return Lit("str", txt, ti=ti)
        if t.kind == "chr":
            self.i += 1
            return Lit("chr", t.text, ti=ti)
        if t.kind == "op":
            if t.text == "(":
                close = self.match[self.i]
                self.i += 1
                # fold expression / parenthesised expression
                fold = self._fold_split(self.i, close)
                if fold is not None:
                    op, ranges = fold
                    parts = [self._expr_until(hi_) if (setattr(self, 'i', lo_) or True) else None for lo_, hi_ in ranges]
                    e = parts[0] if len(parts) == 1 else Binary("fold" + op, parts[0], parts[1], ti=ti)
                    e = Unary("fold" + op, e, ti=ti) if len(parts) == 1 else e
                else:
                    e = self._expr_until(close)
                self.i = close + 1
                return e
            if t.text == "[":
                return self._lambda()
            if t.text == "{":
                return self._braced_init(None)
            if t.text == "::":
                self.i += 1
                if self.at_id("new") or self.at_id("delete"):
                    return self.unary_expr()
                e = self.primary()
                if isinstance(e, Id):
                    e.name = "::" + e.name
                return e
            raise ParseError("unexpected operator in expression", t)
        # identifier-like
        x = t.text
        if x in _CASTS:
            self.i += 1
            lt = self.expect("<")
            end = self._angle_end(lt, self.hi)
            if end < 0:
                raise ParseError("cast type", t)
            ty = self.text(lt + 1, end - 1)
            self.i = end
            po = self.expect("(")
            close = self.match[po]
            e = self._expr_until(close)
            self.i = close + 1
            return Cast(x, ty, e, ti=ti)
        if x == "requires":
            self.i += 1
            if self.at_op("("):
                self.i = self.match[self.i] + 1
            if self.at_op("{"):
                close = self.match[self.i]
                txt = self.text(self.i, close + 1)
                self.i = close + 1
                return TypeExpr("requires " + txt, ti=ti)
            raise ParseError("requires-expression", t)
        if x in ("true", "false", "nullptr", "this"):
            self.i += 1
            return Lit("kw", x, ti=ti)
        if x == "typename":
            self.i += 1
            return self.primary()
        if x == "operator":
            # operator()(...) direct calls are rare
            self.i += 1
            name = "operator"
            if self.at_id("new") or self.at_id("delete"):
                name += " " + self.cur().text
                self.i += 1
            while self.i < self.hi and self.toks[self.i].kind == "op" and self.toks[self.i].text != "(":
                name += self.toks[self.i].text
                self.i += 1
            if name == "operator" and self.at_op("("):
                self.i += 2
                name = "operator()"
            return Id(name, None, ti=ti)
        if x in _BUILTIN_TYPES and x != "auto" or x in ("unsigned", "signed"):
            # functional cast: int(x), unsigned long(x) etc.
            k = self.i
            while k < self.hi and self.toks[k].kind == "id" and self.toks[k].text in _BUILTIN_TYPES:
                k += 1
            name = self.text(self.i, k)
            self.i = k
            return Id(name, None, ti=ti)
        if x in _STMT_KW and x not in ("this",):
            raise ParseError("unexpected keyword in expression", t)
        # qualified-id with template args
        parts: List[str] = []
        targs: Optional[str] = None
        while True:
            t = self.cur()
            if t.kind == "id" and t.text == "template":
                self.i += 1
                continue
            if t.kind == "op" and t.text == "~":
                self.i += 1
                parts.append("~" + self.cur().text)
                self.i += 1
                break
            if t.kind != "id":
                raise ParseError("identifier expected", t)
            if t.text == "operator":
                self.i += 1
                name = "operator"
                if self.at_id("new") or self.at_id("delete"):
                    name += " " + self.cur().text
                    self.i += 1
                while self.i < self.hi and self.toks[self.i].kind == "op" and self.toks[self.i].text != "(":
                    name += self.toks[self.i].text
                    self.i += 1
                if name == "operator" and self.at_op("(") and self.toks[self.i + 1].text == ")":
                    self.i += 2
                    name = "operator()"
                parts.append(name)
                break
            parts.append(t.text)
            self.i += 1
            targs = None
            if self.i < self.hi and self.toks[self.i].kind == "op" and self.toks[self.i].text == "<":
                end = self._template_follows(self.i)
                if end > 0:
                    targs = self.text(self.i + 1, end - 1)
                    self.i = end
            if self.i < self.hi and self.toks[self.i].text == "::" and self.toks[self.i].kind == "op":
                if targs is not None:
                    parts[-1] = parts[-1] + "<" + targs + ">"
                    targs = None
                self.i += 1
                continue
            break
        return Id("::".join(parts), targs, ti=ti)

    def _fold_split(self, lo: int, close: int):
        """Detect '( pack op ... )', '( ... op pack )', '( a op ... op b )'. Returns (op, [(lo,hi)...]) or None."""
        toks = self.toks
        k = lo
        while k < close:
            t = toks[k]
            if t.kind == "op" and t.text in "([{":
                k = self.match[k] + 1
                continue
            if t.kind == "op" and t.text == "...":
                left_op = toks[k - 1] if k - 1 >= lo else None
                right_op = toks[k + 1] if k + 1 < close else None
                lop = left_op is not None and left_op.kind == "op" and (left_op.text in _BINPREC or left_op.text in (",",) or left_op.text in _ASSIGN)
                rop = right_op is not None and right_op.kind == "op" and (right_op.text in _BINPREC or right_op.text in (",",) or right_op.text in _ASSIGN)
                if lop and rop:
                    return left_op.text, [(lo, k - 1), (k + 2, close)]
                if lop and k + 1 == close:
                    return left_op.text, [(lo, k - 1)]
                if rop and k == lo:
                    return right_op.text, [(k + 2, close)]
            k += 1
        return None

    def _lambda(self) -> Node:
        ti = self.i
        ob = self.expect("[")
        close = self.match[ob]
        captures = self.text(ob + 1, close)
        self.i = close + 1
        self._skip_pp()
        if self.at_op("<"):
            end = self._angle_end(self.i, self.hi)
            if end < 0:
                raise ParseError("lambda template params", self.cur())
            self.i = end
        params: List[Tuple[str, str]] = []
        if self.at_op("("):
            pc = self.match[self.i]
            params = split_params(self.fi, self.i, pc)
            for _, nm in params:
                if nm:
                    self.locals.add(nm)
            self.i = pc + 1
        specs_start = self.i
        # specifiers, trailing return type until '{'
        while not self.at_op("{"):
            t = self.cur()
            if t.kind == "op" and t.text in ("(", "["):
                self.i = self.match[self.i] + 1
                continue
            if t.kind == "op" and t.text in (";", ")", "}", ","):
                raise ParseError("lambda body expected", t)
            self.i += 1
        specs = self.text(specs_start, self.i)
        bo = self.i
        bclose = self.match[bo]
        self.i = bo + 1
        body = self.parse_block_body(bclose)
        body.ti = bo
        self.i = bclose + 1
        return Lambda(captures, params, body, specs, ti=ti)

    def _postfix(self, e: Node) -> Node:
        while True:
            self._skip_pp()
            if self.i >= self.hi:
                return e
            t = self.toks[self.i]
            if t.kind != "op":
                # user-defined literal suffix handled in lexer as part of num; nothing here
                return e
            x = t.text
            ti = self.i
            if x == "(":
                close = self.match[self.i]
                self.i += 1
                args = self._arg_list(close)
                self.i = close + 1
                e = Call(e, args, ti=ti)
            elif x == "[":
                close = self.match[self.i]
                self.i += 1
                args = self._arg_list(close)
                self.i = close + 1
                e = Index(e, args, ti=ti)
            elif x == "{":
                if isinstance(e, (Id,)) or (isinstance(e, Member) and False):
                    e = self._braced_init(e)
                else:
                    return e
            elif x in (".", "->"):
                self.i += 1
                if self.at_id("template"):
                    self.i += 1
                t2 = self.cur()
                if t2.kind == "op" and t2.text == "~":
                    self.i += 1
                    nm = "~" + self.cur().text
                    self.i += 1
                elif t2.kind == "id" and t2.text == "operator":
                    self.i += 1
                    nm = "operator"
                    while self.toks[self.i].kind == "op" and self.toks[self.i].text != "(":
                        nm += self.toks[self.i].text
                        self.i += 1
                    if nm == "operator" and self.at_op("("):
                        self.i += 2
                        nm = "operator()"
                elif t2.kind == "id":
                    nm = t2.text
                    self.i += 1
                    # qualified member a.B::c
                    while self.at_op("::"):
                        self.i += 1
                        nm += "::" + self.cur().text
                        self.i += 1
                else:
                    raise ParseError("member name expected", t2)
                targs = None
                if self.i < self.hi and self.toks[self.i].kind == "op" and self.toks[self.i].text == "<":
                    # member template call: require '(' after '>'
                    end = self._angle_end(self.i, self.hi)
                    if end > 0 and end < self.hi and self.toks[end].text == "(" and nm not in self.locals:
                        targs = self.text(self.i + 1, end - 1)
                        self.i = end
                e = Member(e, nm, x == "->", targs, ti=ti)
            elif x in ("++", "--"):
                self.i += 1
                e = Postfix(x, e, ti=ti)
            elif x == "...":
                return e
            else:
                return e


def split_params(fi: FileIndex, po: int, pc: int) -> List[Tuple[str, str]]:
    """Split a parameter list into (type text, name)."""
    toks = fi.toks
    out: List[Tuple[str, str]] = []
    k = po + 1
    seg: List[int] = []
    segs: List[List[int]] = []
    while k < pc:
        t = toks[k]
        if t.kind == "pp":
            k += 1
            continue
        if t.kind == "op" and t.text in "([{":
            seg.extend(range(k, fi.match[k] + 1))
            k = fi.match[k] + 1
            continue
        if t.kind == "op" and t.text == "<" and toks[k - 1].kind == "id":
            e = fi._skip_angle(k, pc)
            if e > 0:
                seg.extend(range(k, e))
                k = e
                continue
        if t.kind == "op" and t.text == ",":
            segs.append(seg)
            seg = []
        else:
            seg.append(k)
        k += 1
    if seg:
        segs.append(seg)
    for s in segs:
        # drop default argument
        cut = len(s)
        depth = 0
        for pos, idx in enumerate(s):
            if toks[idx].text == "=" and toks[idx].kind == "op":
                # only at depth 0: we flattened nested groups, so check bracket nesting by match
                inside = any(toks[j].kind == "op" and toks[j].text in "([{" and fi.match[j] > idx for j in s[:pos])
                if not inside:
                    cut = pos
                    break
        s2 = s[:cut]
        if not s2:
            continue
        # function pointer param: type (*name)(...)
        name = ""
        for pos, idx in enumerate(s2):
            if toks[idx].text == "(" and pos + 2 < len(s2) and toks[s2[pos + 1]].text == "*" and toks[s2[pos + 2]].kind == "id":
                name = toks[s2[pos + 2]].text
                break
        if not name:
            last = toks[s2[-1]]
            if last.kind == "id" and len(s2) > 1 and last.text not in _BUILTIN_TYPES and toks[s2[-2]].text != "::":
                name = last.text
                ty = " ".join(toks[j].text for j in s2[:-1])
            else:
                ty = " ".join(toks[j].text for j in s2)
        else:
            ty = " ".join(toks[j].text for j in s2)
        out.append((ty, name))
    return out


def parse_function(fi: FileIndex, fd: FuncDef, known_templates: Optional[Set[str]] = None,
                   tolerant: bool = True) -> FuncAST:
    p = Parser(fi, fd.body[0] + 1, fd.body[1], known_templates, tolerant)
    params = split_params(fi, fd.params[0], fd.params[1])
    for _, nm in params:
        if nm:
            p.locals.add(nm)
    body = p.parse_block_body(fd.body[1])
    body.ti = fd.body[0]
    return FuncAST(fd, fi, body, params, p.opaque)


def parse_expr_range(fi: FileIndex, lo: int, hi: int) -> Node:
    p = Parser(fi, lo, hi, None, False)
    if p.at_op("{"):
        e = p._braced_init(None)
    else:
        e = p.expression()
    return e
