"""Alpha-normalisation of local names (robustness against behaviour-preserving renames).

Many rule instances name locals of the analysed function (`full_scan`, `resuming`, `when`, ...).  Renaming a local changes
nothing about the program, so it must not change a verdict.  Instead of rewriting every rule, the front-end normalises the
SOURCE it hands to the rules: for every function the rules analyse, `locals_baseline.json` records the function's locals
(parameters, declarations, structured bindings, lambda parameters, range-for and catch names) with a NAME-INDEPENDENT
signature (kind + canonical initialiser with every local replaced by a placeholder + declaration order among equal
signatures).  When the current tree's function has the same multiset of signatures but different spellings, the locals are
renamed back to the baseline spelling (token-level, inside that function's extent only, collision-checked).  Alpha-renaming
is semantics-preserving, so the rules analyse a program equivalent to the one on disk; if anything does not line up
(different number of locals with a signature, a collision) nothing is renamed and the rules see the file as it is.

HGV_NO_NORMALISE=1 switches the pass off (used by tools/twin_rename.py to measure what it buys)."""
from __future__ import annotations

import json
import os
import re
from typing import Dict, List, Optional, Tuple

from . import cparse as C
from .canon import Canon

BASELINE = os.path.join(os.path.dirname(os.path.abspath(__file__)), "locals_baseline.json")
_ID = re.compile(r"[A-Za-z_]\w*")
_baseline_cache: Optional[Dict[str, list]] = None


def load_baseline() -> Dict[str, list]:
    global _baseline_cache
    if _baseline_cache is None:
        try:
            with open(BASELINE) as fh:
                _baseline_cache = json.load(fh)
        except Exception:
            _baseline_cache = {}
    return _baseline_cache


def fkey(fd) -> str:
    return f"{fd.file}::{fd.qual}"


def local_entries(fa: C.FuncAST) -> List[Tuple[str, str]]:
    """[(name, signature)] in order of appearance.  The signature does not depend on any local's spelling."""
    cn = Canon()
    raw: List[Tuple[str, str, str]] = []  # (name, kind, text)
    for i, (ty, nm) in enumerate(fa.params):
        if nm:
            raw.append((nm, "param", str(i)))
    lam_no = 0
    for n in fa.body.walk():
        if isinstance(n, C.Decl):
            for d in n.decls:
                init = cn(d.init) if d.init is not None else ""
                if d.bindings:
                    for k, b in enumerate(d.bindings):
                        raw.append((b, "bind", f"{k}:{init}"))
                elif d.name:
                    raw.append((d.name, "decl", f"{'&' if d.ref else ''}{'*' if d.ptr else ''}{init}"))
        elif isinstance(n, C.Lambda):
            for k, (ty, nm) in enumerate(n.params):
                if nm:
                    raw.append((nm, "lparam", f"{lam_no}:{k}"))
            lam_no += 1
        elif isinstance(n, C.RangeFor):
            for k, nm in enumerate(n.names or []):
                if nm:
                    raw.append((nm, "for", f"{k}:{cn(n.range)}"))
        elif isinstance(n, C.Handler):
            if n.name:
                raw.append((n.name, "catch", ""))
    names = {nm for nm, _, _ in raw}
    out: List[Tuple[str, str]] = []
    for nm, kind, text in raw:
        def repl(m, text=text):
            if m.group(0) not in names:
                return m.group(0)
            i = m.start()
            if i > 0 and (text[i - 1] == "." or text[i - 2:i] in ("->", "::")):
                return m.group(0)  # a member / qualified name that merely spells like a local
            j = m.end()
            if text[j:j + 2] == "::":
                return m.group(0)
            return "§"
        # never touch the inside of string / character literals
        parts = re.split(r'("(?:[^"\\]|\\.)*"|\'(?:[^\'\\]|\\.)*\')', text)
        sig = kind + "|"
        for idx, part in enumerate(parts):
            if idx % 2 == 1:
                sig += part
            else:
                sig += _ID.sub(lambda m, text=part: repl(m, text), part)
        out.append((nm, sig))
    return out


def rename_map(base: List[List[str]], cur: List[Tuple[str, str]]) -> Dict[str, str]:
    """current spelling -> baseline spelling, for locals that line up by signature and order."""
    by_sig_b: Dict[str, List[str]] = {}
    by_sig_c: Dict[str, List[str]] = {}
    for nm, sig in base:
        by_sig_b.setdefault(sig, []).append(nm)
    for nm, sig in cur:
        by_sig_c.setdefault(sig, []).append(nm)
    if set(by_sig_b) != set(by_sig_c) or any(len(by_sig_b[s]) != len(by_sig_c[s]) for s in by_sig_b):
        return {}
    m: Dict[str, str] = {}
    for sig, bl in by_sig_b.items():
        for b, c in zip(bl, by_sig_c[sig]):
            if m.get(c, b) != b:
                return {}  # one spelling used for two different baseline locals: do not guess
            m[c] = b
    m = {c: b for c, b in m.items() if c != b}
    return m


def normalise_text(text: str, fi, funcs_with_maps: List[Tuple[object, Dict[str, str]]]) -> str:
    """Apply the per-function rename maps on the token stream of the file (line/column edits; line numbers are preserved)."""
    lines = text.split("\n")
    edits: List[Tuple[int, int, str, str]] = []
    toks = fi.toks
    for fd, m in funcs_with_maps:
        if not m or fd.body is None:
            continue
        a = fd.params[0] if getattr(fd, "params", None) else fd.body[0]
        b = fd.body[1]
        present = {toks[k].text for k in range(a, b + 1) if toks[k].kind == "id" and toks[k - 1].text not in (".", "->", "::")
                   and (k + 1 >= len(toks) or toks[k + 1].text != "::")}
        # collision: a target spelling already used in the function by something that is not itself renamed away
        if any(bn in present and bn not in m for bn in m.values()):
            continue
        if len(set(m.values())) != len(m):
            continue
        for k in range(a, b + 1):
            tk = toks[k]
            if tk.kind != "id" or tk.text not in m:
                continue
            prev = toks[k - 1].text if k > 0 else ""
            nxt = toks[k + 1].text if k + 1 < len(toks) else ""
            if prev in (".", "->", "::") or nxt == "::":
                continue
            edits.append((tk.line, tk.col, tk.text, m[tk.text]))
    if not edits:
        return text
    for line, col, old, new in sorted(edits, reverse=True):
        s = lines[line - 1]
        c = None
        for cand in (col - 1, col):
            if 0 <= cand and s[cand:cand + len(old)] == old:
                c = cand
                break
        if c is None:
            return text  # positions do not line up: leave the file alone
        lines[line - 1] = s[:c] + new + s[c + len(old):]
    return "\n".join(lines)


def normalise_file(rel: str, text: str, lex, FileIndex) -> Optional[str]:
    """Return the normalised text of `rel`, or None if nothing is to be renamed."""
    if os.environ.get("HGV_NO_NORMALISE") == "1":
        return None
    base = load_baseline()
    wanted = {k: v for k, v in base.items() if k.startswith(rel + "::")}
    if not wanted:
        return None
    fi = FileIndex(rel, lex(text, rel))
    todo = []
    seen: Dict[str, int] = {}
    for fd in fi.funcs:
        if fd.body is None:
            continue
        key = fkey(fd)
        n = seen.get(key, 0)
        seen[key] = n + 1
        key_n = key if n == 0 else f"{key}#{n}"
        if key_n not in wanted:
            continue
        try:
            fa = C.parse_function(fi, fd)
        except Exception:
            continue
        m = rename_map(wanted[key_n], local_entries(fa))
        if m:
            todo.append((fd, m))
    if not todo:
        return None
    new = normalise_text(text, fi, todo)
    return None if new == text else new
