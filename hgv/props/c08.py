"""C08 - Feedback delivers each value exactly one smallest time step later."""
from __future__ import annotations

import re

from .. import cparse as C
from ..index import AnalysisError
from ..k1 import ANY, Expect, Role
from ..report import Run
from .. import rules as R

ID = "C08"
FB = "src/hgraph/runtime/feedback_node.cpp"
CTL = "include/hgraph/lib/std/operators/control.h"
GRAPH = "src/hgraph/runtime/graph.cpp"

TECHNIQUE = ("ordering + argument-term rules on the feedback sink (K2/K6), slot wiring of the source/sink builders (K5), decision table of "
             "the delivery mechanism (K1, shared with C02.a), who-creates rule for the source node (K4)")
EXPLANATION = (
    "Decides from feedback_node.cpp / control.h: the sink writes the producer's delta into the source node's state (copy, else "
    "replace with a captured delta) BEFORE it schedules the source, exactly once, at exactly NOW + MIN_TD, on the source node recovered "
    "from its second input; the sink is driven by the producer only (active/valid inputs = {0}, kind Sink), so a passive reader loop "
    "quiesces; the source emits exactly the stored delta (apply_delta(output(NOW), state)), is a PullSource, and schedules itself at the "
    "start time iff it has an initial delta; the source is created by add_unique_node (two feedbacks of one schema stay distinct) and the "
    "sink adds no output, hence no same-cycle edge from writer to reader; the slot rule that makes the +MIN_TD schedule fire exactly then "
    "is the C02.a table (shared). Not decided: no loss when a later write lands before the pending emission for an arbitrary producer; "
    "collection-shaped delta content (C05/C20).")
ASSUMPTIONS = ["capture_delta/apply_delta round-trip a delta (C20)", "times are multiples of MIN_TD"]
DECIDED = ["a sink: state written, then source scheduled once at NOW+MIN_TD", "b sink driven by the producer only", "c source emits the stored delta",
           "d no same-cycle edge; unique source", "e delivery slot rule (shared C02.a)",
           'h switch_ remembers the running key (= C12.n)', 'i owners record the next wake-up of every evaluated child (= C09.d)']
NOT_DECIDED = ["overwrite before emission for arbitrary producers", "delta content of collections"]


def check(run: Run) -> None:
    t = run.tree

    with run.obligation("C08.a", "K2+K6", "evaluate_feedback_sink: state of the source node is written before the single "
                        "schedule_node(source.node_index(), NOW + MIN_TD)"):
        fa = R.fn(run, FB, "evaluate_feedback_sink")
        roles = [Role("NOW", "t", r"evaluation_time"), Role("NOW1", "t", None, succ_of="NOW"),
                 Role("SRCBAD", "bool", r".*owner_node\(\)\.valid\(\)"), Role("HASSTATE", "bool", r".*owner_node\(\)\.has_state\(\)"),
                 Role("COPIED", "bool", r"try_copy_feedback_state\(.*\)"),
                 Role("NOGRAPH", "bool", r".*owner_node\(\)\.graph_value\(\)==nullptr|nullptr==.*owner_node\(\)\.graph_value\(\)")]

        def spec(v):
            if not v.b("SRCBAD"):
                return Expect(throws=True)
            if not v.b("HASSTATE"):
                return Expect(throws=True)
            calls = []
            if not v.b("COPIED"):
                calls.append(("REPLACE", (ANY,)))
            if v.b("NOGRAPH"):
                return Expect(throws=True, calls=calls, stores_on_throw=True)
            calls.append(("SCHEDULE", (("sym", r".*owner_node\(\)\.node_index\(\)"), "NOW1")))
            return Expect(calls=calls)
        R.k1(run, "C08.a", fa, roles, spec, role_calls={"REPLACE": r".*owner_node\(\)\.replace_state", "SCHEDULE": r".*graph_value\(\)->schedule_node"},
             what="evaluate_feedback_sink")
        cn = R.aliases_of(fa)
        fl = R.flow(run, fa)
        R.k2_precede(run, "C08.a", fl, R.call_is(name="try_copy_feedback_state"), R.call_is(name="schedule_node"),
                     "the feedback state is written before the source is scheduled")
        # value from slot 0, source node from slot 1's bound output
        ds = {d.name: cn(d.init) for d in R.find(fa, lambda n: isinstance(n, C.Declarator) and n.init is not None)}
        run.count(1, "C08.a.slots")
        want = {"ts": "bundle[0]", "ts_self": "bundle[1]", "source_out": "ts_self.bound_output()", "source_node": "source_out.owner_node()"}
        got = {k: ds.get(k) for k in want}
        if got != want:
            run.finding("C08.a", "evaluate_feedback_sink:slots", f"the value must come from slot 0 and the source node from slot 1's bound output: {got}", loc=FB)
        tc = R.calls(fa, "try_copy_feedback_state")
        cd = R.calls(fa, "capture_delta")
        if len(tc) != 1 or cn(tc[0].args[1]) != "ts.delta_value()" or len(cd) != 1 or cn(cd[0].args[0]) != "ts":
            run.finding("C08.a", "evaluate_feedback_sink:value", "the stored delta must be the producer input's (ts) delta", loc=FB)
        if R.loops(fa):
            run.finding("C08.a", "evaluate_feedback_sink:loop", "the sink schedules in a loop", loc=FB)

    with run.obligation("C08.b", "K6", "make_feedback_sink_node: active_inputs == {0}, valid_inputs == {0}, kind Sink, evaluate = evaluate_feedback_sink"):
        fa = R.fn(run, FB, "make_feedback_sink_node")
        sl = R.slot_assignments(fa)
        want = {"node_schema.node_kind": "NodeKind::Sink", "node_schema.active_inputs": "std::vector<std::size_t>{0}",
                "node_schema.valid_inputs": "std::vector<std::size_t>{0}", "callbacks.evaluate": "&evaluate_feedback_sink"}
        run.sites(len(sl), 4, "sink builder assignments")
        for k, v in want.items():
            run.count(1)
            if sl.get(k) != v:
                run.finding("C08.b", f"make_feedback_sink_node:{k}", f"{k} must be {v}, is {sl.get(k)}", loc=FB)
        if "node_schema.output_schema" in sl:
            run.finding("C08.b", "make_feedback_sink_node:output", "the feedback sink must not have an output (no same-cycle edge to the reader)", loc=FB)
        # every tick of the producer is a written value to deliver: the sink's evaluation gate is exactly "input 0 valid", nothing stronger
        for k in ("node_schema.all_valid_inputs", "node_schema.structural_inputs"):
            run.count(1)
            if k in sl and sl[k] not in ("std::vector<std::size_t>{}", "{}", "std::nullopt"):
                run.finding("C08.b", f"make_feedback_sink_node:{k}", f"{k} = {sl[k]}: a stronger gate than 'the producer input is valid' makes the sink skip producer "
                            "ticks (e.g. a bundle / list of which only some elements have ticked): written values are never delivered", loc=FB)

    with run.obligation("C08.c", "K5+K6", "make_feedback_source_node: PullSource whose evaluate applies exactly the stored delta to its output; start "
                        "hook set iff an initial delta exists and schedules (node_index, start_time) after loading the state"):
        fa = R.fn(run, FB, "make_feedback_source_node")
        sl = R.slot_assignments(fa)
        want = {"schema.node_kind": "NodeKind::PullSource", "callbacks.evaluate": "&evaluate_feedback_source",
                "schema.output_schema": "&output_schema", "schema.state_schema": "output_schema.delta_value_schema"}
        for k, v in want.items():
            run.count(1)
            if sl.get(k) != v:
                run.finding("C08.c", f"make_feedback_source_node:{k}", f"{k} must be {v}, is {sl.get(k)}", loc=FB)
        cn = R.aliases_of(fa)
        st = [s for s in fa.body.walk() if isinstance(s, C.If) and cn(s.cond) == "has_initial_delta"]
        okst = any(any(isinstance(n, C.Binary) and n.op == "=" and cn(n.l) == "callbacks.start" and cn(n.r) == "&start_feedback_source_with_initial_delta"
                       for n in s.then.walk()) for s in st)
        uncond = [n for n in fa.body.stmts if isinstance(n, C.ExprStmt) and isinstance(n.e, C.Binary) and cn(n.e.l) == "callbacks.start"]
        if not okst or uncond:
            run.finding("C08.c", "make_feedback_source_node:start", "the start hook must be installed iff has_initial_delta", loc=FB)
        fa = R.fn(run, FB, "evaluate_feedback_source")
        cn = R.aliases_of(fa)
        cs = R.calls(fa)
        app = [c for c in cs if R.callee_name(c) == "apply_delta"]
        run.count(1, "C08.c.eval")
        # exactly one apply_delta(output(NOW), state), unconditional (a top-level statement with no return before it), and the output
        # is not touched anywhere else in the function
        top = [i for i, s0 in enumerate(fa.body.stmts) if app and any(x is app[0] for x in s0.walk())]
        uncond = bool(top) and isinstance(fa.body.stmts[top[0]], (C.ExprStmt, C.Return)) and \
            not any(isinstance(x, (C.Return, C.Throw)) for s0 in fa.body.stmts[:top[0]] for x in s0.walk())
        other_out = [c for c in cs if c is not (app[0] if app else None) and "view.output(" in cn(c) and not (app and any(x is c for x in app[0].walk()))]
        if len(app) != 1 or [cn(a) for a in app[0].args] != ["view.output(evaluation_time)", "view.state()"] or not uncond or other_out:
            run.finding("C08.c", "evaluate_feedback_source", "the source must emit exactly apply_delta(view.output(NOW), view.state())", loc=FB)
        fa = R.fn(run, FB, "start_feedback_source_with_initial_delta")
        fl = R.flow(run, fa)
        R.k2_precede(run, "C08.c", fl, R.call_is(name="try_copy_feedback_state"), R.call_is(name="schedule_node"),
                     "initial delta loaded into the state before the start-time schedule")
        sc = R.calls(fa, "schedule_node")
        cn = R.aliases_of(fa)
        if len(sc) != 1 or [cn(a) for a in sc[0].args] != ["view.node_index()", "start_time"]:
            run.finding("C08.c", "start_feedback_source:schedule", "the source must schedule (its own index, start_time)", loc=FB)

    with run.obligation("C08.d", "K4", "the feedback source is created by add_unique_node; binding passes both ports as inputs of the sink only"):
        txt = t.read(CTL)
        fi = t.file(CTL)
        mf = [f for f in fi.funcs if f.name == "make_feedback"]
        run.sites(len(mf), 1, "make_feedback")
        fa = R.parse(run, mf[0])
        cn = R.aliases_of(fa)
        au = R.calls(fa, "add_unique_node")
        an = R.calls(fa, "add_node")
        run.count(1)
        if len(au) != 1 or an:
            run.finding("C08.d", "make_feedback:unique", "the feedback source must be created with add_unique_node (never interned)", loc=CTL)
        mk = R.calls(fa, "make_feedback_source_node")
        if len(mk) != 1 or cn(mk[0].args[1]) != "has_initial_delta":
            run.finding("C08.d", "make_feedback:builder", "the source builder must receive has_initial_delta", loc=CTL)
        # the binder wires the sink with (ts, ts_self = source port)
        sinks = [f for f in fi.funcs if "make_feedback_sink_node" in fi.text(f.body[0], f.body[1])]
        run.sites(len(sinks), 1, "sink wiring site")
        for fd in sinks:
            fa = R.parse(run, fd)
            cn = R.aliases_of(fa)
            adds = [c for c in R.calls(fa) if R.callee_name(c) in ("add_node", "add_unique_node", "add_sink_node")]
            run.count(1)
            if not adds:
                run.finding("C08.d", f"{fd.qual}:sink-wiring", "feedback binding no longer adds the sink node", loc=CTL)

    with run.obligation("C08.e", "K1", "delivery: a schedule at NOW+MIN_TD replaces the slot iff consumed or earlier and lowers the cache (C02.a table)"):
        from . import c02
        fa = R.fn(run, GRAPH, "schedule_node_impl")
        roles = c02.graph_roles(r"graph_schedule\(.*,node_index\)") + [
            Role("I", "i", r"node_index"), Role("CNT", "i", r"graph_context\(context\)\.layout\.node_count")]

        def spec(v):
            if v.ge("I", "CNT"):
                return Expect(throws="out_of_range")
            if v.lt("W", "NOW"):
                return Expect(throws=True)
            st = {}
            if v.le("SLOT", "NOW") or v.lt("W", "SLOT"):
                st["SLOT"] = "W"
                if v.gt("W", "NOW") and v.lt("W", "NEXT"):
                    st["NEXT"] = "W"
            return Expect(stores=st)
        R.k1(run, "C08.e", fa, roles, spec, what="graph scheduler slot/cache rule")

    with run.obligation("C08.f", "K2+K1+K9", "a reader marked passive() really is passive: each passive slot is removed from the node's active list before "
                        "the node identity is computed and the marker survives canonicalisation/interning, so a loop closed through a passive "
                        "feedback reader is not re-woken by the delivery (shared with C03.e, C03.e2, C03.e3)"):
        from . import c03
        sub = Run("C08", run.tier, run.tree, quiet=True)
        sub.is_sub = True
        if not getattr(run, "is_sub", False):
            c03.check(sub)
        run.evaluations += sub.evaluations
        run.count(1, "C08.f")
        for f in sub.findings:
            if f.rule in ("C03.e", "C03.e2", "C03.e3"):
                run.finding("C08.f", f.key, f.message, f.loc)
        for e in sub.errors:
            if e.startswith("C03.e"):
                raise AnalysisError("model-mismatch", e)

    with run.obligation("C08.g", "K2+K1", "the delivery wake-up (one smallest step later) booked inside a wrapped or paused sub-graph reaches its owner: try_except propagates "
                        "the child's schedule after a captured failure too, and a resumed graph cycle keeps the earliest wake-up it had already collected "
                        "(shared with C15.c, C02.c)"):
        from . import c15, c02
        R.share(run, "C08.g", c15, ["C15.c"])
        R.share(run, "C08.g", c02, ["C02.c"])

    with run.obligation("C08.h", "K2", "a feedback loop inside a switch_ branch keeps its state while the key is unchanged: the running branch is rebuilt only on a key CHANGE, which "
                        "needs the switch to remember the key of the branch it runs (shared with C12.n: the key is recorded after the old branch was retired) - a rebuilt "
                        "branch loses the in-flight feedback value and delivers the declared initial value a second time"):
        from . import c12
        R.share(run, "C08.h", c12, ["C12.n"])

    with run.obligation("C08.i", "K7", "a feedback written inside a keyed child (map_) is delivered one step later even when the delivery cycle is busy with OTHER keys: the owner records "
                        "the next wake-up of every child it evaluated (not only of the ones it skipped), so the input-event fast path of the next cycle still visits the child "
                        "whose feedback source is due (shared with C09.d)"):
        from . import c09
        R.share(run, "C08.i", c09, ["C09.d"])


VARIANTS = [
    {"id": "b-sink-requires-all-valid", "expect": "C08.b", "edits": [{"file": FB, "find": "        node_schema.valid_inputs  = std::vector<std::size_t>{0};", "replace": "        node_schema.valid_inputs  = std::vector<std::size_t>{0};\n        node_schema.all_valid_inputs = std::vector<std::size_t>{0};"}]},
    {"id": "f-passive-erase-by-position", "expect": "C08.f", "edits": [{"file": "src/hgraph/runtime/node.cpp", "find": "std::erase(active, slot);", "replace": "active.erase(active.begin() + static_cast<std::ptrdiff_t>(slot));"}]},
    {"id": "a-same-cycle", "expect": "C08.a", "edits": [{"file": FB, "find": "graph->schedule_node(source_node.node_index(), evaluation_time + MIN_TD);", "replace": "graph->schedule_node(source_node.node_index(), evaluation_time);"}]},
    {"id": "a-two-steps", "expect": "C08.a", "edits": [{"file": FB, "find": "graph->schedule_node(source_node.node_index(), evaluation_time + MIN_TD);", "replace": "graph->schedule_node(source_node.node_index(), evaluation_time + MIN_TD + MIN_TD);"}]},
    {"id": "a-schedule-before-state", "expect": "C08.a", "edits": [{"file": FB, "find": "            const ValueView state = source_node.state();\n            if (!try_copy_feedback_state(state, ts.delta_value()))\n            {\n                source_node.replace_state(capture_delta(ts));\n            }\n\n            GraphValue *graph = source_node.graph_value();\n            if (graph == nullptr)\n            {\n                throw std::logic_error(\"feedback sink target node is not attached to a graph\");\n            }\n            graph->schedule_node(source_node.node_index(), evaluation_time + MIN_TD);", "replace": "            GraphValue *graph = source_node.graph_value();\n            if (graph == nullptr)\n            {\n                throw std::logic_error(\"feedback sink target node is not attached to a graph\");\n            }\n            graph->schedule_node(source_node.node_index(), evaluation_time + MIN_TD);\n            const ValueView state = source_node.state();\n            if (!try_copy_feedback_state(state, ts.delta_value()))\n            {\n                source_node.replace_state(capture_delta(ts));\n            }"}]},
    {"id": "a-wrong-slot", "expect": "C08.a", "edits": [{"file": FB, "find": "            auto ts      = bundle[0];\n            auto ts_self = bundle[1];", "replace": "            auto ts      = bundle[1];\n            auto ts_self = bundle[1];"}]},
    {"id": "b-reader-wakes-sink", "expect": "C08.b", "edits": [{"file": FB, "find": "node_schema.active_inputs = std::vector<std::size_t>{0};", "replace": "node_schema.active_inputs = std::vector<std::size_t>{0, 1};"}]},
    {"id": "c-start-always", "expect": "C08.c", "edits": [{"file": FB, "find": "if (has_initial_delta) { callbacks.start = &start_feedback_source_with_initial_delta; }", "replace": "callbacks.start = &start_feedback_source_with_initial_delta;"}]},
    {"id": "d-interned-source", "expect": "C08.d", "edits": [{"file": CTL, "find": "            WiringPortRef ref = w.add_unique_node(\n                std::type_index(typeid(feedback_source_node_tag)),", "replace": "            WiringPortRef ref = w.add_node(\n                std::type_index(typeid(feedback_source_node_tag)),"}]},
    {"id": "a-twin-commuted", "expect": None, "edits": [{"file": FB, "find": "evaluation_time + MIN_TD);", "replace": "MIN_TD + evaluation_time);"}]},
]
