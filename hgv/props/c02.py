"""C02 - Simulation honours every scheduled wake-up at exactly its time, in order."""
from __future__ import annotations

from .. import cparse as C
from ..index import AnalysisError
from ..k1 import ANY, Expect, Role
from ..report import Run
from .. import rules as R

ID = "C02"
GRAPH = "src/hgraph/runtime/graph.cpp"
EXEC = "src/hgraph/runtime/executor.cpp"
NODE = "src/hgraph/runtime/node.cpp"
SCHED = "include/hgraph/runtime/node_scheduler.h"

TECHNIQUE = ("static decision-table extraction (K1/K6: guards evaluated over every weak ordering of the time roles), "
             "loop-shape (K3) and must-precede path rules (K2) on a source-level CFG")
EXPLANATION = (
    "Decides, from the C++ source of graph.cpp / executor.cpp / node.cpp / node_scheduler.h, the structural clauses that the "
    "property rests on: the graph slot replacement + next-time cache table (schedule_node_impl), cache seeding after start, "
    "cache fold during the evaluation scan, the simulation run loop's leave/evaluate table, advance_simulation's time term "
    "min(pending ? NOW+MIN_TD : next, END), validate_times, and the node-scheduler re-arm after every node evaluation. "
    "Each table is compared with the documented rule over ALL weak orderings of the times involved (exhaustive for that "
    "clause). It does not decide that arbitrary user nodes request the right times, nor whole-run trace equality.")
ASSUMPTIONS = [
    "functions outside the analysed set behave as their names say (std::min/max, container empty/begin, atomic load)",
    "no undefined behaviour; DateTime comparisons are the built-in chrono ordering",
    "times are multiples of MIN_TD, so x+MIN_TD is the immediate successor of x",
]
DECIDED = ["a slot/cache table", "b seeding after start", "c fold during scan", "d run loop table", "e advance_simulation term",
           "f wall clock does not reach simulation time", "g node scheduler re-arm", "i validate_times",
           'l a failed child cycle is not resumed (= C01.d2)', "m try_except pulls the child's schedule on the failing exit too (= C15.c)",
           'n the active switch_ branch is evaluated on every visit (= C12.a)', 'o start-cycle schedule written after the user start hook (= C03.f)']
NOT_DECIDED = ["that user nodes request the times they should", "wall-clock now() values", "whole-run trace equality"]

HDR = r"graph_header\(.*\)"
EVALRX = r"(node_view|graph_node_view\(.*\))\.evaluate"


def graph_roles(slot_pat: str):
    return [
        Role("W", "t", r"when"),
        Role("NOW", "t", HDR + r"\.evaluation_time|evaluation_time"),
        Role("SLOT", "t", slot_pat, lvalue=True),
        Role("NEXT", "t", HDR + r"\.next_scheduled_time", lvalue=True),
    ]


def check(run: Run) -> None:
    t = run.tree

    # ---- a. schedule_node_impl --------------------------------------------------------------
    with run.obligation("C02.a", "K1", "graph slot is replaced iff consumed or the new time is earlier; cache lowered iff "
                        "slot replaced and NOW < WHEN < NEXT; scheduling in the past throws"):
        fa = R.fn(run, GRAPH, "schedule_node_impl")
        roles = graph_roles(r"graph_schedule\(.*,node_index\)") + [
            Role("I", "i", r"node_index"), Role("CNT", "i", r"graph_context\(context\)\.layout\.node_count")]

        def spec(v):
            if v.ge("I", "CNT"):
                return Expect(throws="out_of_range")
            if v.lt("W", "NOW"):
                return Expect(throws=True)
            st = {}
            if v.le("SLOT", "NOW") or v.lt("W", "SLOT"):
                st["SLOT"] = "W"
                if v.gt("W", "NOW") and v.lt("W", "NEXT"):
                    st["NEXT"] = "W"
            return Expect(stores=st)
        R.k1(run, "C02.a", fa, roles, spec, what="graph scheduler slot/cache rule")

    # ---- b. seeding after start ---------------------------------------------------------------
    with run.obligation("C02.b", "K1+K3+K2", "after node start hooks the cache is rebuilt from ALL slots: NEXT:=MAX_DT, "
                        "then for every index NEXT:=s iff s>=NOW and s<NEXT; started:=true only afterwards"):
        fa = R.fn(run, GRAPH, "start_impl")
        cn = R.aliases_of(fa)
        seed_loops = [l for l in R.loops(fa, into_lambdas=False)
                      if isinstance(l, C.For) and R.find(l.body, lambda n: isinstance(n, C.Binary) and n.op == "=" and
                                                        cn(n.l).endswith(".next_scheduled_time"))]
        run.sites(len(seed_loops), 1, "seeding loops")
        for loop in seed_loops:
            sh = R.loop_shape(loop, cn)
            ok = (sh.get("init") == "0" and sh.get("cond_op") == "<" and sh.get("cond_l") == sh.get("var")
                  and sh.get("cond_r", "").endswith("layout.node_count") and sh.get("step") == "++"
                  and sh.get("step_var") == sh.get("var") and not sh["breaks"] and not sh["returns"]
                  and not sh["continues"] and sh.get("body_writes_var") == 0)
            run.count(1, "C02.b.shape")
            if not ok:
                run.finding("C02.b", "start_impl:seed-loop-shape",
                            f"cache seeding loop does not visit every node index 0..node_count exactly once: {sh}",
                            loc=fa.loc(loop))
            roles = [Role("S", "t", r"graph_schedule\(.*,index\)"),
                     Role("NOW", "t", HDR + r"\.evaluation_time"),
                     Role("NEXT", "t", HDR + r"\.next_scheduled_time", lvalue=True)]

            def spec(v):
                if v.ge("S", "NOW") and v.lt("S", "NEXT"):
                    return Expect(stores={"NEXT": "S"})
                return Expect()
            R.k1(run, "C02.b", fa, roles, spec, unit=loop.body, what="cache seeding after start")
        fl = R.flow(run, fa)
        reset = R.store_is(HDR + r"\.next_scheduled_time", r"MAX_DT", region=r"")
        fold = R.store_is(HDR + r"\.next_scheduled_time", r"scheduled", region=r"")
        started = R.store_is(HDR + r"\.started", r"true", region=r"")
        R.k2_precede(run, "C02.b", fl, reset, fold, "NEXT:=MAX_DT before the seeding fold")
        R.k2_precede(run, "C02.b", fl, fold, started, "seeding loop before started:=true") if False else None
        # started:=true only after the loop: no path from started:=true back into the fold
        R.k2_never_after(run, "C02.b", fl, started, fold, "cache fold after started:=true")
        # node start hooks run before the seeding (slots written by start hooks are seen)
        R.k2_never_after(run, "C02.b", fl, reset, R.call_is(name="start", recv=r"node_view"),
                         "a node start hook running after the cache was reset for seeding")

    # ---- c. fold during the scan ---------------------------------------------------------------
    with run.obligation("C02.c", "K1+K2+K4", "evaluate_impl: NEXT:=MAX_DT on a fresh cycle before any node runs; per visited "
                        "index NEXT:=SLOT iff SLOT>NOW and SLOT<NEXT; node evaluated iff SLOT==NOW; no other store to NEXT"):
        fa = R.fn(run, GRAPH, "evaluate_impl")
        cn = R.aliases_of(fa)
        all_loops = [l for l in R.loops(fa, into_lambdas=False) if isinstance(l, C.For)]
        main = [l for l in all_loops if l.cond is not None and "evaluation_cursor" in cn(l.cond)]
        push = [l for l in all_loops if l.cond is not None and "first_normal_node" in cn(l.cond)]
        run.sites(len(main), 1, "main scan loop")
        run.sites(len(push), 1, "push-source loop")
        roles = [Role("S", "t", r"graph_schedule\(.*\)", lvalue=True),
                 Role("NOW", "t", HDR + r"\.evaluation_time|evaluation_time"),
                 Role("NEXT", "t", HDR + r"\.next_scheduled_time", lvalue=True),
                 Role("MIN_DT", "t", r"MIN_DT", sentinel="min", required=False)]

        def spec_main(v):
            if v.eq("S", "NOW"):
                return Expect(calls=[("EVAL", (ANY,))], throws="may")
            st = {}
            if v.gt("S", "NOW") and v.lt("S", "NEXT"):
                st["NEXT"] = "S"
            return Expect(stores=st, calls=[])
        for loop in main:
            R.k1(run, "C02.c", fa, roles, spec_main, unit=loop.body, role_calls={"EVAL": EVALRX},
                 what="scan fold / evaluate gate (main loop)")

        def spec_push(v):
            # the consumed-slot stamp (S:=MIN_DT) is an implementation choice (lazy cleanup): not constrained
            calls = []
            st = {}
            if v.b("PENDING") or v.eq("S", "NOW"):
                calls = [("EVAL", (ANY,))]
            if v.gt("S", "NOW") and v.lt("S", "NEXT"):
                st["NEXT"] = "S"
            return Expect(stores=st, calls=calls, throws="may", dont_care=("S",))
        for loop in push:
            R.k1(run, "C02.c", fa, roles + [Role("PENDING", "bool", r"push_queue\.reset_push_update_pending\(\)|graph\.root\(\)\.executor\(\)\.push_queue_engine\(\)\.reset_push_update_pending\(\)")],
                 spec_push, unit=loop.body,
                 role_calls={"EVAL": EVALRX}, what="scan fold / evaluate gate (push loop)")
        # census of stores to NEXT
        stores = R.find(fa, lambda n: isinstance(n, C.Binary) and n.op in C._ASSIGN and
                        cn(n.l).endswith(".next_scheduled_time"))
        inside = 0
        resets = 0
        for s in stores:
            if any(R._contains(l.body, s) for l in main + push):
                inside += 1
            elif cn(s.r) == "MAX_DT":
                resets += 1
            else:
                run.finding("C02.c", f"evaluate_impl:extra-store:{cn(s.l)}={cn(s.r)}",
                            f"store to the next-scheduled cache outside the reset and the scan folds: {cn(s.l)} = {cn(s.r)}",
                            loc=fa.loc(s))
        run.count(len(stores), "C02.c.census")
        if resets != 1:
            run.finding("C02.c", "evaluate_impl:reset-count", f"expected exactly one NEXT:=MAX_DT reset, found {resets}",
                        loc=fa.loc(fa.body))
        fl = R.flow(run, fa)
        reset = R.store_is(HDR + r"\.next_scheduled_time", r"MAX_DT")
        ev = R.call_is(name="evaluate", recv=r"node_view")
        # on a fresh cycle the reset precedes every node evaluation: evaluation without reset only when resuming
        w = fl.reach([fl.start], avoid=reset, targets=ev, after_source=False,
                     edge_skip=lambda n, lab: n.kind == "cond" and n.label == "resuming" and lab == "T")
        run.count(1, "C02.c.reset-dominates")
        if w is not None:
            run.finding("C02.c", "evaluate_impl:reset-before-eval",
                        "a node can be evaluated before the cache reset without passing the resume test: " + fl.path_text(w),
                        loc=fl.cfg.describe(w[-1][0]))
        # the reset is guarded by !resuming (a resumed cycle keeps the accumulated cache)
        resetn = R.require_nodes(run, fl, reset, "C02.c reset")
        condn = R.require_nodes(run, fl, lambda n: n.kind == "cond" and n.label in ("!resuming", "resuming"), "C02.c resuming test")
        w = fl.reach([fl.start], avoid=lambda n: n.id in condn, targets=reset, after_source=False)
        if w is not None:
            run.finding("C02.c", "evaluate_impl:reset-unguarded", "cache reset is not guarded by the resume test",
                        loc=fl.cfg.describe(resetn[0]))

    # ---- d. run loop --------------------------------------------------------------------------------
    with run.obligation("C02.d", "K1", "run_storage: leaves the loop iff nothing is scheduled before END (and idle does not "
                        "continue) or after advance T==MAX_DT or T>=END or stop; otherwise evaluates exactly T=advance(next)"):
        fa = R.fn(run, EXEC, "run_storage")
        wl = [l for l in R.loops(fa, into_lambdas=False) if isinstance(l, C.While)]
        run.sites(len(wl), 1, "run loop")
        loop = wl[0]
        roles = [Role("N", "t", r"graph\.next_scheduled_time\(\)|state\.graph\.view\(\)\.next_scheduled_time\(\)"),
                 Role("END", "t", r"state\.end_time"),
                 Role("MAX_DT", "t", r"MAX_DT", sentinel="max"),
                 Role("PREV", "t", r"state\.evaluation_time"),
                 Role("PREV1", "t", None, succ_of="PREV"),
                 Role("T", "t", r"advance\(state,next\)"),
                 Role("STOP", "bool", r"state\.stop_requested\.load\(.*\)"),
                 Role("IDLE", "bool", r"idle_run_continues\(state,.*\)"),
                 Role("CONSEC", "n", r"state\.consecutive_immediate_cycles", lvalue=True, required=False)]

        def spec(v):
            nothing = v.eq("N", "MAX_DT") or v.ge("N", "END")
            if nothing and not v.b("IDLE"):
                return Expect(ret="break", calls=[])
            n1 = "END" if nothing else "N"
            calls = [("ADVANCE", (ANY, n1))]
            if v.b("STOP") or v.eq("T", "MAX_DT") or v.ge("T", "END"):
                return Expect(ret="break", calls=calls)
            st = {"CONSEC": "CONSEC++" if v.eq("T", "PREV1") else 0}
            return Expect(stores=st, calls=calls + [("EVAL", ("T",))], throws="may")
        R.k1(run, "C02.d", fa, roles, spec, unit=loop.body,
             role_calls={"ADVANCE": r"advance", "EVAL": r"graph\.evaluate|state\.graph\.view\(\)\.evaluate"},
             inline_lambda_callees=("run_executor_phase",), noreturn_calls=("throw_recursive_evaluation_error",),
             feasible=lambda v: v.lt("PREV", "MAX_DT"),
             what="simulation/real-time run loop")
        cn = R.aliases_of(fa)
        if not isinstance(loop.cond, C.Unary) or loop.cond.op != "!" or "stop_requested" not in cn(loop.cond):
            run.finding("C02.d", "run_storage:loop-cond", f"run loop condition is not '!stop_requested': {cn(loop.cond)}",
                        loc=fa.loc(loop))
        fl = R.flow(run, fa)
        R.k2_precede(run, "C02.d", fl, R.call_is(name="validate_times"), R.call_is(name="start", recv=r"graph|state\.graph\.view\(\)"),
                     "validate_times before graph.start")
        R.k2_precede(run, "C02.d", fl, R.call_is(name="set_evaluation_time", arg=(0, r"state\.start_time")),
                     R.call_is(name="start", recv=r"graph|state\.graph\.view\(\)"), "evaluation time := START before graph.start")
        R.k2_precede(run, "C02.d", fl, R.call_is(name="start", recv=r"graph|state\.graph\.view\(\)", arg=(0, r"state\.start_time")),
                     R.call_is(name="evaluate", recv=r"graph|state\.graph\.view\(\)"), "graph.start(START) before the first evaluate")
        # idle_run_continues(Simulation) returns the push-pending flag only
        fs = [f for f in t.funcs(EXEC, "idle_run_continues")]
        run.sites(len(fs), 2, "idle_run_continues overloads")
        for fd in fs:
            fi = t.file(EXEC)
            ptxt = fi.text(fd.params[0], fd.params[1])
            fa2 = R.parse(run, fd)
            rets = R.find(fa2, lambda n: isinstance(n, C.Return))
            cn2 = R.aliases_of(fa2)
            vals = sorted(cn2(r.e) for r in rets)
            run.count(1, "C02.d.idle")
            if "SimulationExecutorStorage" in ptxt:
                if len(vals) != 1 or not vals[0].startswith("state.push_update_pending.load("):
                    run.finding("C02.d", "idle_run_continues(Simulation)", f"simulation idle rule must be the push-pending flag only, is {vals}",
                                loc=f"{EXEC}:{fd.line}")

    # ---- e. advance_simulation ------------------------------------------------------------------
    with run.obligation("C02.e", "K6", "advance_simulation returns and stores min(pending ? NOW+MIN_TD : next, END)"):
        fa = R.fn(run, EXEC, "advance_simulation")
        roles = [Role("P", "bool", r"state\.push_update_pending\.load\(.*\)"),
                 Role("NOW", "t", r"state\.evaluation_time"), Role("NOW1", "t", None, succ_of="NOW"),
                 Role("N", "t", r"next_scheduled_time"), Role("END", "t", r"state\.end_time")]

        def spec(v):
            p = "NOW1" if v.b("P") else "N"
            tt = v.min(p, "END")
            return Expect(calls=[("SET", (tt,))], ret=tt)
        R.k1(run, "C02.e", fa, roles, spec, role_calls={"SET": r"state\.set_evaluation_time"}, what="simulation advance term")

    # ---- f. wall clock never reaches simulation time ------------------------------------------
    with run.obligation("C02.f", "K11", "no wall-clock read inside the simulation time path (advance_simulation, "
                        "simulation run instantiation, simulation clock evaluation time)"):
        n = 0
        for name in ("advance_simulation", "simulation_run_impl", "validate_times"):
            fa = R.fn(run, EXEC, name)
            bad = [c for c in R.calls(fa) if R.callee_name(c) in ("current_wall_time", "now", "system_clock", "steady_clock")]
            n += 1
            run.count(1, "C02.f")
            for c in bad:
                run.finding("C02.f", f"{name}:wall-clock", f"{name} reads the wall clock ({R.Canon()(c)})", loc=fa.loc(c))
        # run_storage: wall time may only flow to cycle bookkeeping, never into advance()/evaluate() arguments: K1 (d)
        # already fixes evaluate's argument to T=advance(..) and advance's argument to N/END.
        run.sites(n, 3)

    # ---- g. node-scheduler re-arm ----------------------------------------------------------------
    with run.obligation("C02.g", "K1", "node evaluate_impl: after user code (normal or captured error) the scheduler is "
                        "advanced iff it fired now, else re-armed at its next time iff scheduled"):
        fa = R.fn(run, NODE, "evaluate_impl")
        roles = node_eval_roles()
        spec_g, calls_g, _ = node_eval_projection({"eval", "rearm"})
        R.k1(run, "C02.g", fa, roles, spec_g, role_calls=calls_g, may_throw_calls=("EVAL",),
             what="node evaluate gate + scheduler re-arm")
    with run.obligation("C02.g2", "K1", "NodeScheduler::advance pops iff first<=NOW and re-arms iff events remain"):
        fa = R.fn(run, SCHED, "NodeScheduler::advance")
        roles = [Role("SNULL", "bool", r"nullptr==state_"), Role("GNULL", "bool", r"graph_==nullptr"),
                 Role("EMPTY0", "bool", r"state_->events\.empty\(\)", epoch=("E", 0)),
                 Role("EMPTY1", "bool", r"state_->events\.empty\(\)", epoch=("E", 1), required=False),
                 Role("FIRST0", "t", r"state_->events\.begin\(\)->first", epoch=("E", 0)),
                 Role("FIRST1", "t", r"state_->events\.begin\(\)->first", epoch=("E", 1), required=False),
                 Role("NOW", "t", r"now_")]

        def spec(v):
            if v.b("SNULL"):
                return Expect(calls=[])
            pop = (not v.b("EMPTY0")) and v.le("FIRST0", "NOW")
            calls = []
            if pop:
                calls.append(("ERASE", (ANY,)))
                if not v.b("GNULL") and not v.b("EMPTY1"):
                    calls.append(("SCHEDULE", (ANY, "FIRST1")))
            else:
                if not v.b("GNULL") and not v.b("EMPTY0"):
                    calls.append(("SCHEDULE", (ANY, "FIRST0")))
            return Expect(calls=calls)
        R.k1(run, "C02.g2", fa, roles, spec, role_calls={"ERASE": r"state_->events\.erase", "SCHEDULE": r"graph_->schedule_node"},
             invalidate={r"state_->events\.erase": "E"}, what="NodeScheduler::advance")

    # ---- h. nested delegation (shared rule instances with C09) ----------------------------------------
    with run.obligation("C02.h", "K1+K7", "wake-ups requested inside nested graphs reach the root schedule: push/pull delegation and the owners' "
                        "re-arm protocol (shared with C09.a-e)"):
        from . import c09
        sub = Run("C02", run.tier, run.tree, quiet=True)
        sub.is_sub = True
        if not getattr(run, "is_sub", False):
            c09.check(sub)
        run.evaluations += sub.evaluations
        run.count(1, "C02.h")
        for f in sub.findings:
            if f.rule[:5] in ("C09.a", "C09.b", "C09.c", "C09.d", "C09.e"):
                run.finding("C02.h", f.key, f.message, f.loc)
        for e in sub.errors:
            raise AnalysisError("model-mismatch", e)

    # ---- i. validate_times ---------------------------------------------------------------------------
    with run.obligation("C02.i", "K1", "validate_times throws iff END <= START"):
        fa = R.fn(run, EXEC, "validate_times")
        roles = [Role("START", "t", r"start_time"), Role("END", "t", r"end_time")]
        R.k1(run, "C02.i", fa, roles, lambda v: Expect(throws=True) if v.le("END", "START") else Expect(),
             what="validate_times")

    with run.obligation("C02.j", "K1", "wake-ups booked by the children of a keyed map_ survive the owner's pass: the schedule queue drops exactly the entries <= NOW and the "
                        "owner re-arms at the heap minimum (shared with C10.e)"):
        from . import c10
        R.share(run, "C02.j", c10, ["C10.e"])

    with run.obligation("C02.k", "K1", "a wake-up requested through NodeScheduler::schedule is stored: admission, tag replacement (a tag re-booked at the SAME time keeps its "
                        "event) and the wall-clock guard (shared with C18.a2, C18.b, C18.b2)"):
        from . import c18
        R.share(run, "C02.k", c18, ["C18.a2", "C18.b", "C18.b2"])

    with run.obligation("C02.l", "K2", "a wake-up pending in a child graph survives a captured failure of that child: the next evaluate of the child starts a "
                        "fresh scan (it never resumes from the failing node's cursor, which would skip the cache reset and every node ranked before it) "
                        "(shared with C01.d2)"):
        from . import c01
        R.share(run, "C02.l", c01, ["C01.d2"])

    with run.obligation("C02.m", "K2", "try_except pulls the child's next wake-up up to the parent after the wrapped evaluation on BOTH exits: the explicit "
                        "propagate is the only pull on the path on which the child threw (shared with C15.c)"):
        from . import c15
        R.share(run, "C02.m", c15, ["C15.c"])

    with run.obligation("C02.n", "K1", "a wake-up pending inside the active branch of a switch_ survives a wake-up of the switch node for another reason: the switch node has ONE "
                        "schedule slot, which the waking notification overwrote with NOW; only evaluating the child (whose evaluate ends by propagating its next time) puts "
                        "the pending deadline back, so switch_evaluate evaluates the active branch on every visit (shared with C12.a)"):
        from . import c12
        R.share(run, "C02.n", c12, ["C12.a"])

    with run.obligation("C02.o", "K1+K2", "a node that is woken in the start cycle AND books a later time from its start hook gets both: the start-cycle schedule is written AFTER the "
                        "user start hook (a slot <= the current time counts as consumed, so the hook's later booking would otherwise replace it) (shared with C03.f, the origin of C18.h)"):
        from . import c03 as c03_
        R.share(run, "C02.o", c03_, ["C03.f"])


# shared with C03 / C15 / C18 ---------------------------------------------------------------------
NODE_EVAL_CALLS = {"EVAL": r"callbacks\(context\)\.evaluate", "WERR": r"write_node_error", "ADV": r"sched\.advance",
                   "RESCHED": r"view\.graph_value\(\)->schedule_node"}

def node_eval_roles():
    return [
        Role("STARTED", "bool", r"view\.started\(\)"),
        Role("HS", "bool", r"runtime_context\(context\)\.layout\.has_scheduler\(\)"),
        Role("EMPTY", "bool", r"node_scheduler_state\(.*\)\.events\.empty\(\)"),
        Role("FIRST", "t", r"node_scheduler_state\(.*\)\.events\.begin\(\)->first"),
        Role("NOW", "t", r"evaluation_time"),
        Role("IV", "bool", r"callbacks\(context\)\.input_validity_in_evaluate"),
        Role("HI", "bool", r"runtime_context\(context\)\.layout\.has_input\(\)"),
        Role("RDY", "bool", r"ready_to_evaluate\(view,evaluation_time\)"),
        Role("CB", "bool", r"callbacks\(context\)\.evaluate"),
        Role("HEO", "bool", r"runtime_context\(context\)\.layout\.has_error_output\(\)"),
        Role("SCHEMA_NULL", "bool", r"nullptr==view\.schema\(\)"),
        Role("CE", "bool", r"view\.schema\(\)->captures_errors"),
        Role("IS_SCHED", "bool", r"sched\.is_scheduled\(\)"),
        Role("SNEXT", "t", r"sched\.next_scheduled_time\(\)"),
    ]


def node_eval_spec(v):
    if not v.b("STARTED"):
        return Expect(ret=True, calls=[])
    hs = v.b("HS")
    sn = hs and (not v.b("EMPTY")) and v.eq("FIRST", "NOW")
    do = v.b("IV") or (not v.b("HI")) or v.b("RDY")
    calls = []
    if do and v.b("CB"):
        calls.append(("EVAL", (ANY, "NOW")))
        cap = v.b("HEO") and (not v.b("SCHEMA_NULL")) and v.b("CE")
        if v.b("throws:EVAL"):
            if not cap:
                return Expect(throws=True)
            calls.append(("WERR", (ANY, ANY, "NOW", ANY)))
    if hs:
        if sn:
            calls.append(("ADV", ()))
        elif v.b("IS_SCHED"):
            calls.append(("RESCHED", (ANY, "SNEXT")))
    return Expect(ret=True, calls=calls)


def node_eval_projection(aspects):
    """The node-evaluate decision table restricted to the part a property speaks about, so that a defect in ANOTHER part of the same
    function is not reported under this property: aspects is a subset of {'eval', 'error', 'rearm'}.
    Returns (spec, role_calls, feasible)."""
    keep = set()
    if "eval" in aspects:
        keep.add("EVAL")
    if "error" in aspects:
        keep |= {"EVAL", "WERR"}
    if "rearm" in aspects:
        keep |= {"ADV", "RESCHED"}
    calls = {k: v for k, v in NODE_EVAL_CALLS.items() if k in keep}

    def spec(v):
        full = node_eval_spec(v)
        if full.throws and "error" not in aspects:
            return Expect(throws="may", calls=None)
        if full.calls is None:
            return full
        return Expect(ret=full.ret, throws=full.throws, calls=[c for c in full.calls if c[0] in keep])
    feasible = None
    if aspects == {"error"} or aspects == {"error", "rearm"}:
        # only the rows in which the user callback throws are about error capture
        feasible = lambda v: (not v.b("STARTED")) or v.b("throws:EVAL")
    return spec, calls, feasible


VARIANTS = [
    {"id": "l-seed-C02-5-flag-cleared-before-resuming", "expect": "C02.l", "edits": [{"file": GRAPH, "find": "      !state.evaluation_failed && state.evaluation_cursor != 0 &&\n      state.evaluation_cursor != invalid_cursor;", "replace": "      state.evaluation_cursor != 0 && state.evaluation_cursor != invalid_cursor;"}]},
    {"id": "m-seed-C02-6-propagate-only-on-success", "expect": "C02.m", "edits": [{"file": "src/hgraph/runtime/try_except_node.cpp", "find": "                                                             return nested.child_graph().evaluate(evaluation_time);", "replace": "                                                             const bool done = nested.child_graph().evaluate(evaluation_time);\n                                                             single_nested_graph_propagate_schedule(nested);\n                                                             return done;"}, {"file": "src/hgraph/runtime/try_except_node.cpp", "find": "            single_nested_graph_propagate_schedule(nested);\n            return completed;", "replace": "            return completed;"}]},
    {"id": "a-slot-le-to-lt", "expect": "C02.a", "edits": [{"file": GRAPH, "find": "scheduled <= current || when < scheduled", "replace": "scheduled < current || when < scheduled"}]},
    {"id": "a-cache-ge", "expect": "C02.a", "edits": [{"file": GRAPH, "find": "when > current && when < state.next_scheduled_time", "replace": "when >= current && when < state.next_scheduled_time"}]},
    {"id": "a-past-le", "expect": "C02.a", "edits": [{"file": GRAPH, "find": "if (when < current) {", "replace": "if (when <= current) {"}]},
    {"id": "a-or-to-and", "expect": "C02.a", "edits": [{"file": GRAPH, "find": "scheduled <= current || when < scheduled", "replace": "scheduled <= current && when < scheduled"}]},
    {"id": "a-twin-mirrored", "expect": None, "edits": [{"file": GRAPH, "find": "scheduled <= current || when < scheduled", "replace": "scheduled > when || !(scheduled > current)"}]},
    {"id": "b-seed-gt", "expect": "C02.b", "edits": [{"file": GRAPH, "find": "scheduled >= state.evaluation_time &&", "replace": "scheduled > state.evaluation_time &&"}]},
    {"id": "b-seed-from-1", "expect": "C02.b", "edits": [{"file": GRAPH, "find": "state.next_scheduled_time = MAX_DT;\n  for (std::size_t index = 0;", "replace": "state.next_scheduled_time = MAX_DT;\n  for (std::size_t index = 1;"}]},
    {"id": "c-fold-twin-ge", "expect": None, "edits": [{"file": GRAPH, "find": "} else if (scheduled > evaluation_time) {", "replace": "} else if (scheduled >= evaluation_time) {"}]},
    {"id": "c-fold-twin-le", "expect": None, "edits": [{"file": GRAPH, "find": "      if (scheduled < state.next_scheduled_time) {", "replace": "      if (scheduled <= state.next_scheduled_time) {"}]},
    {"id": "c-fold-gt", "expect": "C02.c", "edits": [{"file": GRAPH, "find": "      if (scheduled < state.next_scheduled_time) {", "replace": "      if (scheduled > state.next_scheduled_time) {"}]},
    {"id": "c-eval-gate", "expect": "C02.c", "edits": [{"file": GRAPH, "find": "    if (scheduled == evaluation_time) {\n      // post-eval", "replace": "    if (scheduled <= evaluation_time) {\n      // post-eval"}]},
    {"id": "c-push-twin-no-stamp", "expect": None, "edits": [{"file": GRAPH, "find": "            if (scheduled_now) {\n              scheduled = MIN_DT;\n            }", "replace": ""}]},
    {"id": "c-push-gate", "expect": "C02.c", "edits": [{"file": GRAPH, "find": "if (push_update_pending || scheduled_now) {", "replace": "if (push_update_pending && scheduled_now) {"}]},
    {"id": "c-no-reset", "expect": "C02.c", "edits": [{"file": GRAPH, "find": "    state.cycle_wall_start = current_wall_time();\n    state.next_scheduled_time = MAX_DT;", "replace": "    state.cycle_wall_start = current_wall_time();"}]},
    {"id": "d-end-inclusive", "expect": "C02.d", "edits": [{"file": EXEC, "find": "evaluation_time >= state.end_time)", "replace": "evaluation_time > state.end_time)"}]},
    {"id": "d-evaluate-next", "expect": "C02.d", "edits": [{"file": EXEC, "find": "completed = graph.evaluate(evaluation_time);", "replace": "completed = graph.evaluate(next);"}]},
    {"id": "e-no-end-clamp", "expect": "C02.e", "edits": [{"file": EXEC, "find": "const DateTime next = std::min(pending_time, state.end_time);", "replace": "const DateTime next = pending_time;"}]},
    {"id": "e-twin-ternary-swap", "expect": None, "edits": [{"file": EXEC, "find": "state.push_update_pending.load(std::memory_order_acquire)\n                    ? state.evaluation_time + MIN_TD\n                    : next_scheduled_time;", "replace": "!state.push_update_pending.load(std::memory_order_acquire)\n                    ? next_scheduled_time\n                    : state.evaluation_time + MIN_TD;"}]},
    {"id": "g-rearm-dropped", "expect": "C02.g", "edits": [{"file": NODE, "find": "else if (sched.is_scheduled())", "replace": "else if (sched.is_scheduled() && do_eval)"}]},
    {"id": "g2-advance-lt", "expect": "C02.g2", "edits": [{"file": SCHED, "find": "state_->events.begin()->first <= now_)", "replace": "state_->events.begin()->first < now_)"}]},
    {"id": "i-validate-lt", "expect": "C02.i", "edits": [{"file": EXEC, "find": "if (end_time <= start_time)", "replace": "if (end_time < start_time)"}]},
]
