"""C03 - User code runs exactly when an active input ticked and required inputs are valid."""
from __future__ import annotations

import re

from .. import cparse as C
from ..index import AnalysisError
from ..k1 import ANY, Expect, Role
from ..report import Run
from .. import rules as R
from . import c02

ID = "C03"
NODE = "src/hgraph/runtime/node.cpp"
WIRING = "src/hgraph/types/graph_wiring.cpp"

TECHNIQUE = ("decision tables (K1) for the readiness/evaluate gates and the notification->schedule term (K6), sibling agreement of "
             "activate/deactivate (K7), dominance of the passive adjustment before identity (K2), call-site census (K4)")
EXPLANATION = (
    "Decides from node.cpp / graph_wiring.cpp: start subscribes exactly the node's active list (all slots when absent) and stop "
    "undoes exactly the same slots; a notification from a subscribed input schedules the owning node at max(t, graph NOW); the "
    "readiness gate is false iff some required slot is not valid / some all-valid slot is not all-valid; the evaluate gate calls user "
    "code iff started and (input validity is delegated or no input or ready) and there is no other call site of the user callback; "
    "the passive marker removes the tagged slots from the active list before the node's identity is computed and never leaves a node "
    "without a scheduling input; schedule_on_start self-schedules after started:=true. Not decided: that the value read is the "
    "producer's latest (C04/C13); outputs as functions of inputs (user code).")
ASSUMPTIONS = ["make_active/make_passive subscribe/unsubscribe the slot they are called on (C13 covers link internals)"]
DECIDED = ["a subscription = active list", "b notification schedules owner", "c readiness gate", "d evaluate gate", "e passive marker",
           "e2 passive variant is a different runtime type", "f start-time self-schedule",
           'i prune-loop guard of make_passive (has_any_active)', 'j a withdrawn wake-up must not run user code (known finding F-C03-1)',
           'k selector collectors of static nodes number in input space']
NOT_DECIDED = ["binding correctness (C04/C13)", "user code"]


def _slot_visits(fa, cn):
    """(range, callee) pairs: which slots get which activation call."""
    out = []
    for c in R.calls(fa):
        nm = R.callee_name(c)
        if nm not in ("make_active", "make_passive", "make_structural_active"):
            continue
        loops_ = [l for l in R.loops(fa) if R._contains(l.body, c)]
        if loops_:
            l = loops_[-1]
            rng = cn(l.range) if isinstance(l, C.RangeFor) else f"[{R.loop_shape(l, cn).get('init')},{R.loop_shape(l, cn).get('cond_r')})"
        else:
            rng = "root"
        tgt = cn(c.fn.obj) if isinstance(c.fn, C.Member) else ""
        out.append((rng, nm, tgt))
    return out


def check(run: Run) -> None:
    t = run.tree

    with run.obligation("C03.a", "K7+K3", "activate_input_slots subscribes exactly the active list (every field when absent) plus structural "
                        "slots; deactivate_input_slots visits the same slot sets"):
        fa_a = R.fn(run, NODE, "activate_input_slots")
        fa_d = R.fn(run, NODE, "deactivate_input_slots")
        va = _slot_visits(fa_a, R.aliases_of(fa_a))
        vd = _slot_visits(fa_d, R.aliases_of(fa_d))
        run.sites(len(va), 4, "activation sites")
        run.sites(len(vd), 1, "deactivation sites")
        ra = sorted({(r, tg) for r, nm, tg in va})
        rd = sorted({(r, tg) for r, nm, tg in vd})
        run.count(len(va) + len(vd), "C03.a")
        if ra != rd:
            run.finding("C03.a", "activate/deactivate:slot-sets", f"start activates {ra} but stop deactivates {rd}", loc=NODE)
        want = {("root", "input"), ("[0,view.schema()->input_schema->field_count())", "bundle[slot]"),
                ("*view.schema()->active_inputs", "bundle[slot]"), ("view.schema()->structural_inputs", "bundle[slot]")}
        if set(ra) != want:
            run.finding("C03.a", "activate:ranges", f"activation must range over root | all fields | *active_inputs | structural_inputs; found {ra}", loc=NODE)
        for fa in (fa_a, fa_d):
            cn = R.aliases_of(fa)
            ds = {d.name: cn(d.init) for d in R.find(fa, lambda n: isinstance(n, C.Declarator) and n.name in ("input", "bundle") and n.init is not None)}
            if ds != {"input": "view.input(evaluation_time)", "bundle": "input.as_bundle()"}:
                run.finding("C03.a", f"{fa.fd.name}:input-root", f"slots must be taken from the node's own input bundle: {ds}", loc=NODE)
        for r, nm, tg in va:
            if r == "view.schema()->structural_inputs" and nm != "make_structural_active":
                run.finding("C03.a", "activate:structural", "structural slots must be activated structurally", loc=NODE)
            if r in ("*view.schema()->active_inputs", "[0,view.schema()->input_schema->field_count())") and nm != "make_active":
                run.finding("C03.a", "activate:active", f"active slots must use make_active, found {nm}", loc=NODE)
        for r, nm, tg in vd:
            if nm != "make_passive":
                run.finding("C03.a", "deactivate:call", f"deactivation must use make_passive, found {nm}", loc=NODE)
        # the all-fields loop runs iff active_inputs is absent
        for fa in (fa_a, fa_d):
            cn = R.aliases_of(fa)
            ifs = [s for s in fa.body.walk() if isinstance(s, C.If) and cn(s.cond) in ("!view.schema()->active_inputs.has_value()",)]
            if len(ifs) != 1 or not any(isinstance(x, C.Return) for x in ifs[0].then.walk()) or not R.loops(ifs[0].then):
                run.finding("C03.a", f"{fa.fd.name}:default-all", "when no active list is present every field must be visited (and only then)", loc=NODE)
        run.sample({"rule": "C03.a", "activate": va, "deactivate": vd})

    with run.obligation("C03.b", "K6", "a notification schedules the owning node at max(t, graph NOW) (graph NOW when t == MIN_DT)"):
        fa = R.fn(run, NODE, "schedule_node_from_storage")
        roles = [Role("GNULL", "bool", r"graph==nullptr"), Role("T", "t", r"modified_time"),
                 Role("GNOW", "t", r"graph->view\(\)\.evaluation_time\(\)"), Role("MIN_DT", "t", r"MIN_DT", sentinel="min")]

        def spec(v):
            if v.b("GNULL"):
                return Expect(calls=[])
            w = v.max("T", "GNOW") if v.ne("T", "MIN_DT") else "GNOW"
            return Expect(calls=[("SCHEDULE", ("node_index", w))])
        R.k1(run, "C03.b", fa, roles, spec, role_calls={"SCHEDULE": r"graph->schedule_node"}, what="schedule_node_from_storage")
        fa = R.fn(run, NODE, "NodeRuntimeStorage::notify")
        cn = R.aliases_of(fa)
        cs = R.calls(fa, "schedule_node_from_storage")
        run.count(1, "C03.b.notify")
        if len(cs) != 1 or [cn(a) for a in cs[0].args] != ["graph", "node_index", "modified_time"]:
            run.finding("C03.b", "NodeRuntimeStorage::notify", "notify must schedule (graph, node_index, modified_time)", loc=NODE)

    with run.obligation("C03.c", "K1", "ready_to_evaluate is false iff a required slot is not valid or an all-valid slot is not all-valid; "
                        "selectors on a non-bundle root throw"):
        fa = R.fn(run, NODE, "ready_to_evaluate")
        roles = [Role("NSNULL", "bool", r"nullptr==view\.schema\(\)"), Role("HASIN", "bool", r"view\.schema\(\)->has_input\(\)"),
                 Role("ISNULL", "bool", r"nullptr==view\.schema\(\)->input_schema"),
                 Role("NOTTSB", "bool", r"TSTypeKind::TSB==view\.schema\(\)->input_schema->kind", ),
                 Role("VSEL", "bool", r"view\.schema\(\)->valid_inputs\.has_value\(\)"),
                 Role("AVEMPTY", "bool", r"view\.schema\(\)->all_valid_inputs\.empty\(\)"),
                 Role("V_SEL", "bool", r"checked_slot\(slot\)\.valid\(\)"), Role("V_ALL", "bool", r"slot_view\(slot\)\.valid\(\)"),
                 Role("AV", "bool", r"checked_slot\(slot\)\.all_valid\(\)"),
                 Role("NE_VSEL", "bool", r"nonempty:\*view\.schema\(\)->valid_inputs"),
                 Role("NE_AV", "bool", r"nonempty:view\.schema\(\)->all_valid_inputs"),
                 Role("HASFIELDS", "bool", r"0<view\.schema\(\)->input_schema->field_count\(\)")]

        def spec(v):
            if v.b("NSNULL") or not v.b("HASIN"):
                return Expect(ret=True)
            if v.b("ISNULL") or not v.b("NOTTSB"):   # NOTTSB atom is the equality kind==TSB
                if v.b("VSEL") or not v.b("AVEMPTY"):
                    return Expect(throws=True)
                return Expect(ret=("sym", r"view\.input\(evaluation_time\)\.valid\(\)"))
            if v.b("VSEL"):
                if v.b("NE_VSEL") and not v.b("V_SEL"):
                    return Expect(ret=False, throws="may")
            else:
                if v.b("HASFIELDS") and not v.b("V_ALL"):
                    return Expect(ret=False, throws="may")
            if v.b("NE_AV") and not v.b("AV"):
                return Expect(ret=False, throws="may")
            return Expect(ret=True, throws="may")
        R.k1(run, "C03.c", fa, roles, spec, what="ready_to_evaluate")
        cn = R.aliases_of(fa)
        lp = R.loops(fa, into_lambdas=False)
        run.sites(len(lp), 3, "readiness loops")
        rng = []
        for l in lp:
            sh = R.loop_shape(l, cn)
            rng.append(sh.get("range") or f"[{sh.get('init')},{sh.get('cond_r')})")
            if sh["breaks"] or sh["continues"]:
                run.finding("C03.c", "ready_to_evaluate:loop-exit", "readiness loops may only leave by `return false`", loc=fa.loc(l))
        want = ["*view.schema()->valid_inputs", "[0,view.schema()->input_schema->field_count())", "view.schema()->all_valid_inputs"]
        if rng != want:
            run.finding("C03.c", "ready_to_evaluate:ranges", f"readiness must scan {want}, scans {rng}", loc=NODE)

    with run.obligation("C03.d", "K1+K4", "node evaluate_impl returns first iff not started; user evaluate is called iff started and "
                        "(validity delegated or no input or ready); no other call site of the user evaluate callback exists"):
        fa = R.fn(run, NODE, "evaluate_impl")
        spec_p, calls_p, feas_p = c02.node_eval_projection({"eval", "rearm"})  # a wrong re-arm runs user code at a cancelled time or never again
        R.k1(run, "C03.d", fa, c02.node_eval_roles(), spec_p, role_calls=calls_p, feasible=feas_p, may_throw_calls=("EVAL",),
             what="node evaluate gate")
        n = 0
        fi = t.file(NODE)
        for fd in fi.funcs:
            body = fi.text(fd.body[0], fd.body[1])
            if "evaluate" not in body:
                continue
            fa2 = R.parse(run, fd, strict=False)
            for c in R.calls(fa2, "evaluate"):
                if isinstance(c.fn, C.Member) and R.Canon()(c.fn.obj).startswith("callbacks("):
                    n += 1
                    run.count(1)
                    if fd.name != "evaluate_impl":
                        run.finding("C03.d", f"callbacks.evaluate@{fd.qual}", f"user evaluate callback invoked from {fd.qual}, bypassing the gate", loc=f"{NODE}:{fd.line}")
        run.sites(n, 2, "user evaluate call sites")

    with run.obligation("C03.e", "K2+K1", "Wiring::add_node applies the passive adjustment before the node identity (schema/key) is computed; "
                        "with_passive_inputs removes each tagged slot from the active and structural lists, stores the list, and throws iff no "
                        "scheduling input would remain"):
        fds = [f for f in t.funcs(WIRING, "add_node", "Wiring") if "with_passive_inputs" in t.file(WIRING).text(f.body[0], f.body[1])]
        run.sites(len(fds), 1, "add_node with passive handling")
        fa = R.parse(run, fds[0])
        fl = R.flow(run, fa)
        wp = R.call_is(name="with_passive_inputs")
        R.k2_never_after(run, "C03.e", fl, R.either(R.call_is(name="resolved_schema_of"), R.call_is(name="make_key")), wp,
                         "passive adjustment after the identity was computed")
        cn = R.aliases_of(fa)
        # tagged slots: exactly those whose source.arg_tag == Passive
        ifs = [s for s in fa.body.walk() if isinstance(s, C.If) and "arg_tag" in cn(s.cond)]
        run.count(1, "C03.e.tag")
        if len(ifs) != 1 or cn(ifs[0].cond) not in ("inputs[slot].source.arg_tag==WiringPortRef::ArgTag::Passive", "WiringPortRef::ArgTag::Passive==inputs[slot].source.arg_tag") \
                or not any(R.callee_name(c) == "push_back" and cn(c.args[0]) == "slot" for c in R.calls(ifs[0].then)):
            run.finding("C03.e", "add_node:passive-slots", "passive slots must be exactly the inputs tagged ArgTag::Passive", loc=WIRING)
        lp = [l for l in R.loops(fa) if isinstance(l, C.For) and ifs and R._contains(l.body, ifs[0])]
        sh = R.loop_shape(lp[0], cn) if lp else {}
        if not lp or sh.get("init") != "0" or sh.get("cond_r") != "inputs.size()" or sh.get("step") != "++" or sh["breaks"] or sh["continues"]:
            run.finding("C03.e", "add_node:passive-scan", f"every input slot must be inspected for the passive tag: {sh}", loc=WIRING)
        fa = R.fn(run, NODE, "NodeBuilder::with_passive_inputs")
        cn = R.aliases_of(fa)
        er = [(cn(c.args[0]), cn(c.args[1])) for c in R.calls(fa, "erase") if len(c.args) == 2]
        run.count(1, "C03.e.erase")
        if sorted(er) != [("active", "slot"), ("schema.structural_inputs", "slot")]:
            run.finding("C03.e", "with_passive_inputs:erase", f"each passive slot must be erased from `active` and `structural_inputs`: {er}", loc=NODE)
        lp = [l for l in R.loops(fa) if isinstance(l, C.RangeFor) and cn(l.range) == "slots"]
        if len(lp) != 1 or R.loop_shape(lp[0], cn)["breaks"] or R.loop_shape(lp[0], cn)["continues"]:
            run.finding("C03.e", "with_passive_inputs:loop", "every requested slot must be processed", loc=NODE)
        st = [n for n in fa.body.walk() if isinstance(n, C.Binary) and n.op == "=" and cn(n.l) == "schema.active_inputs"]
        if len(st) != 1 or cn(st[0].r) != "active":
            run.finding("C03.e", "with_passive_inputs:store", "the reduced active list must be stored in schema.active_inputs", loc=NODE)
        thr = [s for s in fa.body.walk() if isinstance(s, C.If) and cn(s.cond).replace(" ", "") ==
               "(had_scheduled_input&&active.empty())&&schema.structural_inputs.empty()" and any(isinstance(x, C.Throw) for x in s.then.walk())]
        if not thr:
            run.finding("C03.e", "with_passive_inputs:all-passive", "must throw when passive would deactivate every scheduling input", loc=NODE)
        mk = [c for c in R.calls(fa, "make_type")]
        if len(mk) != 1 or cn(mk[0].args[0]) != "schema":
            run.finding("C03.e", "with_passive_inputs:type", "the adjusted schema must produce the node's runtime type", loc=NODE)
        # default active list = all slots
        init = [l for l in R.loops(fa) if isinstance(l, C.For)]
        oki = any(R.loop_shape(l, cn).get("cond_r") == "input_count" and any(cn(n.l) == "active[slot]" and cn(n.r) == "slot"
                  for n in l.body.walk() if isinstance(n, C.Binary) and n.op == "=") for l in init)
        if not oki:
            run.finding("C03.e", "with_passive_inputs:default-active", "without an explicit list the starting active set must be every input slot", loc=NODE)
        # ... and WITH an explicit list (inputs the node type itself declares passive / structural) the starting set is that list:
        # a passive() marker on one input must not re-activate another input the node declared passive
        ex = [s0 for s0 in fa.body.walk() if isinstance(s0, C.If) and cn(s0.cond).replace(" ", "") == "schema.active_inputs.has_value()"]
        run.count(1, "C03.e.explicit-active")
        ok_ex = False
        for s0 in ex:
            asg = [n for n in s0.then.walk() if isinstance(n, C.Binary) and n.op == "=" and cn(n.l) == "active" and cn(n.r) in ("*schema.active_inputs", "schema.active_inputs.value()")]
            in_else = s0.els is not None and any(R._contains(s0.els, l) for l in init)
            ok_ex = ok_ex or (bool(asg) and in_else)
        if not ok_ex:
            run.finding("C03.e", "with_passive_inputs:explicit-active-ignored", "the starting active set must be the node type's own active_inputs when it "
                        "declares one (all slots only otherwise): a passive() marker would re-activate inputs the node declared passive", loc=NODE)

    with run.obligation("C03.e2", "K9", "the runtime type canonicalisation compares active_inputs and structural_inputs, so the passive "
                        "variant is never merged with the active one"):
        fa = R.fn(run, NODE, "schema_equivalent", cls="NodeRuntimeRegistry")
        txt = R.Canon()(R.find(fa, lambda n: isinstance(n, C.Return))[-1].e)
        run.count(1, "C03.e2")
        for fld in ("active_inputs", "structural_inputs", "valid_inputs", "all_valid_inputs", "schedule_on_start"):
            if f"lhs.{fld}==rhs.{fld}" not in txt and f"rhs.{fld}==lhs.{fld}" not in txt:
                run.finding("C03.e2", f"schema_equivalent:{fld}", f"NodeRuntimeRegistry::schema_equivalent does not compare {fld}", loc=NODE)

    with run.obligation("C03.e3", "K11", "the passive marker is part of the node's wiring identity, so a passive and an active use of the "
                        "same inputs never share one node (shared with C06.c2)"):
        from . import c06
        c06.arg_tag_identity(run, "C03.e3")

    with run.obligation("C03.f", "K1", "node start_impl self-schedules (node_index, NOW) iff schema and schedule_on_start and graph, after started:=true"):
        fa = R.fn(run, NODE, "start_impl")
        ST = r"node_storage\(.*\)\.started"
        roles = [Role("ST", "bool", ST, lvalue=True), Role("HASCB", "bool", r"callbacks\(context\)\.start"),
                 Role("SOS", "bool", r"view\.schema\(\)->schedule_on_start"), Role("NOSCHEMA", "bool", r"nullptr==view\.schema\(\)"),
                 Role("NOGRAPH", "bool", r"node_storage\(.*\)\.graph==nullptr"), Role("NOW", "t", r"evaluation_time")]

        def spec_ns(v):
            if v.b("ST"):
                return Expect(calls=[])
            calls = [("ACT", ("anyargs",))]
            if v.b("HASCB"):
                calls.append(("START", (ANY, "NOW")))
            if (not v.b("NOSCHEMA")) and v.b("SOS") and not v.b("NOGRAPH"):
                calls.append(("SCHEDULE", (("sym", r"node_storage\(.*\)\.node_index"), "NOW")))
            return Expect(calls=calls, stores={"ST": True}, throws="may")
        R.k1(run, "C03.f", fa, roles, spec_ns, role_calls={"ACT": r"activate_input_slots", "START": r"callbacks\(context\)\.start",
                                                          "SCHEDULE": r"node_storage\(.*\)\.graph->schedule_node"}, what="node start_impl")
        fl = R.flow(run, fa)
        R.k2_precede(run, "C03.f", fl, R.store_is(ST, r"true", region=""), R.call_is(name="schedule_node"), "started:=true before the self-schedule")

    with run.obligation("C03.g", "K1", "a node is also run by its own scheduled wake-up: a request for an earlier time always lowers the graph's next "
                        "cycle (shared with C02.a), so the cycle in which the node must run is actually visited"):
        sub = Run("C03", run.tier, run.tree, quiet=True)
        sub.is_sub = True
        if not getattr(run, "is_sub", False):
            c02.check(sub)
        run.evaluations += sub.evaluations
        run.count(1, "C03.g")
        for f in sub.findings:
            if f.rule == "C02.a":
                run.finding("C03.g", f.key, f.message, f.loc)
        for e in sub.errors:
            if e.startswith("C02.a:"):
                raise AnalysisError("model-mismatch", e)

    with run.obligation("C03.h", "K2", "a cycle that failed is never resumed from the failing node: the next cycle scans the (sub-)graph from node 0, so a node ranked before "
                        "the thrower still runs when its input ticks (shared with C01.d2)"):
        from . import c01
        R.share(run, "C03.h", c01, ["C01.d2"])

    with run.obligation("C03.i", "K11", "run-time make_passive prunes the activity trie upwards: the child removed from a parent is the pruned node's OWN slot (read before the "
                        "cursor moves to the parent), so passivating one structural input never erases - and thereby unsubscribes - a sibling that is still active"):
        fa = R.fn(run, "src/hgraph/types/time_series/ts_input.cpp", "TSInput::make_passive")
        cn = R.Canon()
        erases = [c for c in R.calls(fa, "erase") if isinstance(c.fn, C.Member) and cn(c.fn.obj).endswith("children")]
        run.sites(len(erases), 1, "trie prune erase")
        for c in erases:
            blk = next((b for b in fa.body.walk() if isinstance(b, C.Block) and any(any(x is c for x in st.walk()) for st in b.stmts)), None)
            inner = [b for b in fa.body.walk() if isinstance(b, C.Block) and any(any(x is c for x in st.walk()) for st in b.stmts)]
            blk = inner[-1]
            idx_e = next(i for i, st in enumerate(blk.stmts) if any(x is c for x in st.walk()))
            recv = cn(c.fn.obj).rsplit("->", 1)[0]                         # the node whose children are erased from
            key = c.args[0] if c.args else None
            run.count(1, "C03.i")
            decl_at = {d.name: (i, d) for i, st in enumerate(blk.stmts) if isinstance(st, C.Decl) for d in st.decls if d.name and d.init is not None}
            # the node X whose slot is the key, and where that slot is read
            if isinstance(key, C.Id) and key.name in decl_at:
                i_read, kd = decl_at[key.name]
                key_src = cn(kd.init)
            else:
                i_read, key_src = idx_e, (cn(key) if key is not None else "")
            ok = False
            m_ = re.fullmatch(r"(\w+)->slot", key_src)
            if m_:
                x = m_.group(1)
                moves = [i for i, st in enumerate(blk.stmts) if isinstance(st, C.ExprStmt) and isinstance(st.e, C.Binary) and st.e.op == "=" and cn(st.e.l) == x]
                is_parent_of_x = lambda e_txt: e_txt == f"{x}->parent" or (e_txt in decl_at and cn(decl_at[e_txt][1].init) == f"{x}->parent" and
                                                                          decl_at[e_txt][0] < (moves[0] if moves else len(blk.stmts)))
                moved_up = [i for i in moves if is_parent_of_x(cn(blk.stmts[i].e.r))]
                if recv == x:
                    # erase through the cursor itself: the cursor must have moved to the parent after the slot was read
                    ok = bool(moved_up) and i_read < moved_up[0] < idx_e and len(moves) == 1
                else:
                    # erase through a separate handle on the parent: X must still be the pruned node when its slot is read
                    ok = is_parent_of_x(recv) and (not moves or i_read < moves[0])
            if not ok:
                run.finding("C03.i", "TSInput::make_passive:prune-erases-wrong-slot", "the trie prune erases a child slot that is not the pruned node's own slot read before "
                            f"the cursor moved to the parent (erase key `{cn(key) if key is not None else '?'}` on `{cn(c.fn.obj)}`): a sibling input that is still active "
                            "is dropped from the activity trie and stops waking the node", loc=fa.loc(c))

        # the prune climbs only while the node at the cursor has NO active descendant left (has_any_active(): the node itself or, recursively, a child);
        # a weaker test (the node's own flag) erases an ancestor that still carries active siblings
        loops = [l for l in fa.body.walk() if isinstance(l, (C.While, C.For, C.DoWhile)) and any(any(x is c for x in l.body.walk()) for c in erases)]
        run.sites(len(loops), 1, "trie prune loop")
        for lp in loops:
            conj = []
            st = [lp.cond]
            while st:
                e = st.pop()
                if isinstance(e, C.Binary) and e.op == "&&":
                    st += [e.l, e.r]
                elif e is not None:
                    conj.append(cn(e).replace(" ", ""))
            cursor = {cn(c.fn.obj).rsplit("->", 1)[0] for c in erases}
            cursor |= {cn(x.l) for x in lp.body.walk() if isinstance(x, C.Binary) and x.op == "=" and isinstance(x.l, C.Id)}   # the variable the loop moves
            run.count(1, "C03.i.guard")
            if not any(re.fullmatch(r"!(\w+)->has_any_active\(\)", x) and re.fullmatch(r"!(\w+)->has_any_active\(\)", x).group(1) in cursor for x in conj):
                run.finding("C03.i", "TSInput::make_passive:prune-guard", f"the prune loop must continue only while the node at the cursor has no active descendant "
                            f"(`!cursor->has_any_active()`); its condition is {sorted(conj)}: an ancestor with other active children is erased and those inputs stop waking the node",
                            loc=fa.loc(lp))
        fh = R.fn(run, "src/hgraph/types/time_series/ts_input.cpp", "TSInputActiveTarget::has_any_active")
        ch = R.Canon()
        own = [s0 for s0 in fh.body.stmts if isinstance(s0, C.If) and ch(s0.cond) == "active" and [ch(r.e) for r in R.find(s0.then, lambda n: isinstance(n, C.Return))] == ["true"]]
        rec = [c for c in R.calls(fh, "has_any_active")]
        anyof = [c for c in R.calls(fh, "any_of") if isinstance(c.fn, C.Member) and ch(c.fn.obj) == "children"]
        run.count(1, "C03.i.has_any_active")
        if not (own and rec and anyof):
            run.finding("C03.i", "TSInputActiveTarget::has_any_active", "has_any_active() must be true iff the node itself is active or any child (recursively) is", loc=fh.loc(fh.body))

    with run.obligation("C03.j", "K7", "user code never runs for a wake-up that is no longer pending: the graph keeps ONE slot per node holding the earliest time it was ever "
                        "given; cancelling a request (un_schedule, pop_tag) or moving a tag later edits only the scheduler's own event set, so a slot written for a request "
                        "that was withdrawn in the same evaluation still brings the engine to the node - either the cancel paths retract the slot, or evaluate_impl gates "
                        "user code on `the scheduler fired or an input ticked` (the reference implementation's guard) (KNOWN FINDING F-C03-1 on the current tree)"):
        SCH = "include/hgraph/runtime/node_scheduler.h"
        retracts = {}
        for nm in ("un_schedule", "pop_tag"):
            fds_ = [f for f in run.tree.funcs(SCH, nm, "NodeScheduler") if f.body is not None]
            if not fds_:
                raise AnalysisError("anchor-vanished", f"NodeScheduler::{nm} not found")
            retracts[nm] = any(any(R.Canon()(c.fn).startswith("graph_->") for c in R.calls(R.parse(run, f))) for f in fds_)
        fa = R.fn(run, NODE, "evaluate_impl")
        cn = R.aliases_of(fa)
        gate = R.find(fa, lambda n: isinstance(n, C.Declarator) and n.name == "do_eval" and n.init is not None)
        run.sites(len(gate), 1, "do_eval gate")
        gtxt = cn(gate[0].init)
        gated = "scheduled_now" in gtxt or ".modified(" in gtxt or "any_input_modified" in gtxt
        run.count(1, "C03.j")
        run.sample({"rule": "C03.j", "cancel_paths_touch_graph_slot": retracts, "do_eval": gtxt[:200], "gated_on_cause": gated})
        if not any(retracts.values()) and not gated:
            run.finding("C03.j", "evaluate_impl:withdrawn-wake-up-runs-user-code", "NodeScheduler::un_schedule / pop_tag never touch the node's graph slot and evaluate_impl "
                        f"decides `do_eval` from input validity alone ({gtxt[:120]}): schedule(t, tag) followed in the same evaluation by un_schedule(tag) or schedule(t2 > t, tag) "
                        "leaves the slot at t, and at t user code runs with no ticked active input and no due wake-up", loc=fa.loc(gate[0]))

    with run.obligation("C03.k", "K7", "the input selectors a static node declares (active / structural / valid / all-valid lists) are numbered in INPUT space: in each of the four "
                        "collectors of StaticNodeSignature the running `input_index` advances only for eval parameters that are inputs (inside the is_input_selector arm), so a "
                        "State / Scalar / scheduler parameter placed before an input does not shift the slot the node subscribes or gates on; the four siblings agree"):
        SN = "include/hgraph/types/static_node.h"
        shapes = {}
        for nm in ("collect_active_input_slot", "collect_structural_input_slot", "collect_valid_input_slot", "collect_all_valid_input_slot"):
            fa_ = R.fn(run, SN, nm)
            cn_ = R.Canon()
            arms = [s0 for s0 in fa_.body.stmts if isinstance(s0, C.If) and "is_input_selector" in cn_(s0.cond)]
            incs_in = [x for a in arms for x in a.then.walk() if isinstance(x, (C.Unary, C.Postfix)) and x.op == "++" and cn_(x.e) == "input_index"]
            incs_all = [x for x in fa_.body.walk() if isinstance(x, (C.Unary, C.Postfix)) and x.op == "++" and cn_(x.e) == "input_index"]
            # the increment must be unconditional INSIDE the arm (a direct statement of the arm's block), exactly once
            direct = [st for a in arms for st in (a.then.stmts if isinstance(a.then, C.Block) else [a.then]) if isinstance(st, C.ExprStmt) and isinstance(st.e, (C.Unary, C.Postfix)) and
                      st.e.op == "++" and cn_(st.e.e) == "input_index"]
            shapes[nm] = (len(arms), len(incs_all), len(incs_in), len(direct))
            run.count(1, "C03.k")
            if len(arms) != 1 or len(incs_all) != 1 or len(direct) != 1:
                run.finding("C03.k", f"{nm}:input-index-not-in-input-space", f"StaticNodeSignature::{nm}: `++input_index` must be the one unconditional step of the is_input_selector arm "
                            f"(arms={len(arms)}, increments={len(incs_all)}, inside the arm={len(incs_in)}, unconditional there={len(direct)}): counting non-input parameters "
                            "shifts every later selector to the wrong input slot", loc=fa_.loc(fa_.body))
        run.sample({"rule": "C03.k", "shapes": shapes})


VARIANTS = [
    {"id": "k-seed-C03-8-active-selector-counts-every-parameter", "expect": "C03.k", "edits": [{"file": "include/hgraph/types/static_node.h", "find": "                if constexpr (E::activity == InputActivity::Active) { slots.push_back(input_index); }\n                ++input_index;\n            }", "replace": "                if constexpr (E::activity == InputActivity::Active) { slots.push_back(input_index); }\n            }\n            ++input_index;"}]},
    {"id": "i2-seed-C03-6-prune-guard-own-flag", "expect": "C03.i", "edits": [{"file": "src/hgraph/types/time_series/ts_input.cpp", "find": "        while (active != nullptr && !active->has_any_active())", "replace": "        while (active != nullptr && !active->active)"}]},
    {"id": "i2-has-any-active-ignores-children", "expect": "C03.i", "edits": [{"file": "src/hgraph/types/time_series/ts_input.cpp", "find": "            if (active) { return true; }\n            return children.any_of([](std::size_t, const TSInputActiveTarget &child) {\n                return child.has_any_active();\n            });", "replace": "            return active;"}]},
    {"id": "i-prune-reads-slot-after-move", "expect": "C03.i", "edits": [{"file": "src/hgraph/types/time_series/ts_input.cpp", "find": "            const auto slot = active->slot;\n            active = parent;\n            static_cast<void>(active->children.erase(slot));", "replace": "            active = parent;\n            static_cast<void>(active->children.erase(active->slot));"}]},
    {"id": "i-twin-erase-through-parent-first", "expect": None, "edits": [{"file": "src/hgraph/types/time_series/ts_input.cpp", "find": "            const auto slot = active->slot;\n            active = parent;\n            static_cast<void>(active->children.erase(slot));", "replace": "            const auto slot = active->slot;\n            static_cast<void>(parent->children.erase(slot));\n            active = parent;"}]},
    {"id": "e-passive-marker-ignores-declared-active-list", "expect": "C03.e", "edits": [{"file": NODE, "find": "        std::vector<std::size_t> active;\n        if (schema.active_inputs.has_value()) { active = *schema.active_inputs; }\n        else\n        {\n            active.resize(input_count);\n            for (std::size_t slot = 0; slot < input_count; ++slot) { active[slot] = slot; }\n        }", "replace": "        std::vector<std::size_t> active(input_count);\n        for (std::size_t slot = 0; slot < input_count; ++slot) { active[slot] = slot; }"}]},
    {"id": "a-activate-all", "expect": "C03.a", "edits": [{"file": NODE, "find": "            for (const std::size_t slot : *slots)\n            {\n                if (slot >= schema->field_count()) { throw std::out_of_range(\"Node active input selector is out of range\"); }\n                bundle[slot].make_active();", "replace": "            for (std::size_t slot = 0; slot < schema->field_count(); ++slot)\n            {\n                bundle[slot].make_active();"}]},
    {"id": "a-stop-skips-structural", "expect": "C03.a", "edits": [{"file": NODE, "find": "                bundle[slot].make_passive();\n            }\n        }\n\n        [[nodiscard]] bool ready_to_evaluate", "replace": "                static_cast<void>(slot);\n            }\n        }\n\n        [[nodiscard]] bool ready_to_evaluate"}]},
    {"id": "b-min-instead-of-max", "expect": "C03.b", "edits": [{"file": NODE, "find": "modified_time != MIN_DT ? std::max(modified_time, graph->view().evaluation_time())", "replace": "modified_time != MIN_DT ? std::min(modified_time, graph->view().evaluation_time())"}]},
    {"id": "c-valid-any", "expect": "C03.c", "edits": [{"file": NODE, "find": "                    if (!checked_slot(slot).valid()) { return false; }", "replace": "                    if (checked_slot(slot).valid()) { return true; }"}]},
    {"id": "c-all-valid-dropped", "expect": "C03.c", "edits": [{"file": NODE, "find": "                if (!checked_slot(slot).all_valid()) { return false; }", "replace": "                if (!checked_slot(slot).valid()) { return false; }"}]},
    {"id": "d-eval-when-not-ready", "expect": "C03.d", "edits": [{"file": NODE, "find": "            const bool do_eval = callbacks(context).input_validity_in_evaluate ||\n                                 !runtime.layout.has_input() ||", "replace": "            const bool do_eval = callbacks(context).input_validity_in_evaluate ||\n                                 !runtime.layout.has_input() || scheduled_now ||"}]},
    {"id": "e-passive-after-key", "expect": "C03.e", "edits": [{"file": WIRING, "find": "  if (!passive_slots.empty()) {\n    builder = builder.with_passive_inputs(\n        {passive_slots.data(), passive_slots.size()});\n  }\n\n  const WiringNodeSchema schema = resolved_schema_of(builder);", "replace": "  const WiringNodeSchema schema = resolved_schema_of(builder);\n  if (!passive_slots.empty()) {\n    builder = builder.with_passive_inputs(\n        {passive_slots.data(), passive_slots.size()});\n  }\n"}]},
    {"id": "e-structural-kept", "expect": "C03.e", "edits": [{"file": NODE, "find": "            std::erase(schema.structural_inputs, slot);\n", "replace": ""}]},
    {"id": "e2-equivalence-ignores-active", "expect": "C03.e2", "edits": [{"file": NODE, "find": "lhs.active_inputs == rhs.active_inputs", "replace": "lhs.active_inputs.has_value() == rhs.active_inputs.has_value()"}]},
    {"id": "f-schedule-before-started", "expect": "C03.f", "edits": [{"file": NODE, "find": "            state.started = true;\n            rollback.release();\n", "replace": "            rollback.release();\n"}, {"file": NODE, "find": "                state.graph->schedule_node(state.node_index, evaluation_time);\n            }\n        }\n\n        void stop_impl", "replace": "                state.graph->schedule_node(state.node_index, evaluation_time);\n            }\n            state.started = true;\n        }\n\n        void stop_impl"}]},
    {"id": "b-twin-max-swapped", "expect": None, "edits": [{"file": NODE, "find": "std::max(modified_time, graph->view().evaluation_time())", "replace": "std::max(graph->view().evaluation_time(), modified_time)"}]},
]
