"""C04 - modified / valid / last-modified-time tell the truth for producers and consumers."""
from __future__ import annotations

import re

from .. import cparse as C
from ..index import AnalysisError
from ..k1 import ANY, Expect, Role
from ..report import Run
from .. import rules as R

ID = "C04"
TYPES = "src/hgraph/types/time_series/ts_data/types.cpp"
BASE = "src/hgraph/types/time_series/ts_data/base_view.cpp"
BASEH = "include/hgraph/types/time_series/ts_data/base_view.h"
INPUT = "src/hgraph/types/time_series/ts_input/base_view.cpp"
FIXED = "src/hgraph/types/metadata/ts_data_fixed_structured_ops.cpp"

TECHNIQUE = ("decision tables (K1) of the tracking record and its readers, exact who-writes table of last_modified_time (K4), "
             "propagate-iff-newly-recorded family rule on the CFG (K7/K2), proxy purity (K4)")
EXPLANATION = (
    "Decides from the TSData layer: record_modified is monotone (throws on MIN_DT, no effect and no notification when t <= last, "
    "otherwise stores then notifies once and reports true); last_modified_time is written by exactly three functions; modified(t) is "
    "t != MIN_DT and last == t, a delta is readable only in its own cycle, an input is valid iff bound data is valid and has a current "
    "value; a parent is notified of a child's modification iff that modification was newly recorded (every function that both records "
    "and notifies obeys this, so a level ticks once per cycle and a fixed-shape parent ticks only through children); every write path "
    "marks the node modified iff the ops layer reported a new modification; input accessors are pure proxies (no cached copies). "
    "Not decided: per-shape delta content (C05), reference blending (C13).")
ASSUMPTIONS = ["observers.notify delivers to every subscribed observer (slot_observer fan-out)",
               "ops tables are wired to the functions of their own shape (C05.f / C20.a)"]
DECIDED = ["g input delta accessors gated on the current cycle", "a monotone record", "b writers of last_modified_time", "c readers", "d propagate iff newly recorded", "e every write marks",
           "f consumers are proxies", "h fixed-shape parent ticks only through its children",
           'l insertion tables projected (time validation, window roll, key-set stamp, value-published bit)', 'n a child notifies its parent once per cycle: census of notify_child_modified (known finding F-C04-3)', 'j also: sampled-rebind shortcut of delta_value only at the link root in the rebind cycle (found F-C04-2, fixed)',
           'k also: the guard of record_target_modified is boundness and nothing stronger', 'o copy / move whole-value assignment siblings perform the same bookkeeping']
NOT_DECIDED = ["delta content per shape", "reference blend rules"]

LMT_WRITERS = {
    "hgraph::TSDataTracking::record_modified": "the monotone recorder (clause a)",
    "hgraph::TSDataMutationView::invalidate": "explicit invalidation: := MIN_DT after notifying observers and parent",
    "bind": "mapped_key_source.h synthetic key source stamps its constant at bind time (C10.g)",
}


def check(run: Run) -> None:
    t = run.tree

    with run.obligation("C04.a", "K1+K2", "TSDataTracking::record_modified: throws iff t==MIN_DT; no store/notify and false iff t<=last; else "
                        "last:=t, then notify(t) once, true"):
        fa = R.fn(run, TYPES, "TSDataTracking::record_modified")
        roles = [Role("T", "t", r"modified_time"), Role("LMT", "t", r"last_modified_time", lvalue=True),
                 Role("MIN_DT", "t", r"MIN_DT", sentinel="min")]

        def spec(v):
            if v.eq("T", "MIN_DT"):
                return Expect(throws=True)
            if v.le("T", "LMT"):
                return Expect(ret=False, calls=[])
            return Expect(stores={"LMT": "T"}, calls=[("NOTIFY", ("T",))], ret=True)
        R.k1(run, "C04.a", fa, roles, spec, role_calls={"NOTIFY": r"observers\.notify"}, what="record_modified")
        fl = R.flow(run, fa)
        R.k2_precede(run, "C04.a", fl, R.store_is(r"last_modified_time", r"modified_time"), R.call_is(name="notify"),
                     "the timestamp is stored before observers are notified")

    with run.obligation("C04.b", "K4", "last_modified_time is written only by record_modified, invalidate and the synthetic map key source"):
        ws = [w for w in R.field_writers(t, "last_modified_time") if w[3] in ("store", "incdec")]
        run.sites(len(ws), 3, "stores to last_modified_time")
        seen = set()
        for rel, q, line, kind in ws:
            run.count(1)
            ok = q in LMT_WRITERS or (rel.endswith("mapped_key_source.h") and q.split("::")[-1] in ("bind", "MappedKeySource", "rebind"))
            seen.add(q)
            if not ok:
                run.finding("C04.b", f"writer:{q}", f"{q} writes last_modified_time directly (only record_modified / invalidate / the "
                            f"synthetic key source may): the timestamp no longer tells when the producer wrote", loc=f"{rel}:{line}")
        for need in ("hgraph::TSDataTracking::record_modified", "hgraph::TSDataMutationView::invalidate"):
            if need not in seen:
                raise AnalysisError("anchor-vanished", f"expected writer {need} not found")
        run.sample({"rule": "C04.b", "writers": sorted(seen)})
        # invalidate: notify observers and parent BEFORE clearing the timestamp
        fa = R.fn(run, BASE, "TSDataMutationView::invalidate")
        fl = R.flow(run, fa)
        clear = R.store_is(r".*last_modified_time", r"MIN_DT")
        R.k2_precede(run, "C04.b", fl, R.call_is(name="notify", recv=r".*observers"), clear, "invalidate notifies observers before clearing the timestamp")
        R.k2_precede(run, "C04.b", fl, R.call_is(name="notify_child_modified"), clear, "invalidate notifies the parent before clearing the timestamp")
        # children are invalidated BEFORE the node's own timestamp is cleared: a child's invalidation notifies this node as its parent and
        # would re-stamp it (the node would stay valid after invalidate)
        R.k2_never_after(run, "C04.b", fl, clear, lambda n: n.kind == "call" and n.name in ("invalidate", "notify_child_modified", "record_modified", "notify"),
                         "a child invalidation / notification after the node's own timestamp was cleared")

    with run.obligation("C04.c", "K1", "modified(t) iff t!=MIN_DT and last==t; a delta is readable only in its own cycle; input valid iff data "
                        "valid and has a current value"):
        fa = R.fn(run, BASE, "TSDataView::modified")
        roles = [Role("T", "t", r"evaluation_time"), Role("LMT", "t", r"tracking\(\)\.last_modified_time"), Role("MIN_DT", "t", r"MIN_DT", sentinel="min")]
        R.k1(run, "C04.c", fa, roles, lambda v: Expect(ret=(v.ne("T", "MIN_DT") and v.eq("LMT", "T"))), what="TSDataView::modified")
        fa = R.fn(run, BASE, "TSDataView::last_modified_time")
        rets = [R.Canon()(r.e) for r in R.find(fa, lambda n: isinstance(n, C.Return))]
        run.count(1, "C04.c.lmt")
        if rets != ["tracking().last_modified_time"]:
            run.finding("C04.c", "TSDataView::last_modified_time", f"must return the tracking record's timestamp, returns {rets}", loc=BASE)
        fa = R.fn(run, BASE, "TSDataView::delta_value")
        roles = [Role("T", "t", r"evaluation_time"), Role("LMT", "t", r"ops\(\)\.tracking_impl\(.*\)->last_modified_time"),
                 Role("MIN_DT", "t", r"MIN_DT", sentinel="min"), Role("NOIMPL", "bool", r"nullptr==ops\(\)\.delta_view_impl")]

        def spec_dv(v):
            if not v.b("NOIMPL"):
                return Expect(calls=[("IMPL", (ANY, ANY, "T"))])
            if v.eq("T", "MIN_DT") or v.ne("LMT", "T"):
                return Expect(calls=[], ret=("tuple", "ValueView", (ANY, ("sym", "nullptr"))))
            return Expect(calls=[("MEM", ("anyargs",))])
        R.k1(run, "C04.c", fa, roles, spec_dv, role_calls={"IMPL": r"ops\(\)\.delta_view_impl", "MEM": r"ops\(\)\.delta_memory_impl"},
             what="TSDataView::delta_value")
        fa = R.fn(run, INPUT, "TSInputView::valid")
        cn = R.aliases_of(fa)
        rets = [cn(r.e) for r in R.find(fa, lambda n: isinstance(n, C.Return))]
        run.count(1, "C04.c.valid")
        if len(rets) != 1 or not re.fullmatch(r"(.+)\.valid\(\)&&\1\.has_current_value\(\)", rets[0]):
            run.finding("C04.c", "TSInputView::valid", f"input valid must be data.valid() && data.has_current_value(), is {rets}", loc=INPUT)

    with run.obligation("C04.d", "K7", "every function that records a modification and notifies a parent never returns from a NEW record without the notification (duplicate notifications are idempotent and allowed)"):
        n = 0
        checked = []
        for rel in t.all_files():
            txt = t.read(rel)
            if "record_modified" not in txt or "notify_child_modified" not in txt:
                continue
            fi = t.file(rel)
            for fd in fi.funcs:
                body = fi.text(fd.body[0], fd.body[1])
                if "record_modified (" not in body or "notify_child_modified (" not in body:
                    continue
                # innermost functions only (lambdas are part of their enclosing function)
                if any(o is not fd and o.body[0] > fd.body[0] and o.body[1] < fd.body[1] and "record_modified (" in fi.text(o.body[0], o.body[1])
                       and "notify_child_modified (" in fi.text(o.body[0], o.body[1]) for o in fi.funcs):
                    continue
                try:
                    fa = R.parse(run, fd)
                    fl = R.flow(run, fa)
                except AnalysisError as e:
                    raise
                rec_cond = lambda x: x.kind == "cond" and "record_modified(" in x.label
                notes = fl.nodes_of(R.call_is(name="notify_child_modified"))
                recs = fl.nodes_of(lambda x: (x.kind == "call" and x.name == "record_modified"))
                if not notes or not recs:
                    continue
                n += 1
                checked.append(fd.qual)
                run.count(1, f"C04.d.{fd.qual}")
                # and a new record is never left without the notification (normal paths)
                w = fl.reach([s for s in fl.succ if rec_cond(fl.cfg.nodes[s[0]])], avoid=R.call_is(name="notify_child_modified"),
                             targets=lambda x: x.id == fl.cfg.exit, first_edge=lambda lab: lab == "T")
                if w is not None:
                    run.finding("C04.d", f"{fd.qual}:notify-missing", f"{fd.qual}: a newly recorded modification can return without notifying the "
                                f"parent: " + fl.path_text(w), loc=fl.cfg.describe(w[0][0]))
        run.sites(n, 4, "record+notify functions")
        run.sample({"rule": "C04.d", "functions": checked})

    with run.obligation("C04.e", "K1", "copy_value_from / move_value_from mark the node modified iff the ops layer reported a new modification"):
        for name, impl in (("copy_value_from", "copy_value_from_impl"), ("move_value_from", "move_value_from_impl")):
            fds = [f for f in t.funcs(BASE, name, "TSDataMutationView") if impl in t.file(BASE).text(f.body[0], f.body[1])]
            run.sites(len(fds), 1, name)
            fa = R.parse(run, fds[0])
            roles = [Role("NEW", "bool", r"ops\(\)\." + impl + r"\(.*\)")]
            R.k1(run, "C04.e", fa, roles, lambda v: Expect(calls=[("MARK", (ANY,))], ret=True, throws="may") if v.b("NEW") else
                 Expect(calls=[], ret=False, throws="may"), role_calls={"MARK": r"mark_modified"}, what=f"TSDataMutationView::{name}")
        fds = [f for f in t.funcs(BASEH, "mark_modified", "TSDataMutationView") if t.param_count(f) == 1]
        run.sites(len(fds), 1, "mark_modified(table)")
        fa = R.parse(run, fds[0])
        roles = [Role("REC", "bool", r"table\.mutable_tracking_impl\(.*\)->record_modified\(mutation_time_\)|\(\*table\.mutable_tracking_impl\(.*\)\)\.record_modified\(mutation_time_\)")]
        R.k1(run, "C04.e", fa, roles, lambda v: Expect(calls=[("NOTIFY", (ANY,))], throws="may") if v.b("REC") else Expect(calls=[], throws="may"),
             role_calls={"NOTIFY": r".*parent\.notify_child_modified"}, what="TSDataMutationView::mark_modified")

    with run.obligation("C04.f", "K4", "TSInputView accessors are pure proxies: they contain no store to any member and call no mutator"):
        names = ["value", "modified", "last_modified_time", "valid", "all_valid", "delta_value"]
        n = 0
        for nm in names:
            for fd in t.funcs(INPUT, nm, "TSInputView"):
                fa = R.parse(run, fd)
                n += 1
                run.count(1)
                st = [x for x in fa.body.walk() if isinstance(x, C.Binary) and x.op in C._ASSIGN and not isinstance(x.l, C.Id)]
                st += [x for x in fa.body.walk() if isinstance(x, C.Binary) and x.op in C._ASSIGN and isinstance(x.l, C.Id) and x.l.name.endswith("_")]
                muts = [c for c in R.calls(fa) if R.callee_name(c) in ("copy_value_from", "move_value_from", "record_modified", "mark_modified",
                                                                      "begin_mutation", "apply_delta", "invalidate")]
                if st or muts:
                    run.finding("C04.f", f"TSInputView::{nm}", f"TSInputView::{nm} stores state or mutates data (inputs must read through to the bound output)",
                                loc=fa.loc((st + muts)[0]))
        run.sites(n, 5, "input accessors")

    with run.obligation("C04.g", "K7", "input-side delta accessors of TSS/TSD inputs answer only in the cycle that produced the delta: every "
                        "added/removed/modified accessor (ranges AND per-slot probes) is gated on modified() / structure_modified()"):
        fam = [("src/hgraph/types/time_series/ts_input/set_view.cpp", "TSSInputView", r"added|removed|added_values|removed_values|slot_added|slot_removed", ("modified()",)),
               ("src/hgraph/types/time_series/ts_input/dict_view.cpp", "TSDInputView",
                r"modified_keys|modified_values|modified_items", ("modified()",)),
               ("src/hgraph/types/time_series/ts_input/dict_view.cpp", "TSDInputView",
                r"added_keys|added_values|added_items|removed_keys|removed_values|removed_items|slot_added|slot_removed", ("structure_modified()",))]
        n = 0
        for rel, cls, names, guards in fam:
            for fd in [f for f in t.file(rel).funcs if f.cls == cls and re.fullmatch(names, f.name)]:
                fa = R.parse(run, fd)
                cn = R.aliases_of(fa)
                fl = R.flow(run, fa)
                n += 1
                run.count(1, f"C04.g.{cls}::{fd.name}")
                raw = lambda x: x.kind == "call" and x.recv == "data_view()" and re.fullmatch(
                    r"added|removed|added_values|removed_values|slot_added|slot_removed|modified_keys|added_keys|removed_keys|slot_modified", x.name or "")
                # any path to a raw delta read (or to a non-empty range construction) passes a T-outcome of the current-cycle guard
                gate = lambda node, lab: node.kind == "cond" and node.label in guards and lab == "T"
                tgt = lambda x: raw(x) or (x.kind == "stmt" and x.label.startswith("return ") and "empty_input" not in x.label and "false" != x.label[7:].strip()
                                           and not x.label.startswith("return modified()&&") and not x.label.startswith("return !view_."))
                w = fl.reach([fl.start], targets=tgt, after_source=False, edge_skip=gate)
                # single-expression forms: `return guard && ...` / `sampled ? live : guard && raw`
                exprs = [cn(r.e) for r in R.find(fa, lambda x: isinstance(x, C.Return)) if r.e is not None]
                inline_ok = all(any(g in e for g in guards) or "empty_input" in e or e in ("false",) for e in exprs)
                if w is not None and not inline_ok:
                    run.finding("C04.g", f"{cls}::{fd.name}:ungated", f"{cls}::{fd.name} exposes delta state without testing {' / '.join(guards)} first: the "
                                f"producer clears its delta masks lazily, so an idle cycle would read the previous tick's delta", loc=f"{rel}:{fd.line}")
        run.sites(n, 15, "input delta accessors")

    with run.obligation("C04.h", "K1", "fixed_copy_value_from / fixed_move_value_from report a new modification only when a child reported one "
                        "and was newly recorded; fixed_record_child_modified records nothing of its own"):
        for name, impl in (("fixed_copy_value_from", "copy_value_from_impl"), ("fixed_move_value_from", "move_value_from_impl")):
            fa = R.fn(run, FIXED, name)
            lp = [l for l in R.loops(fa, into_lambdas=False) if isinstance(l, C.For) and R.calls(l.body, impl)]
            run.sites(len(lp), 1, f"{name} child loop")
            roles = [Role("HASVAL", "bool", r".*\.has_value\(\)"), Role("CHILDNEW", "bool", r"child_ops\(.*\)\." + impl + r"\(.*\)"),
                     Role("NOTRACK", "bool", r"child_ops\(.*\)\.mutable_tracking_impl\(.*\)==nullptr|nullptr==child_ops\(.*\)\.mutable_tracking_impl\(.*\)"),
                     Role("REC", "bool", r"child_ops\(.*\)\.mutable_tracking_impl\(.*\)->record_modified\(modified_time\)"),
                     Role("NM", "bool", r"newly_modified", lvalue=True)]

            def spec(v):
                if not v.b("HASVAL"):
                    return Expect(ret="continue")
                if not v.b("CHILDNEW"):
                    return Expect()
                if v.b("NOTRACK") or not v.b("REC"):
                    return Expect(throws=True)
                return Expect(stores={"NM": True})
            R.k1(run, "C04.h", fa, roles, spec, unit=lp[0].body, role_locals=("newly_modified",), what=name)
            cn = R.aliases_of(fa)
            rets = [cn(r.e) for r in R.find(fa, lambda n: isinstance(n, C.Return), into_lambdas=False)]
            decl = [d for d in R.find(fa, lambda n: isinstance(n, C.Declarator) and n.name == "newly_modified")]
            run.count(1, f"C04.h.{name}")
            if rets != ["newly_modified"] or len(decl) != 1 or cn(decl[0].init) != "false":
                run.finding("C04.h", f"{name}:result", f"{name} must return the child-driven flag initialised to false: returns {rets}", loc=FIXED)
            sh = R.loop_shape(lp[0], cn)
            if sh.get("init") != "0" or not sh.get("cond_r", "").endswith("element_count()") or sh.get("step") != "++" or sh["breaks"] or sh["returns"]:
                run.finding("C04.h", f"{name}:loop", f"every child must be visited: {sh}", loc=FIXED)
        fa = R.fn(run, FIXED, "fixed_record_child_modified")
        bad = [c for c in R.calls(fa) if R.callee_name(c) in ("record_modified", "notify", "notify_child_modified")]
        if bad:
            run.finding("C04.h", "fixed_record_child_modified", "the fixed-shape child hook must not record a modification of its own", loc=FIXED)

    with run.obligation("C04.i", "K1+K2", "the delta window of a set / dictionary is rolled by EVERY write at a new time (touch-only writes included), so the "
                        "previous tick's added/removed bits are never readable as this tick's delta; every membership change of a dictionary stamps "
                        "the key set's own modification time (C05.b shared; the removal tables of C05.g projected onto time validation, window roll and "
                        "the key-set stamp - what the removal does to the added/removed bits is C05's business, not C04's)"):
        from . import c05
        sub = Run("C04", run.tier, run.tree, quiet=True)
        sub.is_sub = True
        if not getattr(run, "is_sub", False):
            c05.check(sub)
        run.evaluations += sub.evaluations
        run.count(1, "C04.i")
        for f in sub.findings:
            if f.rule == "C05.b":
                run.finding("C04.i", f.key, f.message, f.loc)
        for e in sub.errors:
            if e.startswith("C05.b:"):
                raise AnalysisError("model-mismatch", e)
        c05.removal_tables(run, "C04.i", keep={"VALIDATE", "PREPARE", "KEYSET"})

    with run.obligation("C04.l", "K1", "insertion tables of TSS/TSD insert_key / insert_key_move projected onto what decides a key's visibility and time stamps: time validated, "
                        "window rolled, the dictionary's key-set endpoint stamped, and the value-published bit (the bit that makes a dictionary child visible to every "
                        "consumer) set when a slot removed in this cycle is revived or a new key's child already has a value (C05.k shared; added/removed bits are C05's)"):
        from . import c05 as c05_
        c05_.insertion_tables(run, "C04.l", keep={"VALIDATE", "PREPARE", "PUBLISH", "KEYSET"})

    with run.obligation("C04.k", "K11", "a forwarding output that loses or changes its target reads as modified in that cycle (its value changed): record_target_modified is "
                        "guarded by whether a target WAS bound, a fact snapshotted BEFORE the (un)bind call - read afterwards it is always false and the change is silent"):
        OB = "src/hgraph/types/time_series/ts_output/base_view.cpp"
        cn = R.Canon()
        n_guard = 0
        for name in ("TSOutputView::bind_forwarding_target", "TSOutputView::clear_forwarding_target", "TSOutputView::clear_forwarding_target_sampled"):
            fa = R.fn(run, OB, name)
            top = fa.body.stmts
            mut_idx = [i for i, st in enumerate(top) if any(R.callee_name(c) in ("unbind_target_link", "bind_target_link", "unbind") for c in R.calls(st))
                       and not isinstance(st, C.If)]
            if not mut_idx:
                raise AnalysisError("anchor-vanished", f"C04.k: no (un)bind call at the top level of {name}")
            m_i = mut_idx[-1]
            snaps = {d.name for i, st in enumerate(top[:m_i]) if isinstance(st, C.Decl) for d in st.decls
                     if d.name and d.init is not None and any(R.callee_name(c) in ("forwarding_target", "bound") for c in R.calls(d.init) + ([d.init] if isinstance(d.init, C.Call) else []))}
            recs = [st for st in top[m_i + 1:] if isinstance(st, C.If) and any(R.callee_name(c) == "record_target_modified" for c in R.calls(st.then))]
            run.count(1, "C04.k")
            if not recs:
                run.finding("C04.k", f"{name}:no-modified-record", f"{name} changes the forwarding target without recording the endpoint as modified", loc=fa.loc(top[m_i]))
                continue
            n_guard += 1
            cond = recs[0].cond
            uses_snap = any(isinstance(x, C.Id) and x.name in snaps for x in cond.walk())
            late = []
            for c in R.calls(cond):
                if R.callee_name(c) == "bound":      # (a late forwarding_target() is legitimate: bind compares the NEW target with the snapshot)
                    root = c.fn
                    while isinstance(root, C.Member):
                        root = root.obj
                    if not (isinstance(root, C.Id) and root.name in snaps):
                        late.append(cn(c))
            if not uses_snap or late:
                run.finding("C04.k", f"{name}:boundness-read-after-unbind", f"{name}: the guard of record_target_modified ({cn(cond)[:120]}) does not use a boundness snapshot "
                            f"taken before the (un)bind call{' and reads ' + ', '.join(late) + ' afterwards' if late else ''}: clearing a bound target no longer ticks the "
                            "endpoint (value gone, modified false, last_modified_time stale, observers not notified)", loc=fa.loc(recs[0]))
            # ... and nothing STRONGER than boundness: a target that was bound but had no value yet still changes what the endpoint reads when it is replaced
            bool_locals = {d.name: d.init for st in top if isinstance(st, C.Decl) for d in st.decls if d.name and d.init is not None and not d.ref and not d.ptr}
            conj_k, st_k = [], [cond]
            while st_k:
                x = st_k.pop()
                if isinstance(x, C.Binary) and x.op == "&&":
                    st_k += [x.l, x.r]
                elif isinstance(x, C.Id) and x.name in bool_locals and isinstance(bool_locals[x.name], (C.Binary, C.Unary, C.Call)):
                    st_k.append(bool_locals[x.name])          # a named boolean fact: look at what it was computed from
                elif x is not None:
                    conj_k.append(cn(x).replace(" ", ""))
            extra = [x for x in conj_k if not re.fullmatch(r"\(?(evaluation_time_!=MIN_DT|MIN_DT!=evaluation_time_|!\(evaluation_time_==MIN_DT\)|!\(MIN_DT==evaluation_time_\)|[\w.()>-]+(\.|->)bound\(\)|"
                                                           r"![\w.()>-]+\.same_as\([\w.()>-]+\))\)?", x)]
            if extra:
                run.finding("C04.k", f"{name}:guard-stronger-than-boundness", f"{name}: record_target_modified is additionally guarded by {extra}: replacing / clearing a target that was "
                            "bound but (for example) not yet valid then changes what the endpoint reads without marking it modified (valid flips with modified == false, "
                            "last_modified_time shows the new producer's old tick)", loc=fa.loc(recs[0]))
        run.sites(n_guard, 3, "guarded record_target_modified after a forwarding (un)bind")

    with run.obligation("C04.j", "K1", "a consumer's child view reports the child's own last_modified_time: the link time is blended in only at the root of a link (the "
                        "input accessor tables, shared with C13.c); the sampled-rebind shortcut of delta_value (`the delta IS the current value`) is taken only at the link root and "
                        "only in the cycle of the rebind (link time == this cycle), the guards modified() uses for the same link record - children of a peered composite share the "
                        "ROOT link's record and the record stays newer than an old target until that target ticks again, so an unkeyed test makes a delta readable in cycles "
                        "that did not produce it (found F-C04-2, fixed)"):
        from . import c13
        R.share(run, "C04.j", c13, ["C13.c"])

    with run.obligation("C04.n", "K7", "a child tells its parent about a modification ONCE per cycle: every call of notify_child_modified is control-dependent on a NEW record "
                        "(record_modified(t) returned true), because the parent hook of a dynamic list appends the child to a per-cycle ring and is not idempotent (C05.j) - a "
                        "second notification of an already linked child rewires the ring and drops the children between it and the tail from the parent's delta; census of "
                        "the call sites with the confirmed exceptions (KNOWN FINDING F-C04-3: invalidate())"):
        EXC = {   # function -> reason (confirmed by reading)
            "notify_child_modified": "the definition: forwards upwards only when the PARENT's own record is new",
            "notify_parent_modified": "plain forwarding helper of the mutation view; no caller in the tree",
            "finalize_mapped_child_output": "map_ child output inside the owner's dictionary: the keyed parent hook sets a bit (idempotent); deliberately unconditional, see its comment",
        }
        n_calls = 0
        for rel in t.all_files():
            if not (rel.startswith("src/hgraph/") or rel.startswith("include/hgraph/")) or "notify_child_modified" not in t.read(rel):
                continue
            fi = t.file(rel)
            for fd in fi.funcs:
                if fd.body is None or "notify_child_modified (" not in fi.text(fd.body[0], fd.body[1]):
                    continue
                if any(o is not fd and o.body is not None and o.body[0] > fd.body[0] and o.body[1] < fd.body[1] and "notify_child_modified (" in fi.text(o.body[0], o.body[1]) for o in fi.funcs):
                    continue
                fa = R.parse(run, fd, strict=False)
                cn = R.aliases_of(fa)
                for c in R.calls(fa, "notify_child_modified"):
                    n_calls += 1
                    run.count(1, "C04.n")
                    if fd.name in EXC:
                        continue
                    # ancestors of the call
                    chain = []
                    def find_path(n, path):
                        if n is c:
                            chain.extend(path)
                            return True
                        for ch in n.children():
                            if find_path(ch, path + [n]):
                                return True
                        return False
                    find_path(fa.body, [])
                    ok = False
                    for a_i, anc in enumerate(chain):
                        if isinstance(anc, C.If):
                            ctxt = cn(anc.cond).replace(" ", "")
                            in_then = a_i + 1 < len(chain) and chain[a_i + 1] is anc.then or any(x is c for x in anc.then.walk())
                            if in_then and "record_modified(" in ctxt and not ctxt.startswith("!"):
                                ok = True
                        if isinstance(anc, C.Block):
                            nxt = chain[a_i + 1] if a_i + 1 < len(chain) else c
                            for st in anc.stmts:
                                if st is nxt or any(x is c for x in st.walk()):
                                    break
                                if isinstance(st, C.If) and "record_modified(" in cn(st.cond) and cn(st.cond).replace(" ", "").startswith("!") and \
                                        any(isinstance(x, (C.Return, C.Throw)) for x in st.then.walk()):
                                    ok = True
                    if not ok:
                        run.finding("C04.n", f"{fd.name}:parent-notified-without-new-record", f"{fd.qual} calls notify_child_modified on a path that does not depend on a NEW "
                                    "modification record: a child that was already written in this cycle notifies its parent a second time, and the dynamic list's per-cycle ring "
                                    "is rewired (children between the re-appended entry and the tail vanish from delta_value / modified items)", loc=fa.loc(c))
        run.sites(n_calls, 8, "notify_child_modified call sites")

    with run.obligation("C04.o", "K7", "whole-value COPY and MOVE assignment of every storage kind (atomic, fixed TSB/TSL, dynamic TSL, window, forwarding target link) perform the same "
                        "bookkeeping: the multiset of bookkeeping calls they make (records, notifications, window / capacity maintenance, structural edits - accessors are not counted) is equal once the transfer-specific calls are set aside (the copy/move primitive itself, the binding / "
                        "payload accessors and the argument checks of the move path) - a step one sibling forgets (a record, a parent notification, a window roll) is a "
                        "modification the other sibling reports and this one does not"):
        from collections import Counter
        STEP = re.compile(r"record|notify|touch|mark|prepare|reset|clear|roll|stamp|publish|erase|insert|remove|invalidate|push|pop|append")  # tracking / structural steps; accessors and capacity management (reserve, ensure_capacity) are not counted
        XFER = {"X", "binding", "data", "valid", "writable_payload", "ctx", "has_value", "invalid_argument", "logic_error", "schema", "value_kind", "name"}
        PAIRS = [("src/hgraph/types/metadata/ts_data_atomic_ops.cpp", "atomic_copy_value_from", "atomic_move_value_from"),
                 ("src/hgraph/types/metadata/ts_data_fixed_structured_ops.cpp", "fixed_copy_value_from", "fixed_move_value_from"),
                 ("src/hgraph/types/metadata/ts_data_dynamic_list_ops.cpp", "dynamic_copy_value_from", "dynamic_move_value_from"),
                 ("src/hgraph/types/metadata/ts_data_window_ops.cpp", "window_copy_value_from", "window_move_value_from"),
                 ("src/hgraph/types/time_series/ts_input/target_link_ops.cpp", "target_link_copy_value_from", "target_link_move_value_from")]

        def steps(fa_):
            out = Counter()
            for c in R.calls(fa_):
                nm = re.sub(r"copy|move", "X", (R.callee_name(c) or "").split("::")[-1])
                if nm and nm not in XFER and STEP.search(nm):
                    out[nm] += 1
            return out
        for rel, a, b in PAIRS:
            fa_a, fa_b = R.fn(run, rel, a), R.fn(run, rel, b)
            sa, sb = steps(fa_a), steps(fa_b)
            run.count(1, "C04.o")
            if sa != sb:
                only_a = sorted((sa - sb).elements())
                only_b = sorted((sb - sa).elements())
                run.finding("C04.o", f"{a}/{b}:bookkeeping-differs", f"{a} and {b} do not perform the same bookkeeping: only the copy path calls {only_a}, only the move path calls "
                            f"{only_b}", loc=fa_b.loc(fa_b.body))
        run.sites(len(PAIRS), 5, "copy / move sibling pairs")


VARIANTS = [
    {"id": "k-seed-C04-8-retarget-only-from-valid", "expect": "C04.k", "edits": [{"file": "src/hgraph/types/time_series/ts_output/base_view.cpp", "find": "        if (evaluation_time_ != MIN_DT && previous.bound() && !previous.same_as(forwarding_target()))", "replace": "        const bool previous_was_valid = previous.bound() && previous.view(evaluation_time_).valid();\n        if (evaluation_time_ != MIN_DT && previous_was_valid && !previous.same_as(forwarding_target()))"}]},
    {"id": "o-fixed-move-forgets-record", "expect": "C04.o", "edits": [{"file": "src/hgraph/types/metadata/ts_data_fixed_structured_ops.cpp", "find": "if (!tracking->record_modified(modified_time))", "replace": "if (tracking->last_modified_time == MIN_DT)", "nth": 1}]},
    {"id": "n-proxy-notifies-unconditionally", "expect": "C04.n", "edits": [{"file": "src/hgraph/types/time_series/ts_data/proxy.cpp", "find": "        if (tracking_.record_modified(modified_time)) { tracking_.parent.notify_child_modified(modified_time); }", "replace": "        static_cast<void>(tracking_.record_modified(modified_time));\n        tracking_.parent.notify_child_modified(modified_time);"}]},
    {"id": "l-seed-C04-5-revived-slot-not-republished", "expect": "C04.l", "edits": [{"file": "src/hgraph/types/metadata/ts_data_slot_ops.cpp", "find": "                if (slot_removed(result.slot))\n                {\n                    removed_.reset(result.slot);\n                    value_published_.set(result.slot);\n                }\n                else if (child_valid(result.slot))\n                {\n                    value_published_.set(result.slot);\n                    added_.set(result.slot);\n                }\n                (void)key_set_tracking_.record_modified(modified_time);\n                return mutation_result(result.slot, result.constructed);\n            }\n\n            [[nodiscard]] SlotTSDataMutationResult insert_key_move", "replace": "                if (slot_removed(result.slot)) { removed_.reset(result.slot); }\n                else if (child_valid(result.slot))\n                {\n                    value_published_.set(result.slot);\n                    added_.set(result.slot);\n                }\n                (void)key_set_tracking_.record_modified(modified_time);\n                return mutation_result(result.slot, result.constructed);\n            }\n\n            [[nodiscard]] SlotTSDataMutationResult insert_key_move"}]},
    {"id": "l-insert-forgets-keyset-stamp", "expect": "C04.l", "edits": [{"file": "src/hgraph/types/metadata/ts_data_slot_ops.cpp", "find": "                (void)key_set_tracking_.record_modified(modified_time);\n                return mutation_result(result.slot, result.constructed);\n            }\n\n            [[nodiscard]] SlotTSDataMutationResult remove_key", "replace": "                return mutation_result(result.slot, result.constructed);\n            }\n\n            [[nodiscard]] SlotTSDataMutationResult remove_key"}]},
    {"id": "k-clear-reads-bound-after-unbind", "expect": "C04.k", "edits": [{"file": "src/hgraph/types/time_series/ts_output/base_view.cpp", "find": "        const TSOutputHandle previous = forwarding_target();\n        detail::unbind_target_link(data_);\n        if (evaluation_time_ != MIN_DT && previous.bound())\n        {\n            detail::mutable_target_link_storage(data_)->record_target_modified(evaluation_time_);", "replace": "        auto *link = detail::mutable_target_link_storage(data_);\n        link->unbind();\n        if (evaluation_time_ != MIN_DT && link->bound())\n        {\n            link->record_target_modified(evaluation_time_);"}]},
    {"id": "k-sampled-clear-reads-bound-late", "expect": "C04.k", "edits": [{"file": "src/hgraph/types/time_series/ts_output/base_view.cpp", "find": "        const bool was_bound = link->bound();\n        link->unbind();\n        if (was_bound) { link->record_target_modified(evaluation_time_); }", "replace": "        link->unbind();\n        const bool was_bound = link->bound();\n        if (was_bound) { link->record_target_modified(evaluation_time_); }"}]},
    {"id": "k-twin-bool-snapshot", "expect": None, "edits": [{"file": "src/hgraph/types/time_series/ts_output/base_view.cpp", "find": "        const TSOutputHandle previous = forwarding_target();\n        detail::unbind_target_link(data_);\n        if (evaluation_time_ != MIN_DT && previous.bound())", "replace": "        const bool had_target = forwarding_target().bound();\n        detail::unbind_target_link(data_);\n        if (evaluation_time_ != MIN_DT && had_target)"}]},
    {"id": "a-rewind", "expect": "C04.a", "edits": [{"file": TYPES, "find": "if (modified_time <= last_modified_time) { return false; }", "replace": "if (modified_time == last_modified_time) { return false; }"}]},
    {"id": "a-renotify", "expect": "C04.a", "edits": [{"file": TYPES, "find": "if (modified_time <= last_modified_time) { return false; }", "replace": "if (modified_time <= last_modified_time) { observers.notify(modified_time); return false; }"}]},
    {"id": "a-notify-before-store", "expect": "C04.a", "edits": [{"file": TYPES, "find": "        last_modified_time = modified_time;\n        observers.notify(modified_time);", "replace": "        observers.notify(modified_time);\n        last_modified_time = modified_time;"}]},
    {"id": "b-foreign-writer", "expect": "C04.b", "edits": [{"file": BASE, "find": "bool TSDataMutationView::copy_value_from(const ValueView &source) {\n  require_active_mutation();\n", "replace": "bool TSDataMutationView::copy_value_from(const ValueView &source) {\n  require_active_mutation();\n  ops().mutable_tracking_impl(ops().context, storage_.data())->last_modified_time = mutation_time_;\n"}]},
    {"id": "b-invalidate-clears-first", "expect": "C04.b", "edits": [{"file": BASE, "find": "  state.observers.notify(mutation_time_);\n  state.parent.notify_child_modified(mutation_time_);\n  state.last_modified_time = MIN_DT;", "replace": "  state.last_modified_time = MIN_DT;\n  state.observers.notify(mutation_time_);\n  state.parent.notify_child_modified(mutation_time_);"}]},
    {"id": "b-invalidate-self-before-children", "expect": "C04.b", "edits": [{"file": BASE, "find": "  const auto &table = current.ops();\n  if (const auto *ownership = table.ownership_ops; ownership != nullptr) {", "replace": "  const auto &table = current.ops();\n  {\n    auto &state0 = *table.mutable_tracking_impl(table.context, storage_.data());\n    state0.observers.notify(mutation_time_);\n    state0.parent.notify_child_modified(mutation_time_);\n    state0.last_modified_time = MIN_DT;\n  }\n  if (const auto *ownership = table.ownership_ops; ownership != nullptr) {"}, {"file": BASE, "find": "  state.observers.notify(mutation_time_);\n  state.parent.notify_child_modified(mutation_time_);\n  state.last_modified_time = MIN_DT;\n  return true;", "replace": "  return true;"}]},
    {"id": "c-modified-ge", "expect": "C04.c", "edits": [{"file": BASE, "find": "         tracking().last_modified_time == evaluation_time;", "replace": "         tracking().last_modified_time >= evaluation_time;"}]},
    {"id": "c-stale-delta", "expect": "C04.c", "edits": [{"file": BASE, "find": "  if (evaluation_time == MIN_DT ||\n      data_tracking->last_modified_time != evaluation_time) {\n    return ValueView{data_layout->delta_binding, nullptr};", "replace": "  if (evaluation_time == MIN_DT ||\n      data_tracking->last_modified_time == MIN_DT) {\n    return ValueView{data_layout->delta_binding, nullptr};"}]},
    {"id": "c-input-valid-unbound", "expect": "C04.c", "edits": [{"file": INPUT, "find": "return data.valid() && data.has_current_value();", "replace": "return data.valid();"}]},
    {"id": "d-twin-parent-always", "expect": None, "edits": [{"file": TYPES, "find": "if (state.record_modified(mutation_time)) { state.parent.notify_child_modified(mutation_time); }", "replace": "static_cast<void>(state.record_modified(mutation_time));\n        state.parent.notify_child_modified(mutation_time);"}]},
    {"id": "d-recursion-stops", "expect": "C04.d", "edits": [{"file": TYPES, "find": "if (state.record_modified(mutation_time)) { state.parent.notify_child_modified(mutation_time); }", "replace": "if (state.record_modified(mutation_time) && state.observers.entries_empty()) { state.parent.notify_child_modified(mutation_time); }"}]},
    {"id": "d-mark-no-propagate", "expect": "C04", "edits": [{"file": BASEH, "find": "            if (state.record_modified(mutation_time_))\n            {\n                state.parent.notify_child_modified(mutation_time_);\n            }", "replace": "            static_cast<void>(state.record_modified(mutation_time_));"}]},
    {"id": "e-copy-no-mark", "expect": "C04.e", "edits": [{"file": BASE, "find": "  const bool newly_modified = table.copy_value_from_impl(\n      table.context, storage_.data(), source, mutation_time_);\n  if (newly_modified) {", "replace": "  const bool newly_modified = table.copy_value_from_impl(\n      table.context, storage_.data(), source, mutation_time_);\n  if (newly_modified && !modified(mutation_time_)) {"}]},
    {"id": "g-removed-valid-not-modified", "expect": "C04.g", "edits": [{"file": "src/hgraph/types/time_series/ts_input/set_view.cpp", "find": "    Range<ValueView> TSSInputView::removed() const\n    {\n        if (!modified())", "replace": "    Range<ValueView> TSSInputView::removed() const\n    {\n        if (!valid())"}]},
    {"id": "g-revert-slot-probe-fix", "expect": "C04.g", "edits": [{"file": "src/hgraph/types/time_series/ts_input/set_view.cpp", "find": "        return modified() && !view_.inherited_sampled_transition() && data_view().slot_removed(slot);", "replace": "        return data_view().slot_removed(slot);"}]},
    {"id": "h-parent-self-tick", "expect": "C04.h", "edits": [{"file": FIXED, "find": "            bool newly_modified = false;\n            for (std::size_t index = 0; index < state->element_count(); ++index)\n            {\n                auto source_value = source_values.at(index);\n                if (!source_value.has_value()) { continue; }\n                const auto child = state->element_type(index);\n                const auto &ops  = child_ops(child);\n                void       *data  = child_data(state, memory, index);\n                if (ops.copy_value_from_impl(", "replace": "            bool newly_modified = state->element_count() != 0;\n            for (std::size_t index = 0; index < state->element_count(); ++index)\n            {\n                auto source_value = source_values.at(index);\n                if (!source_value.has_value()) { continue; }\n                const auto child = state->element_type(index);\n                const auto &ops  = child_ops(child);\n                void       *data  = child_data(state, memory, index);\n                if (ops.copy_value_from_impl("}]},
    {"id": "c-twin-operand-swap", "expect": None, "edits": [{"file": BASE, "find": "         tracking().last_modified_time == evaluation_time;", "replace": "         evaluation_time == tracking().last_modified_time;"}]},
]
