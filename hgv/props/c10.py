"""C10 - map_ runs one isolated instance per key and mirrors the key set (partial)."""
from __future__ import annotations

import re

from .. import cparse as C
from ..index import AnalysisError
from ..k1 import ANY, Expect, Role
from ..report import Run
from .. import rules as R

ID = "C10"
PARTIAL = True
MAP = "src/hgraph/runtime/map_node.cpp"
TSL = "src/hgraph/runtime/tsl_map_node.cpp"
KEYSRC = "src/hgraph/runtime/mapped_key_source.h"

TECHNIQUE = ("ordering rules on the CFG of the per-key lifetime functions incl. the rollback guard (K2/K2-EH), field-order (K9), decision tables "
             "of the schedule-queue functions (K1), dominance of current-cycle tests over raw delta scans (K2), shared owner/capture rules (K7)")
EXPLANATION = (
    "PARTIAL: decides the structural per-key protocol of map_, not the per-key stream equality. Decided: the erase callback destroys the entry "
    "while logical removal only stops it; a removed key's child is stopped BEFORE its output/error elements are erased; a key's child is "
    "created at most once (early return iff already started), built fresh iff absent, bound, started at NOW, wired to the schedule queue and "
    "sampled - all under a rollback guard released last; within a cycle removals are applied before additions; the entry's graph member is "
    "declared after the members it observes; each child is evaluated iff started and due (or resuming) inside its own capture region with the "
    "error attributed to its key (shared with C15.d); after the loop the queue is drained of entries <= NOW and the node re-arms at the heap "
    "minimum iff non-empty; the fast path drains every queue entry <= NOW into the candidate set before materialising and falls back to a full "
    "scan whenever bindings were refreshed, the map was not primed, an outer input ticked or no input event explains the wake-up; raw "
    "added/removed slot scans only run under a current-cycle modified test. Not decided: output key set = input key set restricted to valid "
    "children; per-key stream equality; slot reuse / capacity arithmetic; multi-TSD membership refresh.")
ASSUMPTIONS = ["KeySlotStore notifies on_remove/on_erase per its contract (C05)", "std::push_heap/pop_heap with std::greater keep the minimum at front"]
DECIDED = ["a lifetime protocol", "b removal before addition", "c destruction order", "d per-key evaluation and attribution", "e parent re-arm",
           "f stop (shared C14.f)", "h fast path cannot starve a due child", "i stale delta bits never consumed",
           'n key scans that create / re-use / drop children filter with slot_live',
           'o bitmap positions use bits_per_word', 'p child-schedule heap ordered by deadline first']
NOT_DECIDED = ["output key set equality", "per-key stream equality", "slot reuse arithmetic", "multi-TSD membership refresh"]


def norm(txt: str) -> str:
    """Normalise the two spellings of the node storage (alias of the cast expression / reference parameter)."""
    txt = re.sub(r"MemoryUtils::cast\(map_view\.internal_storage\(\)\)->", "storage.", txt)
    return txt.replace(" ", "")


def check(run: Run) -> None:
    t = run.tree

    with run.obligation("C10.a", "K2", "map_ lifetime: erase destroys, remove only stops; stop precedes output/error erase; create returns early iff "
                        "started, builds iff absent, then bind inputs -> bind output -> start(NOW) -> observer -> sample, all before rollback.release()"):
        fa = R.fn(run, MAP, "on_erase", cls="MapNodeStorage")
        cs = [R.Canon()(c) for c in R.acting_calls(fa)]
        run.count(1, "C10.a.on_erase")
        if cs != ["entries.destroy_at(slot)"]:
            run.finding("C10.a", "MapNodeStorage::on_erase", f"physical erase must destroy exactly the entry in that slot: {cs}", loc=MAP)
        fa = R.fn(run, MAP, "on_remove", cls="MapNodeStorage")
        if R.acting_calls(fa):
            run.finding("C10.a", "MapNodeStorage::on_remove", "logical removal must not act from the slot callback (reconciliation stops the child)", loc=MAP)
        fa = R.fn(run, MAP, "remove_entry_at_slot")
        fl = R.flow(run, fa)
        stop = R.call_is(name="stop", recv=r"entry->graph\.view\(\)|storage\.entries\.entry_at\(slot\)->graph\.view\(\)")
        er = R.call_is(name="erase", recv=r"output_mutation|error_mutation")
        R.k2_precede(run, "C10.a", fl, R.either(stop, lambda n: n.kind == "cond" and n.label.endswith("graph.view().started()") or n.label.endswith("graph.has_value()")), er,
                     "the child is stopped (or known not started) before its output element is erased")
        w = fl.reach([fl.start], avoid=stop, targets=er, after_source=False,
                     edge_skip=lambda node, lab: node.kind == "cond" and (node.label.endswith("graph.has_value()") or node.label.endswith("graph.view().started()")) and lab == "F")
        run.count(1, "C10.a.stop-before-erase")
        if w is not None:
            run.finding("C10.a", "remove_entry_at_slot:erase-before-stop", "a started child can have its output erased before it is stopped: " + fl.path_text(w), loc=MAP)
        fa = R.fn(run, MAP, "create_entry_at_slot")
        cn = R.aliases_of(fa)
        fl = R.flow(run, fa)
        mk = R.call_is(name="make_nested_graph")
        bi = R.call_is(name="bind_mapped_child_inputs")
        bo = R.call_is(name="bind_mapped_child_output")
        st = R.call_is(name="start", arg=(0, r"evaluation_time"))
        ob = R.call_is(name="set_child_schedule_observer")
        sm = R.call_is(name="schedule_sampled_input_consumers")
        gid = [g for g in fl.cfg.guards.values() if g.name == "rollback"]
        run.sites(len(gid), 1, "rollback guard")
        rel = lambda n: n.effect == "release" and n.guard == gid[0].gid
        chain = [(bi, "bind inputs"), (bo, "bind output"), (st, "start(NOW)"), (ob, "install schedule observer"), (sm, "sample inputs"), (rel, "rollback.release()")]
        for (a, an), (b, bn) in zip(chain, chain[1:]):
            R.k2_precede(run, "C10.a", fl, a, b, f"create_entry_at_slot: {an} before {bn}")
        R.k2_precede(run, "C10.a", fl, lambda n: n.effect == "arm" and n.guard == gid[0].gid, bi, "rollback armed before the child is bound")
        early = [s for s in fa.body.stmts if isinstance(s, C.If) and cn(s.cond).replace(" ", "").endswith("graph.has_value()&&" + "entry.graph.view().started()".replace("entry", cn.aliases.get("entry", "entry")))]
        ifs = [s for s in fa.body.stmts if isinstance(s, C.If) and "started()" in cn(s.cond) and any(isinstance(x, C.Return) for x in s.then.walk())]
        run.count(1, "C10.a.once")
        if not ifs:
            run.finding("C10.a", "create_entry_at_slot:idempotent", "creation must return early when the key's child is already started (one instance per key)", loc=MAP)
        mkif = [s for s in fa.body.walk() if isinstance(s, C.If) and R.calls(s.then, "make_nested_graph")]
        if len(mkif) != 1 or not cn(mkif[0].cond).replace(" ", "").endswith("graph.has_value()") or not cn(mkif[0].cond).startswith("!"):
            run.finding("C10.a", "create_entry_at_slot:fresh", "a new nested graph must be built iff the entry has none", loc=MAP)
        # exceptional paths after binding run the rollback (which stops a started child)
        rb = lambda n: n.ctx.startswith("guard:rollback")
        w = fl.must_follow(R.either(bi, bo, st, ob, sm), rb, exits="exc", first_edge=lambda lab: lab == "eh")
        run.count(1, "C10.a.rollback-eh")
        if w is not None:
            run.finding("C10.a", "create_entry_at_slot:eh", "a failure while creating a key's child can leave without the rollback: " + fl.path_text(w), loc=MAP)

    with run.obligation("C10.b", "K2", "map_reconcile_keys never creates an entry before the cycle's removals were applied"):
        fa = R.fn(run, MAP, "map_reconcile_keys")
        fl = R.flow(run, fa)
        create = R.either(R.call_is(name="create_entry_at_slot"), R.call_is(name="create_live_key_entries"))
        remove = R.either(R.call_is(name="remove_entry_at_slot"), R.call_is(name="remove_all_entries"))
        R.require_nodes(run, fl, create, "creation calls", 2)
        R.require_nodes(run, fl, remove, "removal calls", 2)
        R.k2_never_after(run, "C10.b", fl, create, remove, "a removal applied after an addition in the same reconciliation")

    with run.obligation("C10.c", "K9", "MapKeyEntry declares `graph` after `key_source` and `schedule_context` (members destroy in reverse)"):
        sd = t.struct(MAP, "MapKeyEntry")
        names = [f.name for f in sd.fields]
        run.count(1, "C10.c")
        ok = all(x in names for x in ("key", "key_source", "schedule_context", "graph")) and names.index("graph") > names.index("key_source") \
            and names.index("graph") > names.index("schedule_context") and names.index("graph") > names.index("key")
        if not ok:
            run.finding("C10.c", "MapKeyEntry:field-order", f"the child graph must be declared last (it observes key_source / schedule_context): {names}", loc=f"{MAP}:{sd.line}")

    with run.obligation("C10.d", "K1+K2", "a child is evaluated iff its entry exists, has a graph, is started and is due (or resuming this slot); per-key "
                        "capture and attribution (shared with C15.d)"):
        fa = R.fn(run, MAP, "map_evaluate_impl")
        cn = R.aliases_of(fa)
        fl = R.flow(run, fa)
        ev = R.call_is(name="evaluate", recv=r"child|entry->graph\.view\(\)")
        R.require_nodes(run, fl, ev, "child.evaluate", 2)
        due = lambda n: n.kind == "cond" and n.label.replace(" ", "") in ("child.next_scheduled_time()<=evaluation_time", "entry->graph.view().next_scheduled_time()<=evaluation_time")
        started = lambda n: n.kind == "cond" and n.label in ("child.started()", "entry->graph.view().started()")
        R.k2_precede(run, "C10.d", fl, started, ev, "stopped children are skipped before evaluation")
        R.k2_precede(run, "C10.d", fl, due, ev, "the due test precedes evaluation")
        # evaluation reachable only via due==T or resume_this==T
        w = fl.reach([fl.start], targets=ev, after_source=False,
                     edge_skip=lambda node, lab: (due(node) and lab == "T") or (node.kind == "cond" and node.label == "resume_this" and lab == "T"))
        run.count(1, "C10.d.gate")
        if w is not None:
            run.finding("C10.d", "map_evaluate_impl:not-due-evaluated", "a child can be evaluated although it is neither due nor resuming: " + fl.path_text(w), loc=MAP)
        from . import c15
        sub = Run("C10", run.tier, run.tree, quiet=True)
        sub.is_sub = True
        if not getattr(run, "is_sub", False):
            c15.check(sub)
        run.evaluations += sub.evaluations
        for f in sub.findings:
            if f.rule == "C15.d":
                run.finding("C10.d", f.key, f.message, f.loc)

    with run.obligation("C10.e", "K1", "schedule queue: pulled schedules are pushed once per time; after the loop entries <= NOW are drained and the "
                        "node re-arms at the heap minimum iff the queue is non-empty"):
        fa = R.fn(run, MAP, "push_pulled_child_schedule", cls="MapNodeStorage")
        roles = [Role("FOREIGN", "bool", r"schedule\.storage==this|this==schedule\.storage"), Role("W", "t", r"when"),
                 Role("PULLED", "t", r"schedule\.pulled_when", lvalue=True)]

        def spec(v):
            if (not v.b("FOREIGN")) or v.eq("PULLED", "W"):
                return Expect(calls=[])
            return Expect(stores={"PULLED": "W"}, calls=[("PUSH", (("tuple", "MapChildSchedule", ("W", ANY, True)),))])
        R.k1(run, "C10.e", fa, roles, spec, role_calls={"PUSH": r"push_child_schedule"}, what="push_pulled_child_schedule")
        fa = R.fn(run, MAP, "push_child_schedule", cls="MapNodeStorage")
        cs = [R.callee_name(c) for c in R.calls(fa)]
        if "push_back" not in cs or "push_heap" not in cs:
            run.finding("C10.e", "push_child_schedule:heap", f"the queue must stay a heap (push_back + push_heap): {cs}", loc=MAP)
        cmpn = [R.Canon()(a) for c in R.calls(fa, "push_heap") for a in c.args]
        if not any("std::greater" in a for a in cmpn):
            run.finding("C10.e", "push_child_schedule:min-heap", "the schedule queue must be a MIN-heap (std::greater)", loc=MAP)
        fa = R.fn(run, MAP, "map_evaluate_impl")
        cn = R.aliases_of(fa)
        tail_while = [s for s in fa.body.stmts if isinstance(s, C.While)]
        run.sites(len(tail_while), 1, "post-loop drain")
        c = norm(cn(tail_while[-1].cond))
        run.count(1, "C10.e.drain")
        if c != "!storage.child_schedule_queue.empty()&&(storage.child_schedule_queue.front().when<=evaluation_time)":
            run.finding("C10.e", "map_evaluate_impl:drain-cond", f"the post-loop drain must pop exactly the entries with when <= NOW: {c}", loc=MAP)
        idx = fa.body.stmts.index(tail_while[-1])
        rearm = [s for s in fa.body.stmts[idx + 1:] if isinstance(s, C.If)]
        ok = rearm and norm(cn(rearm[0].cond)) == "!storage.child_schedule_queue.empty()" and any(
            R.callee_name(x) == "schedule_node" and [norm(cn(a)) for a in x.args] == ["view.node_index()", "storage.child_schedule_queue.front().when"] for x in R.calls(rearm[0].then))
        if not ok:
            run.finding("C10.e", "map_evaluate_impl:rearm", "after draining, the node must re-arm at the queue minimum iff the queue is non-empty", loc=MAP)

    with run.obligation("C10.h", "K2+K1", "prepare_map_evaluation_slots drains every queue entry <= NOW into the candidates before materialising; a "
                        "pulled entry counts iff still current; full scan iff refresh or not primed or an outer input ticked or no input event"):
        fa = R.fn(run, MAP, "prepare_map_evaluation_slots")
        cn = R.aliases_of(fa)
        fl = R.flow(run, fa)
        mat = R.call_is(name="materialize_map_evaluation_slots")
        pop = R.call_is(name="pop_heap")
        R.k2_precede(run, "C10.h", fl, lambda n: n.kind == "cond" and "storage.child_schedule_queue.front().when<=evaluation_time" in n.label.replace(" ", ""), mat,
                     "the due schedules are drained before the candidate set is materialised")
        wl = [s for s in fa.body.stmts if isinstance(s, C.While)]
        run.sites(len(wl), 1, "queue drain loop")
        c = cn(wl[0].cond).replace(" ", "")
        if c != "!storage.child_schedule_queue.empty()&&(storage.child_schedule_queue.front().when<=evaluation_time)":
            run.finding("C10.h", "prepare:drain-cond", f"the drain must take every entry with when <= NOW: {c}", loc=MAP)
        adds = [x for x in R.calls(wl[0].body, "add_map_evaluation_slot")]
        if len(adds) != 1 or cn(adds[0].args[1]) != "schedule.slot":
            run.finding("C10.h", "prepare:drain-add", "a drained due schedule must add its slot to the candidates", loc=MAP)
        skips = [cn(s.cond).replace(" ", "") for s in wl[0].body.walk() if isinstance(s, C.If) and any(isinstance(x, C.Continue) for x in s.then.walk())]
        run.count(1, "C10.h.skips")
        skips = [x for x in skips if x != "schedule.pulled"]
        def norm_cmp(x):
            m = re.fullmatch(r"(.+?)(==|!=)(.+)", x)
            return (m.group(2),) + tuple(sorted((m.group(1), m.group(3)))) if m else (x,)
        want1 = sorted(norm_cmp(x) for x in ["entry==nullptr", "entry->schedule_context.pulled_when!=schedule.when"])
        want2 = sorted(norm_cmp(x) for x in ["storage.entry_at(schedule.slot)==nullptr", "storage.entry_at(schedule.slot)->schedule_context.pulled_when!=schedule.when"])
        if sorted(norm_cmp(x) for x in skips) not in (want1, want2):
            run.finding("C10.h", "prepare:drain-skips", f"a due schedule may only be dropped when its entry is gone or a pulled entry is stale: {skips}", loc=MAP)
        # the pulled marker is compared with the popped schedule BEFORE it is consumed (reset to MAX_DT)
        stale = lambda n: n.kind == "cond" and ("pulled_when!=schedule.when" in n.label.replace(" ", "") or
                                                re.search(r"schedule\.when!=\S*pulled_when", n.label.replace(" ", "")) is not None)
        consume = R.store_is(r".*schedule_context\.pulled_when", r"MAX_DT")
        R.require_nodes(run, fl, stale, "stale-marker test")
        R.require_nodes(run, fl, consume, "marker reset")
        w = fl.reach(fl.states_of(consume), targets=stale, avoid=pop)
        run.count(1, "C10.h.marker-order")
        if w is not None:
            run.finding("C10.h", "prepare:marker-reset-before-test", "the pulled marker is reset before it is compared with the popped schedule: every pulled "
                        "wake-up looks stale and the due child is dropped: " + fl.path_text(w), loc=fl.cfg.describe(w[0][0]))
        fa2 = R.fn(run, MAP, "add_map_evaluation_slot")
        R.k1(run, "C10.h", fa2, [Role("NOCHILD", "bool", r"slot==TS_DATA_NO_CHILD_ID|TS_DATA_NO_CHILD_ID==slot"),
                                 Role("NOENTRY", "bool", r"storage\.entry_at\(slot\)==nullptr|nullptr==storage\.entry_at\(slot\)")],
             lambda v: Expect(calls=[]) if (v.b("NOCHILD") or v.b("NOENTRY")) else Expect(calls=[("SET", ("slot",))]),
             role_calls={"SET": r"storage\.evaluation_candidates\.set"}, what="add_map_evaluation_slot: a slot is a candidate iff it has an entry")
        fs = R.find(fa, lambda n: isinstance(n, C.Declarator) and n.name == "full_scan")
        if not fs or cn(fs[0].init).replace(" ", "") != "storage.refresh_all_bindings||!was_primed":
            run.finding("C10.h", "prepare:full-scan-init", f"full_scan must start as refresh_all_bindings || !was_primed: {cn(fs[0].init) if fs else None}", loc=MAP)
        sets = [s for s in fa.body.walk() if isinstance(s, C.If) and any(isinstance(x, C.Binary) and x.op == "=" and cn(x.l) == "full_scan" and cn(x.r) == "true" for x in s.then.walk())]
        conds = sorted(cn(s.cond).replace(" ", "") for s in sets)
        if "!input_event" not in conds or not any(c.endswith(".modified()") for c in conds):
            run.finding("C10.h", "prepare:full-scan-triggers", f"full scan must also be forced by an outer input tick and by a wake-up without input event: {conds}", loc=MAP)
        clears = [x for x in fa.body.walk() if isinstance(x, C.Binary) and x.op == "=" and cn(x.l) == "full_scan" and cn(x.r) == "false"]
        if clears:
            run.finding("C10.h", "prepare:full-scan-cleared", "full_scan is reset to false", loc=fa.loc(clears[0]))
        fsif = [s for s in fa.body.stmts if isinstance(s, C.If) and cn(s.cond) == "full_scan"]
        if not fsif or not R.calls(fsif[0].then, "collect_all_map_evaluation_slots"):
            run.finding("C10.h", "prepare:full-scan-effect", "a full scan must collect every entry", loc=MAP)

    with run.obligation("C10.i", "K2", "raw added/removed slot scans of the key set run only under a current-cycle modified() test"):
        n = 0
        for fname in ("map_reconcile_keys", "prepare_map_evaluation_slots"):
            fa = R.fn(run, MAP, fname)
            fl = R.flow(run, fa)
            scan = lambda x: x.kind == "call" and x.name in ("next_added_slot", "next_removed_slot", "slot_added", "slot_removed", "next_modified_slot")
            nodes = fl.nodes_of(scan)
            n += len(nodes)
            if not nodes:
                continue
            w = fl.reach([fl.start], targets=scan, after_source=False,
                         edge_skip=lambda node, lab: node.kind == "cond" and re.search(r"modified\((evaluation_time)?\)$", node.label) is not None and lab == "T")
            run.count(len(nodes), f"C10.i.{fname}")
            if w is not None:
                run.finding("C10.i", f"{fname}:stale-delta", f"{fname} reads delta slots without a current-cycle modified() test (lazy cleanup would replay an "
                            f"old addition/removal): " + fl.path_text(w), loc=fl.cfg.describe(w[-1][0]))
        run.sites(n, 4, "delta slot scans")

    with run.obligation("C10.g", "K4", "the synthetic key source stamps last_modified_time only when binding (never per tick)"):
        ws = [w for w in R.field_writers(t, "last_modified_time", files=[KEYSRC]) if w[3] == "store"]
        run.sites(len(ws), 1, "key source stamps")
        for rel, q, line, kind in ws:
            run.count(1)
            if q.split("::")[-1] not in ("bind", "rebind"):
                run.finding("C10.g", f"key-source:{q}", f"{q} stamps the synthetic key output outside bind", loc=f"{rel}:{line}")

    with run.obligation("C10.j", "K3+K6", "per-key entries live in SLOTS mirroring the key set: every scan over slot ids is bounded by the slot capacity, "
                        "never by the number of live entries (a surviving key above a removed one must keep its child)"):
        R.slot_bounds(run, "C10.j", ["src/hgraph/runtime/map_node.cpp", "src/hgraph/runtime/mesh_node.cpp", "src/hgraph/runtime/nested_graph_storage.h",
                                     "include/hgraph/runtime/nested_graph_storage.h"], floor=6)

    with run.obligation("C10.k", "K1+K3", "a replaced key source is adopted in place only if EVERY existing entry sits in an occupied slot of the new set that "
                        "holds the SAME key (otherwise every child is removed and rebuilt fresh); the per-cycle list of membership changes is cleared once "
                        "per cycle, before the scan over the multiplexed inputs, never inside it"):
        fa = R.fn(run, MAP, "key_source_layout_compatible")
        cn = R.aliases_of(fa)
        lp = [l for l in R.loops(fa) if isinstance(l, C.For)]
        run.sites(len(lp), 1, "entry scan")
        body = C.Block(list(lp[0].body.stmts), ti=lp[0].body.ti) if isinstance(lp[0].body, C.Block) else lp[0].body
        E = r"storage\.entries\.entry_at\(slot\)"
        roles = [Role("NOENTRY", "bool", E + r"==nullptr|nullptr==" + E), Role("SLOT", "n", r"slot"), Role("CAP", "n", r"keys_set\.slot_capacity\(\)"),
                 Role("OCC", "bool", r"keys_set\.slot_occupied\(slot\)"), Role("SAMEKEY", "bool", E + r"->key\.equals\(keys_set\.at_slot\(slot\)\)")]

        def spec(v):
            if v.b("NOENTRY"):
                return Expect(ret="unchecked")  # continue
            if v.ge("SLOT", "CAP") or not v.b("OCC") or not v.b("SAMEKEY"):
                return Expect(ret=False)
            return Expect(ret="unchecked")
        R.k1(run, "C10.k", fa, roles, spec, unit=lp[0].body, role_locals=("slot",), what="key_source_layout_compatible (one entry)")
        sh = R.loop_shape(lp[0], cn)
        if not (sh.get("init") == "0" and sh.get("cond_op") == "<" and sh.get("cond_r", "").endswith("entries.slot_capacity()") and sh.get("step") == "++" and not sh["breaks"]):
            run.finding("C10.k", "key_source_layout_compatible:scan", f"every entry slot must be examined: {sh}", loc=MAP)
        tail = [cn(r.e) for r in R.find(fa, lambda x: isinstance(x, C.Return)) if not R._contains(lp[0], r)]
        if tail != ["true"]:
            run.finding("C10.k", "key_source_layout_compatible:default", f"compatible only after every entry was examined: {tail}", loc=MAP)
        fa = R.fn(run, MAP, "map_reconcile_keys")
        fl = R.flow(run, fa)
        clr = R.call_is(name="clear", recv=r".*membership_changed_keys")
        nodes = R.require_nodes(run, fl, clr, "membership_changed_keys.clear()")
        run.count(1, "C10.k.clear-scope")
        for nid in nodes:
            if fl.cfg.nodes[nid].loops:
                run.finding("C10.k", "map_reconcile_keys:membership-list-cleared-in-loop", "membership_changed_keys is cleared inside the scan over the multiplexed "
                            "inputs: a key that joined an earlier dictionary in this cycle is forgotten when a later dictionary also changed", loc=fl.cfg.describe(nid))
        push = lambda x: x.kind == "call" and x.name in ("push_back", "emplace_back") and "membership_changed_keys" in x.recv
        if fl.nodes_of(push):
            R.k2_precede(run, "C10.k", fl, clr, push, "the per-cycle membership list is cleared before it is filled")

    with run.obligation("C10.l", "K2+K7", "per-key isolation at stop: a child whose stop throws does not keep the children of the other keys from being stopped in the same "
                        "pass (shared with C14.f, C14.f2)"):
        from . import c14
        R.share(run, "C10.l", c14, ["C14.f", "C14.f2"])

    with run.obligation("C10.m", "K7", "per-key timers: after its pass the owner (keyed map_ and the dynamic-TSL map_) pulls the next wake-up of EVERY live child, not only of "
                        "the ones it evaluated, so an idle key's pending timer is not overwritten by a sibling (shared with C09.d)"):
        from . import c09
        R.share(run, "C10.m", c09, ["C09.d"])

    with run.obligation("C10.n", "K4", "the key scans that create, re-use or drop per-key children enumerate the CURRENT members of the key set (slot_live): a slot whose key "
                        "was removed in the previous cycle stays occupied until the source's next mutation and must not get a (ghost) child"):
        R.membership_scans(run, "C10.n", [
            (MAP, "create_live_key_entries", None, "one child per current key when the map primes or rebuilds"),
            (MAP, "reconcile_compatible_key_source", None, "children kept / dropped / created against the new key source's current keys"),
        ])

    with run.obligation("C10.o", "K6", "the evaluation candidates of map_ (and of mesh_, which shares the bitmap) are turned back into slot ids with the bitmap's own word width: "
                        "slot = word_index * SlotBitmap::bits_per_word + bit"):
        R.bitmap_positions(run, "C10.o", MAP)
        R.bitmap_positions(run, "C10.o", "src/hgraph/runtime/mesh_node.cpp")

    with run.obligation("C10.p", "K6", "the lazy child-schedule heap is ordered by DEADLINE first: MapChildSchedule::operator> compares `when` before any tie-breaker, and in the "
                        "direction of a min-heap (std::greater / push_heap with operator>), so the heap front is the earliest pending deadline - the pop loop for due "
                        "entries and the owner's re-arm both read the front"):
        fa = R.fn(run, MAP, "operator>", cls="MapChildSchedule")
        cn = R.Canon()
        ifs = [s0 for s0 in fa.body.stmts if isinstance(s0, C.If)]
        run.sites(len(ifs), 1, "comparison cascade")
        first = ifs[0]
        c0 = cn(first.cond).replace(" ", "")
        r0 = [cn(r.e).replace(" ", "") for r in R.find(first.then, lambda x: isinstance(x, C.Return))]
        run.count(1, "C10.p")
        ne_forms = ("!(when==other.when)", "when!=other.when", "!(other.when==when)", "other.when!=when")
        if c0 not in ne_forms or r0 not in (["when>other.when"], ["other.when<when"]):
            run.finding("C10.p", "MapChildSchedule::operator>:primary-key", f"the primary key of the child-schedule order must be the deadline (`when != other.when -> when > other.when`); "
                        f"it is `{c0}` -> {r0}: the heap front is no longer the earliest deadline, so a key's due timer hides behind another key's later one", loc=fa.loc(first))


VARIANTS = [
    {"id": "p-seed-C10-8-slot-before-when", "expect": "C10.p", "edits": [{"file": MAP, "find": "                if (when != other.when) { return when > other.when; }\n                if (slot != other.slot) { return slot > other.slot; }", "replace": "                if (slot != other.slot) { return slot > other.slot; }\n                if (when != other.when) { return when > other.when; }"}]},
    {"id": "p-max-heap-direction", "expect": "C10.p", "edits": [{"file": MAP, "find": "                if (when != other.when) { return when > other.when; }", "replace": "                if (when != other.when) { return when < other.when; }"}]},
    {"id": "o-seed-C10-7-word-index-times-sizeof", "expect": "C10.o", "edits": [{"file": MAP, "find": "                        word_index * SlotBitmap::bits_per_word + bit);", "replace": "                        word_index * sizeof(std::uint64_t) + bit);"}]},
    {"id": "n-seed-C10-5-build-scan-occupied", "expect": "C10.n", "edits": [{"file": MAP, "find": "                if (keys_set.slot_live(slot))\n                {\n                    create_entry_at_slot(view, context, storage, output_mutation, keys_set, slot, evaluation_time);", "replace": "                if (keys_set.slot_occupied(slot))\n                {\n                    create_entry_at_slot(view, context, storage, output_mutation, keys_set, slot, evaluation_time);"}]},
    {"id": "k-compatible-ignores-key-identity", "expect": "C10.k", "edits": [{"file": MAP, "find": "                if (slot >= keys_set.slot_capacity() || !keys_set.slot_occupied(slot) ||\n                    !entry->key.equals(keys_set.at_slot(slot)))", "replace": "                if (slot >= keys_set.slot_capacity() || !keys_set.slot_occupied(slot))"}]},
    {"id": "h-marker-reset-before-test", "expect": "C10.h", "edits": [{"file": MAP, "find": "                if (schedule.pulled)\n                {\n                    if (entry->schedule_context.pulled_when != schedule.when)\n                    {\n                        continue;\n                    }\n                    entry->schedule_context.pulled_when = MAX_DT;\n                }", "replace": "                if (schedule.pulled)\n                {\n                    entry->schedule_context.pulled_when = MAX_DT;\n                    if (entry->schedule_context.pulled_when != schedule.when)\n                    {\n                        continue;\n                    }\n                }"}]},
    {"id": "h-candidate-bounded-by-entry-count", "expect": "C10.h", "edits": [{"file": MAP, "find": "            if (slot == TS_DATA_NO_CHILD_ID || storage.entry_at(slot) == nullptr) { return; }\n            storage.evaluation_candidates.set(slot);", "replace": "            if (slot == TS_DATA_NO_CHILD_ID || slot >= storage.entries.entry_count() || storage.entry_at(slot) == nullptr) { return; }\n            storage.evaluation_candidates.set(slot);"}]},
    {"id": "a-erase-before-stop", "expect": "C10.a", "edits": [{"file": MAP, "find": "            if (entry->graph.has_value() && entry->graph.view().started()) {\n                entry->graph.view().stop(evaluation_time);\n            }\n            entry->schedule_context.pulled_when = MAX_DT;\n            if (output_mutation != nullptr)", "replace": "            entry->schedule_context.pulled_when = MAX_DT;\n            if (output_mutation != nullptr)"}, {"file": MAP, "find": "                (void)error_mutation->erase(entry->key.view());\n            }\n        }", "replace": "                (void)error_mutation->erase(entry->key.view());\n            }\n            if (entry->graph.has_value() && entry->graph.view().started()) {\n                entry->graph.view().stop(evaluation_time);\n            }\n        }"}]},
    {"id": "a-release-before-start", "expect": "C10.a", "edits": [{"file": MAP, "find": "                                                     spec.output_binding_mode);\n            entry.graph.view().start(evaluation_time);", "replace": "                                                     spec.output_binding_mode);\n            rollback.release();\n            entry.graph.view().start(evaluation_time);"}, {"file": MAP, "find": "                entry.graph.view(), evaluation_time, spec.child.input_bindings);\n            rollback.release();", "replace": "                entry.graph.view(), evaluation_time, spec.child.input_bindings);"}]},
    {"id": "a-on-erase-wrong-slot", "expect": "C10.a", "edits": [{"file": MAP, "find": "void on_erase(std::size_t slot) override { entries.destroy_at(slot); }", "replace": "void on_erase(std::size_t slot) override { if (slot != 0) { entries.destroy_at(slot - 1); } }"}]},
    {"id": "b-add-before-remove", "expect": "C10.b", "edits": [{"file": MAP, "find": "                    for (std::size_t slot = key_set.next_removed_slot(); slot != TS_DATA_NO_CHILD_ID;\n                         slot = key_set.next_removed_slot(slot))\n                    {\n                        remove_entry_at_slot(view, context, storage, mutation, errors,\n                                             slot, evaluation_time);\n                    }\n\n                    for (std::size_t slot = key_set.next_added_slot(); slot != TS_DATA_NO_CHILD_ID;\n                         slot = key_set.next_added_slot(slot))\n                    {\n                        create_entry_at_slot(view, context, storage, mutation, key_set, slot,\n                                             evaluation_time);\n                    }", "replace": "                    for (std::size_t slot = key_set.next_added_slot(); slot != TS_DATA_NO_CHILD_ID;\n                         slot = key_set.next_added_slot(slot))\n                    {\n                        create_entry_at_slot(view, context, storage, mutation, key_set, slot,\n                                             evaluation_time);\n                    }\n\n                    for (std::size_t slot = key_set.next_removed_slot(); slot != TS_DATA_NO_CHILD_ID;\n                         slot = key_set.next_removed_slot(slot))\n                    {\n                        remove_entry_at_slot(view, context, storage, mutation, errors,\n                                             slot, evaluation_time);\n                    }"}]},
    {"id": "c-graph-first", "expect": "C10.c", "edits": [{"file": MAP, "find": "            Value                          key{};\n            runtime_detail::MappedKeySource key_source{};\n            MapChildScheduleContext        schedule_context{};\n            GraphValue                     graph{};", "replace": "            Value                          key{};\n            GraphValue                     graph{};\n            runtime_detail::MappedKeySource key_source{};\n            MapChildScheduleContext        schedule_context{};"}]},
    {"id": "d-evaluate-stopped", "expect": "C10.d", "edits": [{"file": MAP, "find": "                if (!child.started()) { continue; }\n", "replace": ""}]},
    {"id": "e-rearm-only-if-evaluated", "expect": "C10.e", "edits": [{"file": MAP, "find": "            if (!storage.child_schedule_queue.empty())\n            {\n                // The heap, rather", "replace": "            if (!storage.child_schedule_queue.empty() && !storage.evaluation_slots.empty())\n            {\n                // The heap, rather"}]},
    {"id": "e-pulled-dedupe-broken", "expect": "C10.e", "edits": [{"file": MAP, "find": "                schedule.pulled_when = when;\n                push_child_schedule(MapChildSchedule{when, schedule.slot, true});", "replace": "                push_child_schedule(MapChildSchedule{when, schedule.slot, true});"}]},
    {"id": "h-drain-strict", "expect": "C10.h", "edits": [{"file": MAP, "find": "                   storage.child_schedule_queue.front().when <= evaluation_time)\n            {\n                std::pop_heap(storage.child_schedule_queue.begin(),\n                              storage.child_schedule_queue.end(), std::greater<>{});\n                const MapChildSchedule schedule =\n                    storage.child_schedule_queue.back();\n                storage.child_schedule_queue.pop_back();\n                auto *entry = storage.entry_at(schedule.slot);", "replace": "                   storage.child_schedule_queue.front().when < evaluation_time)\n            {\n                std::pop_heap(storage.child_schedule_queue.begin(),\n                              storage.child_schedule_queue.end(), std::greater<>{});\n                const MapChildSchedule schedule =\n                    storage.child_schedule_queue.back();\n                storage.child_schedule_queue.pop_back();\n                auto *entry = storage.entry_at(schedule.slot);"}]},
    {"id": "h-no-full-scan-without-event", "expect": "C10.h", "edits": [{"file": MAP, "find": "            if (!input_event) { full_scan = true; }\n", "replace": ""}]},
    {"id": "i-scan-without-modified", "expect": "C10.i", "edits": [{"file": MAP, "find": "                else if (keys_input.modified())\n                {\n                    auto output_mutation = begin_map_output_mutation(view, evaluation_time);", "replace": "                else\n                {\n                    auto output_mutation = begin_map_output_mutation(view, evaluation_time);"}]},
    {"id": "a-twin-stop-cond-swapped", "expect": None, "edits": [{"file": MAP, "find": "            if (entry->graph.has_value() && entry->graph.view().started()) {\n                entry->graph.view().stop(evaluation_time);\n            }\n            entry->schedule_context.pulled_when = MAX_DT;", "replace": "            if (entry->graph.has_value()) { if (entry->graph.view().started()) { entry->graph.view().stop(evaluation_time); } }\n            entry->schedule_context.pulled_when = MAX_DT;"}]},
]
