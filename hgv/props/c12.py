"""C12 - switch_ output follows only the selected branch, which starts fresh."""
from __future__ import annotations

import re

from .. import cparse as C
from ..index import AnalysisError
from ..k1 import ANY, Expect, Role
from ..report import Run
from .. import rules as R

ID = "C12"
SW = "src/hgraph/runtime/switch_node.cpp"

TECHNIQUE = ("decision table of the re-selection guard over its boolean atoms (K1), ordering rules on the CFG of activate_branch / "
             "switch_teardown (K2), who-calls census of child evaluation (K4)")
EXPLANATION = (
    "Decides from switch_node.cpp: selection is entered iff the key is valid and (it ticked or nothing is active); a branch is (re)activated "
    "iff nothing is active, or reload_on_ticked, or the key differs from the active key; an unmatched key without default throws before any "
    "activation; select_branch returns the first branch whose key equals, else the default, else null; every activation builds a FRESH child "
    "graph in the other slot (no path reuses a stored graph) and the previous graph must occupy the reusable slot; on both output modes the old "
    "branch is stopped before the new one is started, and the new branch's inputs are sampled after start; only the active child is ever "
    "evaluated, at NOW, after re-binding; stop tears the active graph down. Not decided: stream equality with the branch run alone; held-input "
    "sampling content.")
ASSUMPTIONS = ["GraphValue{} assignment destroys the previous graph (C14.f: reset stops before destroy)", "Value::equals is the key equality"]
DECIDED = ["a re-selection guard", "b unmatched key", "c fresh instance", "d old branch silenced before the new one starts",
           "e only the active child is evaluated", "f stop",
           'm sampling decisions test valid() on every arm',
           'n the new key is recorded after the old branch was retired', 'o branch captures re-targeted through captured_slots']
NOT_DECIDED = ["stream equality with the stand-alone branch", "sampled content"]


def check(run: Run) -> None:
    t = run.tree

    with run.obligation("C12.a", "K1", "switch_evaluate: select iff key.valid and (key.modified or nothing active); activate iff nothing active or "
                        "reload_on_ticked or the key differs; unmatched key throws; the active child is evaluated at NOW"):
        fa = R.fn(run, SW, "switch_evaluate")
        roles = [Role("STARTED", "bool", r"view\.started\(\)"), Role("KV", "bool", r".*\[0\]\.valid\(\)"), Role("KM", "bool", r".*\[0\]\.modified\(\)"),
                 Role("ACT", "bool", r".*active_slot\.has_value\(\)"), Role("HASKEY", "bool", r".*active_key\.has_value\(\)"),
                 Role("EQ", "bool", r".*\.equals\(.*active_key\)"),
                 Role("RELOAD", "bool", r".*spec\.reload_on_ticked"),
                 Role("NOBRANCH", "bool", r"nullptr==select_branch\(.*\)|select_branch\(.*\)==nullptr"),
                 Role("AGNULL", "bool", r".*active_graph\(\)==nullptr|nullptr==.*active_graph\(\)"),
                 Role("AGHAS", "bool", r".*active_graph\(\)->has_value\(\)"), Role("NOW", "t", r"evaluation_time")]

        def spec(v):
            if not v.b("STARTED"):
                return Expect(ret=True, calls=[])
            calls = []
            if v.b("KV") and (v.b("KM") or not v.b("ACT")):
                same = v.b("ACT") and v.b("HASKEY") and v.b("EQ")
                if (not v.b("ACT")) or v.b("RELOAD") or not same:
                    if v.b("NOBRANCH"):
                        return Expect(throws=True, calls=[], stores_on_throw=True)
                    calls.append(("ACTIVATE", (ANY, ANY, ANY, ANY, ANY, "NOW")))
            if (not v.b("AGNULL")) and v.b("AGHAS"):
                calls.append(("EVAL", ("NOW",)))
                return Expect(calls=calls)
            return Expect(ret=True, calls=calls)
        R.k1(run, "C12.a", fa, roles, spec, role_calls={"ACTIVATE": r"activate_branch", "EVAL": r".*active_graph\(\)->view\(\)\.evaluate|active->view\(\)\.evaluate"},
             what="switch_evaluate")

    with run.obligation("C12.b", "K1", "select_branch: first branch whose key equals, else the default iff present, else null"):
        fa = R.fn(run, SW, "select_branch")
        cn = R.aliases_of(fa)
        lp = [l for l in R.loops(fa) if isinstance(l, C.RangeFor)]
        run.sites(len(lp), 1, "branch loop")
        sh = R.loop_shape(lp[0], cn)
        body_if = [s for s in lp[0].body.walk() if isinstance(s, C.If)]
        run.count(1, "C12.b.loop")
        ok = sh.get("range") == "context.spec.branches" and len(body_if) == 1 and cn(body_if[0].cond) == "branch.key.equals(key)" \
            and [cn(r.e) for r in R.find(body_if[0].then, lambda n: isinstance(n, C.Return))] == ["&branch.spec"] and not sh["breaks"] and not sh["continues"]
        if not ok:
            run.finding("C12.b", "select_branch:match", f"a branch must be selected iff its key equals the switch key (first match): {sh}", loc=SW)
        tail = [s for s in fa.body.stmts if not isinstance(s, (C.RangeFor,))]
        rets = [cn(r.e) for s in tail for r in R.find(s, lambda n: isinstance(n, C.Return))]
        dif = [s for s in tail if isinstance(s, C.If)]
        # order of the three deciding statements among the top-level statements; anything else at the top level must not return
        kinds = [type(s0).__name__ for s0 in fa.body.stmts]
        deciding = [k for k, s0 in zip(kinds, fa.body.stmts) if k in ("RangeFor", "If", "Return") or any(isinstance(x, C.Return) for x in s0.walk())]
        order = deciding
        if order != ["RangeFor", "If", "Return"]:
            run.finding("C12.b", "select_branch:order", f"explicit branches must be tried before the default: {order}", loc=SW)
        if rets not in (["&*context.spec.default_branch", "nullptr"], ["context.spec.default_branch", "nullptr"]) or len(dif) != 1 or cn(dif[0].cond) != "context.spec.default_branch.has_value()":
            run.finding("C12.b", "select_branch:default", f"fallback must be the default branch iff present else null: {rets}", loc=SW)

    with run.obligation("C12.c", "K2", "activate_branch builds a fresh child graph on every activation, in the slot not used by the active graph"):
        fa = R.fn(run, SW, "activate_branch")
        cn = R.aliases_of(fa)
        fl = R.flow(run, fa)
        mk = R.call_is(name="make_nested_graph")
        st = R.call_is(name="start", recv=r"next|storage\.graphs\[next_slot\]\.view\(\)")
        R.k2_precede(run, "C12.c", fl, mk, st, "a new nested graph is made before the branch is started (no reuse of a stored graph)")
        w = fl.reach([fl.start], avoid=mk, targets=lambda n: n.id == fl.cfg.exit, after_source=False)
        run.count(1, "C12.c.always-fresh")
        if w is not None:
            run.finding("C12.c", "activate_branch:reuse", "an activation path does not build a new graph: " + fl.path_text(w), loc=SW)
        d = R.find(fa, lambda n: isinstance(n, C.Declarator) and n.name == "next_slot")
        txt = cn(d[0].init).replace(" ", "") if d else ""
        if txt not in ("storage.active_slot.has_value()?(1U-*storage.active_slot):0U", "storage.active_slot.has_value()?1U-*storage.active_slot:0U"):
            run.finding("C12.c", "activate_branch:slot", f"the new branch must use the slot other than the active one: {txt}", loc=SW)
        asg = [n for n in fa.body.walk() if isinstance(n, C.Binary) and n.op == "=" and cn(n.l) == "storage.graphs[next_slot]"]
        vals = [cn(a.r) for a in asg]
        if not vals or vals[0] != "GraphValue{}" or not any(v.startswith("spec.graph_builder.make_nested_graph(") for v in vals):
            run.finding("C12.c", "activate_branch:reset-slot", f"the reusable slot must be cleared then filled with a new nested graph: {vals}", loc=SW)
        thr = [s for s in fa.body.walk() if isinstance(s, C.If) and cn(s.cond).replace(" ", "") == "storage.previous_slot.has_value()&&(*storage.previous_slot!=next_slot)"
               and any(isinstance(x, C.Throw) for x in s.then.walk())]
        if not thr:
            run.finding("C12.c", "activate_branch:previous-slot-check", "must refuse to overwrite a slot that does not hold the retired graph", loc=SW)

    with run.obligation("C12.d", "K2", "the active branch is stopped before the new branch starts (both output modes); inputs are sampled after start"):
        fa = R.fn(run, SW, "activate_branch")
        fl = R.flow(run, fa)
        st = R.call_is(name="start", recv=r"next|storage\.graphs\[next_slot\]\.view\(\)")
        stop_old = R.either(R.call_is(name="stop", recv=r"active->view\(\)|storage\.active_graph\(\)->view\(\)"), R.call_is(name="switch_teardown"))
        # the direct stop is skipped only when there is no active graph
        w = fl.reach([fl.start], avoid=stop_old, targets=st, after_source=False,
                     edge_skip=lambda node, lab: node.kind == "cond" and re.fullmatch(r"(active|storage\.active_graph\(\))(!=nullptr|->has_value\(\))|nullptr!=(active|storage\.active_graph\(\))", node.label) is not None and lab == "F")
        run.count(1, "C12.d.guards")
        if w is not None:
            run.finding("C12.d", "activate_branch:old-not-stopped", "the new branch can start while an old one is still running: " + fl.path_text(w), loc=SW)
        R.k2_follow(run, "C12.d", fl, st, R.call_is(name="schedule_sampled_input_consumers"), "start is followed by sampling the held inputs",
                    exits="normal", after="completed")
        cn = R.aliases_of(fa)
        # the fresh branch's inputs are bound SAMPLED: the branch sees the held inputs as modified at activation
        for nm, pos in (("bind_branch_inputs", 4),):
            cs = R.calls(fa, nm)
            run.sites(len(cs), 1, nm)
            for c in cs:
                run.count(1, f"C12.d.sampled.{nm}")
                arg = cn(c.args[pos]) if len(c.args) > pos else "<default false>"
                if arg != "true":
                    run.finding("C12.d", f"activate_branch:{nm}:unsampled", f"activation must bind the fresh branch sampled ({nm} argument {pos} is {arg}): "
                                f"the new branch would not see held inputs as modified in its first cycle", loc=fa.loc(c))
        fa = R.fn(run, SW, "switch_teardown")
        fl = R.flow(run, fa)
        stp = R.call_is(name="stop", recv=r"active->view\(\)|storage\.active_graph\(\)->view\(\)")
        w = fl.reach([fl.start], avoid=stp, targets=lambda n: n.id == fl.cfg.exit, after_source=False,
                     edge_skip=lambda node, lab: node.kind == "cond" and (
                         (re.fullmatch(r"(active|storage\.active_graph\(\))==nullptr|nullptr==(active|storage\.active_graph\(\))", node.label) is not None and lab == "T") or
                         (re.fullmatch(r"(active|storage\.active_graph\(\))->has_value\(\)", node.label) is not None and lab == "F")))
        run.count(1, "C12.d.teardown")
        if w is not None:
            run.finding("C12.d", "switch_teardown:no-stop", "teardown can finish without stopping the active graph: " + fl.path_text(w), loc=SW)
        cn = R.aliases_of(fa)
        rs = [n for n in fa.body.walk() if isinstance(n, C.Call) and cn(n.fn) == "storage.active_slot.reset"]
        if not rs:
            run.finding("C12.d", "switch_teardown:active-slot", "teardown must clear the active slot", loc=SW)

    with run.obligation("C12.e", "K4", "child evaluate is called only on the active graph, in switch_evaluate"):
        n = 0
        for fd in t.file(SW).funcs:
            fa = R.parse(run, fd, strict=False)
            cn = R.aliases_of(fa)
            for c in R.calls(fa, "evaluate"):
                if isinstance(c.fn, C.Member):
                    n += 1
                    run.count(1)
                    recv = cn(c.fn.obj)
                    if fd.name != "switch_evaluate" or not re.fullmatch(r"(active|.*active_graph\(\))->view\(\)", recv):
                        run.finding("C12.e", f"{fd.name}:evaluate:{recv}", f"{fd.name} evaluates {recv}: only the active branch may be evaluated", loc=fa.loc(c))
        run.sites(n, 1, "evaluate call sites")
        fa = R.fn(run, SW, "switch_evaluate")
        fl = R.flow(run, fa)
        ev = R.call_is(name="evaluate")
        R.k2_precede(run, "C12.e", fl, R.call_is(name="bind_branch_inputs"), ev, "inputs re-bound before the active child is evaluated")

    with run.obligation("C12.f", "K2", "switch_node_stop tears the active graph down"):
        fa = R.fn(run, SW, "switch_node_stop")
        cs = R.calls(fa, "switch_teardown")
        run.count(1, "C12.f")
        if len(cs) != 1:
            run.finding("C12.f", "switch_node_stop", "stop must tear down the active branch", loc=SW)

    with run.obligation("C12.g", "K7", "every branch that select_branch can return (each explicit branch and the default) is accounted for in the storage slot the "
                        "fresh child graph is built in: switch_graph_slot_layout takes the maximum over the same set"):
        fa = R.fn(run, SW, "switch_graph_slot_layout")
        cn = R.aliases_of(fa)
        inc = [c for c in R.calls(fa, "include_layout")]
        args = sorted(cn(c.args[0]) for c in inc if c.args)
        loops_ = [l for l in R.loops(fa) if isinstance(l, C.RangeFor) and cn(l.range) == "spec.branches" and R.calls(l.body, "include_layout")]
        dflt = [s0 for s0 in fa.body.walk() if isinstance(s0, C.If) and cn(s0.cond).replace(" ", "") == "spec.default_branch.has_value()" and R.calls(s0.then, "include_layout")]
        run.sites(len(inc), 1, "include_layout calls")
        run.count(1, "C12.g")
        if not loops_ or "branch.spec" not in args:
            run.finding("C12.g", "switch_graph_slot_layout:explicit-branches", f"the slot layout must include every explicit branch: {args}", loc=SW)
        if not dflt or not any(a in ("*spec.default_branch", "spec.default_branch.value()") for a in args):
            run.finding("C12.g", "switch_graph_slot_layout:default-branch", "the slot layout does not include the DEFAULT branch although select_branch can return it: a default "
                        f"branch larger than every explicit branch is constructed in a slot that is too small ({args})", loc=SW)
        lam = R.find(fa, lambda n: isinstance(n, C.Declarator) and n.name == "include_layout" and isinstance(n.init, C.Lambda))
        txt = " ".join(cn(x) for x in lam[0].init.body.walk() if isinstance(x, C.Binary) and x.op == "=") if lam else ""
        if "std::max(layout.size,branch_layout.size)" not in txt.replace(" ", "") or "std::max(layout.alignment,branch_layout.alignment)" not in txt.replace(" ", ""):
            run.finding("C12.g", "switch_graph_slot_layout:max", f"size and alignment must be the maximum over the branches: {txt}", loc=SW)

    with run.obligation("C12.h", "K1", "reset_switch_output (teardown of the output the stopped branch wrote into): returns iff the node has no output or it is unbound; a "
                        "reference output becomes the empty reference; EVERY other output shape is cleared as a whole (no shape keeps the old branch's values)"):
        fa = R.fn(run, SW, "reset_switch_output")
        O = r"view\.output\(evaluation_time\)"
        roles = [Role("HASOUT", "bool", r"view\.has_output\(\)"), Role("BOUND", "bool", O + r"\.bound\(\)"),
                 Role("NOSCHEMA", "bool", O + r"\.schema\(\)==nullptr|nullptr==" + O + r"\.schema\(\)"),
                 Role("ISREF", "bool", O + r"\.schema\(\)->kind==TSTypeKind::REF|TSTypeKind::REF==" + O + r"\.schema\(\)->kind")]

        def spec(v):
            if not v.b("HASOUT") or not v.b("BOUND"):
                return Expect(calls=[])
            if (not v.b("NOSCHEMA")) and v.b("ISREF"):
                return Expect(calls=[("EMPTYREF", (ANY,))])
            return Expect(calls=[("CLEAR", ("evaluation_time",))])
        R.k1(run, "C12.h", fa, roles, spec, role_calls={"EMPTYREF": r".*move_value_from|.*copy_value_from", "CLEAR": r".*clear_collection"}, what="reset_switch_output")
        # the reset is part of the teardown of the old branch in the write-into-switch-output mode
        fa = R.fn(run, SW, "switch_teardown")
        if not R.calls(fa, "reset_switch_output"):
            run.finding("C12.h", "switch_teardown:no-output-reset", "tearing the old branch down must reset the output it wrote into", loc=SW)

    with run.obligation("C12.i", "K7", "outer time-series slots of switch_ / dispatch_: positional arguments first, then keyword arguments in call order - the slot of the "
                        "i-th keyword argument is positional_count + i in both wiring functions (a branch parameter named by a keyword must not be fed from a "
                        "positional sibling)"):
        HO = "include/hgraph/lib/std/operators/impl/higher_order_impl.h"
        n = 0
        for fd in t.file(HO).funcs:
            if fd.body is None or fd.name not in ("wire_switch", "wire_dispatch"):
                continue
            fa = R.parse(run, fd, strict=False)
            cn = R.aliases_of(fa)
            for l in R.loops(fa):
                if not isinstance(l, C.For):
                    continue
                sh = R.loop_shape(l, cn)
                for c in R.calls(l.body, "emplace_back"):
                    if not cn(c.fn).endswith("named_slots.emplace_back") or len(c.args) != 2:
                        continue
                    n += 1
                    run.count(1, f"C12.i.{fd.name}")
                    idx = cn(c.args[1]).replace(" ", "")
                    v = sh.get("var")
                    pushes = [cn(p.args[0]) for p in R.calls(l.body, "push_back") if cn(p.fn).endswith("ts.push_back")]
                    if idx not in (f"positional_count+{v}", f"{v}+positional_count") or cn(c.args[0]) != f"kwargs[{v}].first" or pushes != [f"kwargs[{v}].second"]:
                        run.finding("C12.i", f"{fd.name}:keyword-slot", f"{fd.qual}: keyword argument {v} must occupy outer slot positional_count + {v} (name kwargs[{v}].first, "
                                    f"source kwargs[{v}].second appended); found slot `{idx}`, name `{cn(c.args[0])}`, appended {pushes}", loc=fa.loc(c))
        run.sites(n, 2, "keyword slot assignments")

    with run.obligation("C12.j", "K7", "a branch that returns one of its inputs directly is materialised by switch_ / dispatch_ as a transport node; a branch starts on SAMPLED held "
                        "inputs whose composite (TSL / TSB) children are valid without being modified, so the transport's first observation must carry the input's "
                        "CURRENT state (capture_current_delta, as the sibling transport capture_request_input does), not only the per-cycle delta"):
        HO = "include/hgraph/lib/std/operators/impl/higher_order_impl.h"
        transports: Dict[str, List[str]] = {}
        for fd in t.file(HO).funcs:
            if fd.body is None or "ParentInput" not in t.file(HO).text(fd.body[0], fd.body[1]):
                continue
            fa = R.parse(run, fd, strict=False)
            for n_ in fa.body.walk():
                if not (isinstance(n_, C.If) and any(isinstance(x, C.Id) and x.name.endswith("Kind::ParentInput") for x in n_.cond.walk())):
                    continue
                for c in R.calls(n_.then):
                    if isinstance(c.fn, C.Member) and c.fn.name == "implementation" and c.fn.targs:
                        transports.setdefault(c.fn.targs.strip().split("::")[-1], []).append(fd.name)
        n_sites = sum(len(v) for v in transports.values())
        run.sites(n_sites, 2, "direct boundary returns materialised as a transport node")
        for node_type, users in sorted(transports.items()):
            cands = [f for f in run.tree.find_funcs_anywhere("eval", cls=node_type) if f.body is not None]
            if len(cands) != 1:
                raise AnalysisError("anchor-vanished", f"C12.j: {node_type}::eval matched {len(cands)} definitions")
            fa = R.parse(run, cands[0])
            cn = R.aliases_of(fa)
            run.count(1, "C12.j")
            flags = [nm for ty, nm in fa.params if nm and ty.replace(" ", "").startswith("State<")]
            def flag_test(e):
                """(flag, polarity) when e is `flag.get()` / `!flag.get()`"""
                pol = True
                while isinstance(e, C.Unary) and e.op == "!":
                    pol = not pol
                    e = e.e
                if isinstance(e, C.Call) and isinstance(e.fn, C.Member) and e.fn.name == "get" and isinstance(e.fn.obj, C.Id) and e.fn.obj.name in flags:
                    return e.fn.obj.name, pol
                return None
            has = lambda node, nm: node is not None and any(R.callee_name(c) == nm for c in R.calls(node))
            ok = False
            for n_ in fa.body.walk():
                arms = None
                if isinstance(n_, C.Ternary):
                    arms = (n_.c, n_.a, n_.b)
                elif isinstance(n_, C.If) and n_.els is not None:
                    arms = (n_.cond, n_.then, n_.els)
                if arms is None:
                    continue
                ft = flag_test(arms[0])
                if ft is None:
                    continue
                seen_arm, first_arm = (arms[1], arms[2]) if ft[1] else (arms[2], arms[1])
                if has(first_arm, "capture_current_delta") and has(seen_arm, "capture_delta") and not has(seen_arm, "capture_current_delta"):
                    # the flag is raised on every path through eval
                    sets = [c for st in fa.body.stmts if isinstance(st, C.ExprStmt) for c in R.calls(st)
                            if isinstance(c.fn, C.Member) and c.fn.name == "set" and isinstance(c.fn.obj, C.Id) and c.fn.obj.name == ft[0]
                            and len(c.args) == 1 and cn(c.args[0]) == "true"]
                    if sets:
                        ok = True
            if not ok:
                run.finding("C12.j", f"{node_type}::eval:first-observation-transports-delta-only", f"{node_type} (materialised for direct boundary returns in {sorted(set(users))}) "
                            "copies capture_delta(ts) on every evaluation: started on a sampled TSL / TSB input it never delivers the elements that are valid but do not tick "
                            "again, and the switch output does not tick in the selection cycle", loc=fa.loc(fa.body))

    with run.obligation("C12.k", "K9", "the case table is the configuration value under which a switch_ / dispatch_ node is interned, and it decides what the node does (branches, "
                        "default, reload on every tick): operator== of every call-configuration record in the operator layer compares EVERY data member, so two calls that "
                        "differ only in one member (e.g. .reload()) are never merged into one node"):
        n_cfg = 0
        for rel in t.all_files():
            if not rel.startswith("include/hgraph/lib/std/operators/") or "operator==" not in t.read(rel):
                continue
            fi_ = t.file(rel)
            for fd_ in fi_.funcs:
                if fd_.name != "operator==" or not fd_.cls or fd_.body is None:
                    continue
                try:
                    sd = t.struct(rel, fd_.cls)
                except AnalysisError:
                    continue
                fa_ = R.parse(run, fd_)
                other = fa_.params[0][1] if fa_.params and fa_.params[0][1] else "other"
                mine, theirs = set(), set()
                for n_ in fa_.body.walk():
                    if isinstance(n_, C.Id):
                        mine.add(n_.name)
                    elif isinstance(n_, C.Member) and isinstance(n_.obj, C.Id) and n_.obj.name == other:
                        theirs.add(n_.name)
                n_cfg += 1
                for f in sd.fields:
                    if getattr(f, "is_static", False):
                        continue
                    run.count(1, "C12.k")
                    if f.name not in mine or f.name not in theirs:
                        run.finding("C12.k", f"{fd_.cls}::operator==:{f.name}-not-compared", f"{fd_.cls}::operator== does not compare `{f.name}`: two operator calls whose "
                                    f"configuration differs only in `{f.name}` are interned to one node and the second call silently gets the first call's behaviour",
                                    loc=fa_.loc(fa_.body))
        run.sites(n_cfg, 5, "call-configuration records with operator==")

    with run.obligation("C12.l", "K2", "held inputs are SAMPLED only when a branch is (re)selected: inside bind_branch_inputs every sampled binding is taken only when the "
                        "`sampled` argument is true (the per-cycle re-bind of switch_evaluate passes false and must be a no-op for a stable source), and every plain "
                        "binding only when it is false - for the key-set projection path and the ordinary path alike"):
        fa = R.fn(run, SW, "bind_branch_inputs")
        fl = R.flow(run, fa)
        is_sampled_cond = lambda n: n.kind == "cond" and re.sub(r"\s", "", n.label) == "sampled"
        samp = lambda n: n.kind == "call" and n.name in ("bind_sampled_input_to_source", "bind_input_to_source_sampled")
        plain = lambda n: n.kind == "call" and n.name == "bind_input_to_source"
        run.count(1, "C12.l")
        if not fl.nodes_of(samp) or not fl.nodes_of(plain):
            run.finding("C12.l", "bind_branch_inputs:key-set-path-single-mode", "the key-set projection path of bind_branch_inputs no longer has both a sampled and a plain "
                        "binding: the per-cycle re-bind re-samples (and re-notifies the consumer) every time the switch node runs, or a fresh branch is not sampled",
                        loc=fa.loc(fa.body))
        else:
            w = fl.reach([fl.start], targets=samp, after_source=False, edge_skip=lambda n, lab: is_sampled_cond(n) and lab == "T")
            if w is not None:
                run.finding("C12.l", "bind_branch_inputs:sampled-bind-unconditional", "a sampled binding is reachable without the `sampled` argument being true: "
                            + fl.path_text(w), loc=fl.cfg.describe(w[-1][0]))
            w = fl.reach([fl.start], targets=plain, after_source=False, edge_skip=lambda n, lab: is_sampled_cond(n) and lab == "F")
            if w is not None:
                run.finding("C12.l", "bind_branch_inputs:plain-bind-when-sampled", "a plain binding is reachable although the `sampled` argument is true: "
                            + fl.path_text(w), loc=fl.cfg.describe(w[-1][0]))
        # the ordinary path forwards the argument itself
        cn = R.Canon()
        fwd = [c for c in R.calls(fa, "bind_nested_input_to_source")]
        if len(fwd) != 1 or not fwd[0].args or cn(fwd[0].args[-1]) != "sampled":
            run.finding("C12.l", "bind_branch_inputs:ordinary-path-not-forwarding", "bind_nested_input_to_source must receive the `sampled` argument unchanged", loc=fa.loc(fa.body))

    with run.obligation("C12.m", "K7", "a freshly selected branch is shown every held input that HAS a value: the three arms of nested_input_binding_has_sampled_active_target "
                        "(target path, whole non-bundle input, per field of a bundle) all decide with `active && valid()` - a stricter test (all_valid) leaves a branch fed by a "
                        "collection with one element that never ticked silent until the collection ticks again; the rule of the inlined node is valid(), see C03.c"):
        NBH = "include/hgraph/runtime/nested_bindings.h"
        fa = R.fn(run, NBH, "nested_input_binding_has_sampled_active_target")
        cn = R.aliases_of(fa)
        decisions = [cn(r.e).replace(" ", "") for r in R.find(fa, lambda x: isinstance(x, C.Return)) if r.e is not None and ("valid" in cn(r.e))]
        decisions += [cn(s0.cond).replace(" ", "") for s0 in fa.body.walk() if isinstance(s0, C.If) and "valid()" in cn(s0.cond) and "active" in cn(s0.cond)]
        run.sites(len(decisions), 3, "sampling decisions")
        for d in decisions:
            run.count(1, "C12.m")
            tests = set(re.findall(r"\.(\w*valid\w*)\(\)", d))
            if tests != {"valid"}:
                run.finding("C12.m", f"nested_input_binding_has_sampled_active_target:validity-test:{'+'.join(sorted(tests))}", f"the sampling decision `{d}` tests "
                            f"{sorted(tests)} instead of valid(): a held input that is valid but not all-valid (a list / bundle / dictionary with an element that has "
                            "never ticked) is not sampled when a branch (or any nested graph) starts, although the same consumer inlined would have been evaluated", loc=fa.loc(fa.body))

    with run.obligation("C12.n", "K2", "switch_ remembers the key of the branch it is running: in activate_branch the new key is recorded AFTER the old branch was retired - the "
                        "retirement (switch_teardown, or the hand-inlined forwarding arm) ends by clearing active_key, so a key recorded before it is wiped and the next tick "
                        "of the SAME key rebuilds the branch (state lost, initial values delivered again)"):
        fa = R.fn(run, SW, "activate_branch")
        fl = R.flow(run, fa)
        rec = R.store_is(r".*active_key", r"(std::move\()?key\)?")
        wipe = R.either(R.call_is(name="switch_teardown"), R.store_is(r".*active_key", r"Value\{\}"))
        R.k2_never_after(run, "C12.n", fl, rec, wipe, "activate_branch: the new key is recorded, then the retirement of the old branch clears active_key")

    with run.obligation("C12.o", "K7", "a branch's captured outer values are re-targeted through the SHARED slot table: in every branch compiler (switch_, dispatch_) the boundary path of "
                        "the i-th capture of a branch becomes `1 + captured_slots[i]` (the slot that capture was given among the node's outer inputs - captures are "
                        "de-duplicated across branches and follow positional and keyword arguments), never a position computed from the branch-local index"):
        HO2 = "include/hgraph/lib/std/operators/impl/higher_order_impl.h"
        n_rt = 0
        for fd_ in t.file(HO2).funcs:
            if fd_.body is None or "captured_slots" not in t.file(HO2).text(fd_.body[0], fd_.body[1]):
                continue
            if any(o is not fd_ and o.body is not None and o.body[0] > fd_.body[0] and o.body[1] < fd_.body[1] and "captured_slots" in t.file(HO2).text(o.body[0], o.body[1]) for o in t.file(HO2).funcs):
                continue
            fa_ = R.parse(run, fd_, strict=False)
            cn_ = R.Canon()
            for arm in [s0 for s0 in fa_.body.walk() if isinstance(s0, C.If) and cn_(s0.cond).replace(" ", "") in ("appended_index<captured_slots.size()", "captured_slots.size()>appended_index")]:
                for asg in [x for x in arm.then.walk() if isinstance(x, C.Binary) and x.op == "=" and cn_(x.l).replace(" ", "") == "path[0]"]:
                    n_rt += 1
                    run.count(1, "C12.o")
                    rhs = cn_(asg.r).replace(" ", "")
                    if rhs not in ("1+captured_slots[appended_index]", "captured_slots[appended_index]+1"):
                        run.finding("C12.o", f"{fd_.name}:capture-retargeted-by-position", f"{fd_.qual}: the boundary path of a branch capture becomes `{rhs}` instead of "
                                    "`1 + captured_slots[appended_index]`: a branch whose captures are not the first ones appended (different captures per branch, another order, "
                                    "keyword arguments, a capture that is also an argument) silently reads a sibling's captured source of the same schema", loc=fa_.loc(asg))
        run.sites(n_rt, 2, "capture re-target assignments")


VARIANTS = [
    {"id": "o-seed-C12-8-capture-retarget-positional", "expect": "C12.o", "edits": [{"file": "include/hgraph/lib/std/operators/impl/higher_order_impl.h", "find": "path[0] = 1 + captured_slots[appended_index];", "replace": "path[0] = 1 + positional_count + appended_index;"}]},
    {"id": "n-seed-C08-8-key-recorded-before-retirement", "expect": "C12.n", "edits": [{"file": SW, "find": "  construction_rollback.release();\n\n  if (context.spec.output_forwards_to_child_terminal) {", "replace": "  construction_rollback.release();\n  storage.active_key = std::move(key);\n\n  if (context.spec.output_forwards_to_child_terminal) {"}]},
    {"id": "m-seed-C12-5-sampling-requires-all-valid", "expect": "C12.m", "edits": [{"file": "include/hgraph/runtime/nested_bindings.h", "find": "    return active && (input.valid() || accepts_invalid);", "replace": "    return active && (input.all_valid() || accepts_invalid);"}]},
    {"id": "l-key-set-path-always-sampled", "expect": "C12.l", "edits": [{"file": SW, "find": "      if (sampled) {\n        bind_sampled_input_to_source(std::move(target), source,\n                                     evaluation_time);\n      } else {\n        bind_input_to_source(std::move(target), source);\n      }", "replace": "      bind_sampled_input_to_source(std::move(target), source,\n                                   evaluation_time);"}]},
    {"id": "l-ordinary-path-always-sampled", "expect": "C12.l", "edits": [{"file": SW, "find": "      bind_nested_input_to_source(std::move(target), std::move(source),\n                                  evaluation_time, sampled);", "replace": "      bind_nested_input_to_source(std::move(target), std::move(source),\n                                  evaluation_time, true);"}]},
    {"id": "k-reload-flag-not-in-equality", "expect": "C12.k", "edits": [{"file": "include/hgraph/lib/std/operators/higher_order.h", "find": "            return cases == other.cases && default_branch == other.default_branch &&\n                   reload_on_ticked == other.reload_on_ticked;", "replace": "            return cases == other.cases && default_branch == other.default_branch;"}]},
    {"id": "j-revert-fix-pass-through-delta-only", "expect": "C12.j", "edits": [{"file": "include/hgraph/lib/std/std_nodes.h", "find": "            const Value delta = live.get() ? capture_delta(ts.base()) : capture_current_delta(ts.base());\n            live.set(true);\n", "replace": "            const Value delta = capture_delta(ts.base());\n"}]},
    {"id": "j-flag-polarity-swapped", "expect": "C12.j", "edits": [{"file": "include/hgraph/lib/std/std_nodes.h", "find": "live.get() ? capture_delta(ts.base()) : capture_current_delta(ts.base());", "replace": "live.get() ? capture_current_delta(ts.base()) : capture_delta(ts.base());"}]},
    {"id": "j-twin-if-else-form", "expect": None, "edits": [{"file": "include/hgraph/lib/std/std_nodes.h", "find": "            const Value delta = live.get() ? capture_delta(ts.base()) : capture_current_delta(ts.base());\n            live.set(true);\n            apply_delta(out, delta.view());", "replace": "            if (!live.get()) { const Value first = capture_current_delta(ts.base()); apply_delta(out, first.view()); }\n            else { const Value delta = capture_delta(ts.base()); apply_delta(out, delta.view()); }\n            live.set(true);"}]},
    {"id": "h-bundle-output-not-cleared", "expect": "C12.h", "edits": [{"file": SW, "find": "  static_cast<void>(output.data_view().clear_collection(evaluation_time));\n}", "replace": "  if (output.schema() == nullptr || (output.schema()->kind != TSTypeKind::TSD && output.schema()->kind != TSTypeKind::TSS)) {\n    return;\n  }\n  static_cast<void>(output.data_view().clear_collection(evaluation_time));\n}"}]},
    {"id": "i-keyword-args-on-positional-slots", "expect": "C12.i", "edits": [{"file": "include/hgraph/lib/std/operators/impl/higher_order_impl.h", "find": "                named_slots.emplace_back(kwargs[i].first, positional_count + i);\n                ts.push_back(kwargs[i].second);\n            }\n\n            const TSValueTypeMetaData *output_schema = nullptr;", "replace": "                named_slots.emplace_back(kwargs[i].first, i);\n                ts.push_back(kwargs[i].second);\n            }\n\n            const TSValueTypeMetaData *output_schema = nullptr;"}]},
    {"id": "g-default-branch-not-in-layout", "expect": "C12.g", "edits": [{"file": SW, "find": "  if (spec.default_branch.has_value()) {\n    include_layout(*spec.default_branch);\n  }\n  return layout;", "replace": "  return layout;"}]},
    {"id": "d-inputs-bound-unsampled", "expect": "C12.d", "edits": [{"file": SW, "find": "  bind_branch_inputs(view, spec, next, evaluation_time, true);", "replace": "  bind_branch_inputs(view, spec, next, evaluation_time);"}]},
    {"id": "a-reselect-on-every-tick", "expect": "C12.a", "edits": [{"file": SW, "find": "    if (!storage.active_slot.has_value() || context.spec.reload_on_ticked ||\n        !same_key) {", "replace": "    if (!storage.active_slot.has_value() || context.spec.reload_on_ticked ||\n        !same_key || key_input.modified()) {"}]},
    {"id": "a-ignores-key-change", "expect": "C12.a", "edits": [{"file": SW, "find": "    if (!storage.active_slot.has_value() || context.spec.reload_on_ticked ||\n        !same_key) {", "replace": "    if (!storage.active_slot.has_value() || context.spec.reload_on_ticked) {"}]},
    {"id": "a-select-on-invalid-key", "expect": "C12.a", "edits": [{"file": SW, "find": "  if (key_input.valid() &&\n      (key_input.modified() || !storage.active_slot.has_value())) {", "replace": "  if (key_input.modified() || !storage.active_slot.has_value()) {"}]},
    {"id": "b-default-first", "expect": "C12.b", "edits": [{"file": SW, "find": "  for (const SwitchBranch &branch : context.spec.branches) {\n    if (branch.key.equals(key)) {\n      return &branch.spec;\n    }\n  }\n  if (context.spec.default_branch.has_value()) {\n    return &*context.spec.default_branch;\n  }", "replace": "  if (context.spec.default_branch.has_value()) {\n    return &*context.spec.default_branch;\n  }\n  for (const SwitchBranch &branch : context.spec.branches) {\n    if (branch.key.equals(key)) {\n      return &branch.spec;\n    }\n  }"}]},
    {"id": "c-same-slot", "expect": "C12.c", "edits": [{"file": SW, "find": "      storage.active_slot.has_value() ? 1U - *storage.active_slot : 0U;", "replace": "      storage.active_slot.has_value() ? *storage.active_slot : 0U;"}]},
    {"id": "d-start-before-stop", "expect": "C12.d", "edits": [{"file": SW, "find": "  } else {\n    switch_teardown(view, context, storage, evaluation_time);\n  }\n  storage.active_slot = next_slot;", "replace": "  }\n  storage.active_slot = next_slot;"}, {"file": SW, "find": "  next.start(evaluation_time);\n  schedule_sampled_input_consumers(next, evaluation_time, spec.input_bindings);", "replace": "  next.start(evaluation_time);\n  schedule_sampled_input_consumers(next, evaluation_time, spec.input_bindings);\n  if (!context.spec.output_forwards_to_child_terminal) { switch_teardown(view, context, storage, evaluation_time); }"}]},
    {"id": "d-teardown-no-stop", "expect": "C12.d", "edits": [{"file": SW, "find": "  active->view().stop(evaluation_time);\n  if (reset_output) {", "replace": "  if (reset_output) {"}]},
    {"id": "e-evaluate-retired", "expect": "C12.e", "edits": [{"file": SW, "find": "    return active->view().evaluate(evaluation_time);\n  }\n  return true;", "replace": "    if (storage.previous_slot.has_value()) { static_cast<void>(storage.graphs[*storage.previous_slot].view().evaluate(evaluation_time)); }\n    return active->view().evaluate(evaluation_time);\n  }\n  return true;"}]},
    {"id": "a-twin-demorgan", "expect": None, "edits": [{"file": SW, "find": "    if (!storage.active_slot.has_value() || context.spec.reload_on_ticked ||\n        !same_key) {", "replace": "    if (!(storage.active_slot.has_value() && !context.spec.reload_on_ticked && same_key)) {"}]},
]
