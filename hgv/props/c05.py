"""C05 - Collection deltas are coherent with collection values at every tick."""
from __future__ import annotations

import re

from .. import cparse as C
from ..index import AnalysisError
from ..k1 import ANY, Expect, Role
from ..report import Run
from .. import rules as R

ID = "C05"
SLOT = "src/hgraph/types/metadata/ts_data_slot_ops.cpp"
WIN = "src/hgraph/types/metadata/ts_data_window_ops.cpp"
OPS_FILES = ["src/hgraph/types/metadata/ts_data_slot_ops.cpp", "src/hgraph/types/metadata/ts_data_dynamic_list_ops.cpp",
             "src/hgraph/types/metadata/ts_data_fixed_structured_ops.cpp", "src/hgraph/types/metadata/ts_data_window_ops.cpp",
             "src/hgraph/types/metadata/ts_data_atomic_ops.cpp", "src/hgraph/types/time_series/ts_data/proxy.cpp"]
STORES = ("TSSSlotStorage", "TSDSlotStorage")
MUTATORS = ("insert_key", "insert_key_move", "remove_key", "remove_slot")

TECHNIQUE = ("inductive-invariant check of the added/removed masks (K13: writer census + control-dependence of every set on the opposite "
             "test), decision table of the lazy roll-over (K1), dominance of prepare_delta / membership change before mask writes (K2), "
             "polarity agreement of ops-table wiring (K5)")
EXPLANATION = (
    "Decides for the keyed collections (TSS/TSD slot stores): added and removed stay disjoint - every added.set(s) is control-dependent "
    "on slot_removed(s) being false with the true branch cancelling the opposite bit (and symmetrically), reset_delta clears both, and no "
    "other code writes the masks; the per-cycle delta window rolls over lazily and monotonically (an older time joins, a newer time first "
    "erases pending keys, then resets the masks, then stamps the window); every mutator validates the time and rolls the window before it "
    "touches keys or masks, and touches a mask only after the key store reported a membership change; the fixed tick window appends while "
    "below its period and otherwise records the evicted element before overwriting the oldest; all delta accessors in the ops tables are "
    "wired to functions of the same polarity (added->added, removed->removed, insert->insert ...). Not decided: value(t)=value(t-1)+delta(t) "
    "as a relation over histories, modified-item sets of nested children, time-window eviction by duration.")
ASSUMPTIONS = ["sul::dynamic_bitset set/reset/test behave as named", "KeySlotStore::insert/remove_slot report membership changes truthfully"]
DECIDED = ["a disjointness invariant", "b lazy monotone roll-over", "d mask writes follow membership changes", "e tick window push",
           "f polarity of ops tables",
           'k insertion decision tables of TSS/TSD insert_key / insert_key_move', 'l whole-collection move assignment scans current members with slot_live',
           'm decision table of TSDSlotStorage::record_child_modified']
NOT_DECIDED = ["value/delta relation over histories", "nested modified-item sets", "dynamic-list growth arithmetic", "time-window eviction"]


def _methods(run, cls):
    return [f for f in run.tree.file(SLOT).funcs if f.cls == cls]


def _ancestor_ifs(root, node):
    """[(If, branch)] for If statements containing node, outermost first; branch is 'then' / 'els'."""
    out = []

    def rec(n):
        if n is node:
            return True
        for ch in n.children():
            if rec(ch):
                if isinstance(n, C.If):
                    out.append((n, "then" if (ch is n.then or R._contains(n.then, node)) and not (n.els is not None and R._contains(n.els, node)) else "els"))
                return True
        return False
    rec(root)
    return list(reversed(out))


REMOVAL_CALLS = {"VALIDATE": r"validate_mutation_time", "PREPARE": r"prepare_delta", "STOPTREE": r".*stop_owned_ts_data_tree",
                 "ENSURE": r"ensure_delta_capacity", "ADD_RESET": r"added_\.reset", "REM_SET": r"removed_\.set",
                 "UNPUBLISH": r"value_published_\.reset", "MOD_RESET": r"modified_\.reset", "KEYSET": r"key_set_tracking_\.record_modified"}


def removal_tables(run: Run, rule: str, keep=None) -> None:
    """Decision tables of TSS/TSD remove_key / remove_slot; `keep` projects the table onto the call roles a property speaks about."""
    n = 0
    for cls in STORES:
        for nm in ("remove_key", "remove_slot"):
            fa = R.fn(run, SLOT, nm, cls=cls)
            tsd = cls == "TSDSlotStorage"
            roles = [Role("ADDED", "bool", r"slot_added\(.*\)", required=False), Role("REMOVED_OK", "bool", r"keys_\.remove_slot\(.*\)")]
            if nm == "remove_key":
                roles.append(Role("NOTFOUND", "bool", r"keys_\.find_slot\(key\)==KeySlotStore::npos|KeySlotStore::npos==keys_\.find_slot\(key\)"))
            else:
                roles += [Role("NPOS", "bool", r"slot==KeySlotStore::npos|KeySlotStore::npos==slot"), Role("LIVE", "bool", r"keys_\.slot_live\(slot\)")]
            if tsd:
                roles.append(Role("PUB", "bool", r"slot_value_published\(.*\)", required=False))

            def spec(v, nm=nm, tsd=tsd):
                calls = [("VALIDATE", ("modified_time",)), ("PREPARE", ("modified_time",))]
                done = False
                if nm == "remove_key":
                    done = v.b("NOTFOUND")
                else:
                    done = v.b("NPOS") or not v.b("LIVE")
                if not done:
                    if tsd:
                        calls.append(("STOPTREE", (ANY,)))
                    if v.b("REMOVED_OK"):
                        calls.append(("ENSURE", ()))
                        if tsd:
                            if v.b("PUB"):
                                calls.append(("ADD_RESET", (ANY,)) if v.b("ADDED") else ("REM_SET", (ANY,)))
                                calls.append(("UNPUBLISH", (ANY,)))
                            calls.append(("MOD_RESET", (ANY,)))
                            calls.append(("KEYSET", ("modified_time",)))
                        else:
                            calls.append(("ADD_RESET", (ANY,)) if v.b("ADDED") else ("REM_SET", (ANY,)))
                if keep is not None:
                    calls = [c for c in calls if c[0] in keep]
                return Expect(calls=calls)
            rc = REMOVAL_CALLS if keep is None else {k: v for k, v in REMOVAL_CALLS.items() if k in keep}
            R.k1(run, rule, fa, roles, spec, role_calls=rc, what=f"{cls}::{nm}")
            n += 1
    run.sites(n, 4, "removal functions")


INSERT_CALLS = {"VALIDATE": r"validate_mutation_time", "PREPARE": r"prepare_delta", "ENSURE": r"ensure_delta_capacity", "REM_RESET": r"removed_\.reset",
                "ADD_SET": r"added_\.set", "PUBLISH": r"value_published_\.set", "KEYSET": r"key_set_tracking_\.record_modified"}


def insertion_tables(run: Run, rule: str, keep=None) -> None:
    """Decision tables of TSS/TSD insert_key / insert_key_move (the mirror image of the removal tables): the window is rolled first; a key that was
    already present changes nothing; a slot removed earlier in this cycle is revived (removal cancelled, dictionary: published again); a NEW set
    element is added; a NEW dictionary key is published + added only once its child has a value; the dictionary's key-set endpoint is stamped."""
    n = 0
    for cls in STORES:
        for nm in ("insert_key", "insert_key_move"):
            fa = R.fn(run, SLOT, nm, cls=cls)
            tsd = cls == "TSDSlotStorage"
            roles = [Role("INS", "bool", r".*\.inserted"), Role("REMOVED", "bool", r"slot_removed\(.*\)")]
            if nm == "insert_key_move":
                roles.append(Role("SAMEBIND", "bool", r"key\.binding\(\)==key_binding_|key_binding_==key\.binding\(\)", required=False))
            if tsd:
                roles.append(Role("CV", "bool", r"child_valid\(.*\)", required=False))

            def spec(v, tsd=tsd):
                calls = [("VALIDATE", ("modified_time",)), ("PREPARE", ("modified_time",)), ("ENSURE", ())]
                if v.b("INS"):
                    if v.b("REMOVED"):
                        calls.append(("REM_RESET", (ANY,)))
                        if tsd:
                            calls.append(("PUBLISH", (ANY,)))
                    elif tsd:
                        if v.b("CV"):
                            calls += [("PUBLISH", (ANY,)), ("ADD_SET", (ANY,))]
                    else:
                        calls.append(("ADD_SET", (ANY,)))
                    if tsd:
                        calls.append(("KEYSET", ("modified_time",)))
                if keep is not None:
                    calls = [c for c in calls if c[0] in keep]
                return Expect(calls=calls, ret=ANY)
            rc = INSERT_CALLS if keep is None else {k: v for k, v in INSERT_CALLS.items() if k in keep}
            R.k1(run, rule, fa, roles, spec, role_calls=rc, what=f"{cls}::{nm}")
            n += 1
    run.sites(n, 4, "insertion functions")


def check(run: Run) -> None:
    t = run.tree

    with run.obligation("C05.a", "K13", "added/removed masks: writer census; every added.set(s) only where slot_removed(s) is false (true "
                        "branch cancels removed), every removed.set(s) only where slot_added(s) is false (true branch cancels added); "
                        "reset_delta clears both; accessors read their own mask"):
        allowed = set(MUTATORS) | {"record_child_modified", "reset_delta", "ensure_delta_capacity", "reserve"}
        sets = 0
        for cls in STORES:
            ms = _methods(run, cls)
            run.sites(len(ms), 20, f"{cls} methods")
            for fd in ms:
                fa = R.parse(run, fd)
                cn = R.aliases_of(fa)
                for c in R.calls(fa):
                    if not (isinstance(c.fn, C.Member) and isinstance(c.fn.obj, C.Id) and c.fn.obj.name in ("added_", "removed_")):
                        continue
                    op = c.fn.name
                    mask = c.fn.obj.name
                    if op in ("test", "size", "find_first", "find_next", "count", "any", "none", "num_blocks", "capacity"):
                        continue
                    run.count(1)
                    if fd.name not in allowed:
                        run.finding("C05.a", f"{cls}::{fd.name}:{mask}.{op}", f"{cls}::{fd.name} writes {mask} ({op}) outside the delta mutators",
                                    loc=fa.loc(c))
                        continue
                    if op == "set":
                        sets += 1
                        if len(c.args) != 1:
                            run.finding("C05.a", f"{cls}::{fd.name}:{mask}.set-all", f"{mask}.set() without a slot", loc=fa.loc(c))
                            continue
                        s = cn(c.args[0])
                        opposite = "slot_removed" if mask == "added_" else "slot_added"
                        other = "removed_" if mask == "added_" else "added_"
                        anc = _ancestor_ifs(fa.body, c)
                        guard = [(i, b) for i, b in anc if cn(i.cond) == f"{opposite}({s})"]
                        if not guard or guard[-1][1] != "els":
                            run.finding("C05.a", f"{cls}::{fd.name}:{mask}.set-unguarded",
                                        f"{cls}::{fd.name}: {mask}.set({s}) is not confined to the branch where {opposite}({s}) is false: a slot "
                                        f"could be both added and removed in one tick", loc=fa.loc(c))
                            continue
                        g = guard[-1][0]
                        cancels = [x for x in R.calls(g.then) if isinstance(x.fn, C.Member) and isinstance(x.fn.obj, C.Id) and x.fn.obj.name == other
                                   and x.fn.name == "reset" and len(x.args) == 1 and cn(x.args[0]) == s]
                        if not cancels:
                            run.finding("C05.a", f"{cls}::{fd.name}:{other}.reset-missing",
                                        f"{cls}::{fd.name}: when {opposite}({s}) holds the opposite bit must be cancelled ({other}.reset({s}))", loc=fa.loc(g))
                        wrong = [x for x in R.calls(g.then) if isinstance(x.fn, C.Member) and isinstance(x.fn.obj, C.Id) and x.fn.obj.name == mask
                                 and x.fn.name == "set"]
                        if wrong:
                            run.finding("C05.a", f"{cls}::{fd.name}:{mask}.set-in-cancel", f"{mask}.set in the cancelling branch", loc=fa.loc(wrong[0]))
                    elif op == "reset" and len(c.args) == 0 and fd.name != "reset_delta":
                        run.finding("C05.a", f"{cls}::{fd.name}:{mask}.reset-all", f"{mask} cleared wholesale outside reset_delta", loc=fa.loc(c))
            # reset_delta clears both
            fa = R.fn(run, SLOT, "reset_delta", cls=cls)
            cl = sorted(c.fn.obj.name for c in R.calls(fa, "reset") if isinstance(c.fn, C.Member) and isinstance(c.fn.obj, C.Id) and not c.args)
            if "added_" not in cl or "removed_" not in cl:
                run.finding("C05.a", f"{cls}::reset_delta", f"reset_delta must clear both masks, clears {cl}", loc=SLOT)
            # accessors read their own mask
            for acc, mask in (("slot_added", "added_"), ("slot_removed", "removed_"), ("next_added_slot", "added_"), ("next_removed_slot", "removed_")):
                fa = R.fn(run, SLOT, acc, cls=cls)
                ids = {n.name for n in fa.body.walk() if isinstance(n, C.Id) and n.name in ("added_", "removed_", "modified_", "value_published_")}
                run.count(1)
                if ids != {mask}:
                    run.finding("C05.a", f"{cls}::{acc}", f"{cls}::{acc} must read {mask} only, reads {sorted(ids)}", loc=SLOT)
        run.sites(sets, 6, "mask set sites")   # vacuity guard
        run.count(1, "C05.a")

    with run.obligation("C05.b", "K1+K2", "prepare_delta: an older-or-equal time joins the window; a newer time erases pending keys, then resets "
                        "the masks, then stamps the window; every mutator validates the time and prepares the window first"):
        for cls in STORES:
            fa = R.fn(run, SLOT, "prepare_delta", cls=cls)
            roles = [Role("T", "t", r"modified_time"), Role("DT", "t", r"delta_time_", lvalue=True), Role("MIN_DT", "t", r"MIN_DT", sentinel="min", required=False)]

            def spec(v):
                if v.le("T", "DT"):
                    return Expect(calls=[])
                return Expect(calls=[("ERASE_PENDING", ()), ("RESET", ())], stores={"DT": "T"})
            R.k1(run, "C05.b", fa, roles, spec, role_calls={"ERASE_PENDING": r"keys_\.erase_pending", "RESET": r"reset_delta"},
                 what=f"{cls}::prepare_delta")
            fl = R.flow(run, fa)
            R.k2_precede(run, "C05.b", fl, R.call_is(name="reset_delta"), R.store_is(r"delta_time_", r"modified_time"),
                         f"{cls}: masks reset before the window is stamped")
            n = 0
            for nm in MUTATORS + ("touch",) + (("record_child_modified",) if cls == "TSDSlotStorage" else ()):
                fa = R.fn(run, SLOT, nm, cls=cls)
                fl = R.flow(run, fa)
                prep = R.call_is(name="prepare_delta")
                touch = lambda x: (x.kind == "call" and ((x.recv in ("added_", "removed_", "modified_", "value_published_") and x.name in ("set", "reset"))
                                                         or (x.recv == "keys_" and x.name in ("insert", "insert_move", "remove_slot"))))
                if fl.nodes_of(touch):
                    R.k2_precede(run, "C05.b", fl, prep, touch, f"{cls}::{nm}: prepare_delta before keys/masks are touched")
                else:
                    run.count(1, f"C05.b.{cls}.{nm}.prepare")
                    if not fl.nodes_of(prep):
                        run.finding("C05.b", f"{cls}::{nm}:no-prepare-delta", f"{cls}::{nm} writes at a new time without rolling the delta window "
                                    "(prepare_delta): the previous write's added/removed bits stay readable as this tick's delta", loc=SLOT)
                if nm != "record_child_modified" and fl.nodes_of(prep):
                    val = R.call_is(name="validate_mutation_time")
                    R.k2_precede(run, "C05.b", fl, val, prep, f"{cls}::{nm}: the mutation time is validated before the window rolls")
                n += 1
            run.sites(n, 5, f"{cls} mutators")

    with run.obligation("C05.d", "K2", "a mask is written only after the key store reported a membership change"):
        n = 0
        for cls in STORES:
            for nm in MUTATORS:
                fa = R.fn(run, SLOT, nm, cls=cls)
                fl = R.flow(run, fa)
                maskw = lambda x: x.kind == "call" and x.recv in ("added_", "removed_") and x.name in ("set", "reset")
                R.require_nodes(run, fl, maskw, f"{cls}::{nm} mask writes")
                changed = (lambda node, lab: node.kind == "cond" and node.label in ("result.inserted", "keys_.remove_slot(slot)") and lab == "T")
                conds = fl.nodes_of(lambda x: x.kind == "cond" and x.label in ("result.inserted", "keys_.remove_slot(slot)"))
                if not conds:
                    raise AnalysisError("anchor-vanished", f"{cls}::{nm}: membership-change test not found")
                w = fl.reach([fl.start], targets=maskw, after_source=False, edge_skip=changed)
                run.count(1, f"C05.d.{cls}.{nm}")
                n += 1
                if w is not None:
                    run.finding("C05.d", f"{cls}::{nm}:mask-without-change", f"{cls}::{nm}: a delta bit is written although the key set did not change: "
                                + fl.path_text(w), loc=fl.cfg.describe(w[-1][0]))
        run.sites(n, 8, "mutators")

    with run.obligation("C05.e", "K1+K2", "fixed tick window: push appends iff size < period else overwrites the oldest, recording the evicted "
                        "element before it is overwritten; full iff period != 0 and size == period; all_valid iff size >= min_period"):
        pushes = [f for f in t.funcs(WIN, "push") if "overwrite_oldest" in t.file(WIN).text(f.body[0], f.body[1])]
        run.sites(len(pushes), 1, "tick-window push")
        fa = R.parse(run, pushes[0])
        roles = [Role("SIZE", "n", r"size\(\)"), Role("PERIOD", "n", r"period_")]
        R.k1(run, "C05.e", fa, roles, lambda v: Expect(calls=[("APPEND", (ANY, ANY))]) if v.lt("SIZE", "PERIOD") else Expect(calls=[("OVERWRITE", (ANY, ANY))]),
             role_calls={"APPEND": r"append", "OVERWRITE": r"overwrite_oldest"}, what="tick window push")
        fa = R.fn(run, WIN, "overwrite_oldest")
        fl = R.flow(run, fa)
        ev = R.call_is(name="record_evicted")
        R.k2_precede(run, "C05.e", fl, ev, R.call_is(name="copy_assign_value_slot"), "evicted element recorded before the slot is overwritten")
        R.k2_precede(run, "C05.e", fl, ev, R.store_is(r"head_", None), "evicted element recorded before head advances")
        cn = R.aliases_of(fa)
        evc = R.calls(fa, "record_evicted")
        if len(evc) != 1 or cn(evc[0].args[0]) not in ("value_slot(head_)", "value_slot(physical)"):
            run.finding("C05.e", "overwrite_oldest:evicted-slot", "the evicted element must be the one at head_", loc=WIN)
        fa = R.fn(run, WIN, "size_full")
        roles = [Role("P", "n", r"layout_for\(context\)\.period"), Role("ZERO", "n", r"0", sentinel="min"), Role("SZ", "n", r"window_size\(context,memory\)")]
        R.k1(run, "C05.e", fa, roles, lambda v: Expect(ret=(v.ne("P", "ZERO") and v.eq("SZ", "P"))), what="size_full")
        fa = R.fn(run, WIN, "size_all_valid")
        roles = [Role("MP", "n", r"layout_for\(context\)\.min_period"), Role("SZ", "n", r"window_size\(context,memory\)")]
        R.k1(run, "C05.e", fa, roles, lambda v: Expect(ret=v.ge("SZ", "MP")), what="size_all_valid")

    with run.obligation("C05.e2", "K6+K4", "window ring buffer: logical accessors go through physical_index = (head + i) % capacity, and code that "
                        "re-bases the ring (head := 0 after copying) reads the old elements through the logical accessors only"):
        fa = R.fn(run, WIN, "physical_index")
        cn = R.aliases_of(fa)
        rets = [cn(r.e) for r in R.find(fa, lambda n: isinstance(n, C.Return))]
        run.count(1, "C05.e2.physical")
        core = rets[-1].replace(" ", "") if rets else ""
        core = re.sub(r"^\(capacity_==0\)\?0:\((.*)\)$", r"\1", core)
        if core not in ("(head_+logical)%capacity_", "(logical+head_)%capacity_"):
            run.finding("C05.e2", "physical_index", f"physical_index must be (head_ + logical) % capacity_: {rets}", loc=WIN)
        n = 0
        for nm, raw in (("element_at", "value_slot"), ("time_element_at", "time_slot"), ("time_at", "time_at_physical")):
            for fd in t.funcs(WIN, nm):
                fa = R.parse(run, fd)
                cn = R.aliases_of(fa)
                rets = [cn(r.e) for r in R.find(fa, lambda x: isinstance(x, C.Return))]
                n += 1
                run.count(1)
                if not rets or rets[-1] != f"{raw}(physical_index(index))":
                    run.finding("C05.e2", f"{nm}:logical", f"{nm} must read {raw}(physical_index(index)), reads {rets}", loc=f"{WIN}:{fd.line}")
        run.sites(n, 3, "logical accessors")
        n = 0
        for fd in t.file(WIN).funcs:
            body = t.file(WIN).text(fd.body[0], fd.body[1])
            if "head_ = 0" not in body:
                continue
            fa = R.parse(run, fd, strict=False)
            cn = R.aliases_of(fa)
            copies = [c for c in R.calls(fa) if R.callee_name(c) in ("copy_construct", "copy_construct_slot", "move_construct", "move_construct_slot")]
            if not copies:
                continue
            n += 1
            run.count(1)
            for c in copies:
                for a in c.args:
                    for x in a.walk():
                        if isinstance(x, C.Call) and R.callee_name(x) in ("value_slot", "time_slot", "time_at_physical"):
                            run.finding("C05.e2", f"{fd.name}:physical-read-while-rebasing",
                                        f"{fd.name} re-bases the ring (head_ = 0) but copies old elements by PHYSICAL slot ({cn(x)}): the window's order "
                                        f"is scrambled whenever the ring had wrapped", loc=fa.loc(x))
        run.sites(n, 2, "re-basing copy functions")

    with run.obligation("C05.f", "K5", "delta accessors / mutators in the TSData ops tables are wired to functions of the same polarity"):
        total = 0
        for rel in OPS_FILES:
            n, bad = R.polarity_findings(t, rel)
            total += n
            run.count(n)
            for slot, fn_, line, encl, pair in bad:
                run.finding("C05.f", f"{rel}:{encl}:{slot}", f"{encl}: slot `{slot}` is wired to `{fn_}` (opposite polarity {pair})", loc=f"{rel}:{line}")
        run.sites(total, 300, "slot wirings")
        run.count(1, "C05.f")
        # surfaces: Added/Removed set-ops builders are assigned to their namesakes
        txt = t.read(SLOT)
        for m in re.finditer(r"(\w*added\w*|\w*removed\w*)\s*=\s*&?\s*\w*<\s*SlotSetSurface::(Added|Removed)\s*>", txt):
            lhs, surf = m.group(1), m.group(2).lower()
            run.count(1)
            if surf not in lhs.lower():
                run.finding("C05.f", f"surface:{lhs}", f"`{lhs}` receives the {surf} surface", loc=SLOT)

    with run.obligation("C05.g", "K1", "TSD / TSS removal tables (remove_key, remove_slot): nothing changes unless the key store removed the slot; a removal "
                        "cancels a same-cycle add (else records a removal); TSD additionally un-publishes the slot's value on EVERY removal, clears its "
                        "modified bit and stamps the key set's own tracking on EVERY membership change"):
        removal_tables(run, "C05.g")

    with run.obligation("C05.h", "K7", "a dictionary key erased and written again within ONE cycle: the removal clears the slot's modified bit while the child keeps "
                        "its own modification time, so the child's next write is 'not new' and never re-marks the parent; the revive branch of insert_key "
                        "must therefore re-mark the slot or reset the child's tracking (KNOWN FINDING F-C05-1 on the current tree)"):
        n = 0
        clears = all(any(R.Canon()(c.fn) == "modified_.reset" for c in R.calls(R.fn(run, SLOT, nm, cls="TSDSlotStorage"), "reset"))
                     for nm in ("remove_key", "remove_slot"))
        for nm in ("insert_key", "insert_key_move"):
            fa = R.fn(run, SLOT, nm, cls="TSDSlotStorage")
            cn = R.aliases_of(fa)
            rev = [s0 for s0 in fa.body.walk() if isinstance(s0, C.If) and cn(s0.cond).replace(" ", "") == "slot_removed(result.slot)"]
            run.sites(len(rev), 1, f"{nm} revive branch")
            n += 1
            run.count(1, f"C05.h.{nm}")
            calls = [cn(c.fn) for c in R.calls(rev[0].then)]
            remarks = any(c == "modified_.set" or re.search(r"reset_tracking|invalidate|clear_modified|reset_last_modified", c) for c in calls)
            if clears and not remarks:
                run.finding("C05.h", f"TSDSlotStorage::{nm}:revived-slot-not-remarked", f"TSDSlotStorage::{nm} revives a slot removed earlier in the same cycle "
                            f"(calls {calls}) without re-marking it modified or resetting the child's modification time: set(k,v1); erase(k); set(k,v2) in one "
                            "cycle changes the value while added/removed/modified do not report it", loc=fa.loc(rev[0]))
        run.sites(n, 2, "revive branches")

    with run.obligation("C05.k", "K1", "decision tables of TSS/TSD insert_key / insert_key_move: window rolled first; a present key changes nothing; a slot removed in "
                        "this cycle is revived (removal cancelled; dictionary: value published again); a new set element is added; a new dictionary key is "
                        "published+added iff its child already has a value; the dictionary's key-set endpoint is stamped (copy and move siblings agree)"):
        insertion_tables(run, "C05.k")

    with run.obligation("C05.l", "K4", "whole-collection move assignment of a set / dictionary decides which elements to DROP from the current members only: the scan "
                        "filters with slot_live (a slot pending its physical erase is freed by the window roll and re-used by a new key of the source; queued for removal "
                        "it would take that new key out again)"):
        R.membership_scans(run, "C05.l", [
            ("src/hgraph/types/time_series/ts_data/dict_view.cpp", "move_value_from", "TSDDataMutationView", "keys to drop = current keys absent from the source"),
            (SLOT, "tss_move_value_from", None, "elements to drop = current elements absent from the source"),
        ])

    with run.obligation("C05.i", "K2", "the mutation views of sets and dictionaries never mark the series modified at a new time without a storage operation that rolled the "
                        "delta window for that time (touch / insert / remove ... taking current_mutation_time()): otherwise the tick re-reports the added / removed "
                        "elements of an earlier cycle (clear() of an already-empty collection is the boundary case)"):
        n_marks = 0
        for rel, cls in (("src/hgraph/types/time_series/ts_data/set_view.cpp", "TSSDataMutationView"), ("src/hgraph/types/time_series/ts_data/dict_view.cpp", "TSDDataMutationView")):
            fi_ = run.tree.file(rel)
            for fd_ in fi_.funcs:
                if fd_.body is None or fd_.cls != cls and not fd_.qual.startswith(f"hgraph::{cls}::") and f"{cls}::" not in fd_.qual:
                    continue
                if "mark_modified" not in fi_.text(fd_.body[0], fd_.body[1]):
                    continue
                fa_ = R.parse(run, fd_)
                fl = R.flow(run, fa_)
                cn_ = R.Canon()
                rolls = lambda n, cn_=cn_: n.kind == "call" and n.ast is not None and isinstance(n.ast, C.Call) and R.callee_name(n.ast).endswith("_impl") and \
                    any(cn_(a) == "current_mutation_time()" for a in n.ast.args)
                marks = lambda n: n.kind == "call" and n.name == "mark_modified"
                if not fl.nodes_of(marks):
                    continue
                n_marks += 1
                run.count(1, "C05.i")
                w = fl.must_precede(rolls, marks)
                if w is not None:
                    run.finding("C05.i", f"{cls}::{fd_.name}:modified-without-window-roll", f"{cls}::{fd_.name} can mark the series modified on a path on which no storage "
                                f"operation rolled the delta window at the mutation time: {fl.path_text(w)}", loc=fl.cfg.describe(w[-1][0]))
        run.sites(n_marks, 6, "mutation-view methods that mark the series modified")

    with run.obligation("C05.j", "K2", "dynamic TSL: a child enters the per-cycle modified-index list (record_child_modified - not idempotent) only when its own write reported a "
                        "NEW modification this cycle and the child's tracking recorded it: a child that already ticked in this cycle is skipped, never registered twice "
                        "(a second registration re-heads the list and drops the earlier children from delta / modified_indices)"):
        DYN = "src/hgraph/types/metadata/ts_data_dynamic_list_ops.cpp"
        fi_ = run.tree.file(DYN)
        n_reg = 0
        for fd_ in fi_.funcs:
            if fd_.body is None or fd_.name == "record_child_modified" or fd_.name == "dynamic_record_child_modified":
                continue
            if "record_child_modified" not in fi_.text(fd_.body[0], fd_.body[1]):
                continue
            fa_ = R.parse(run, fd_)
            lambdas = [n_ for n_ in fa_.body.walk() if isinstance(n_, C.Lambda) and R.calls(n_.body, "record_child_modified")]
            units = [(f"{fd_.name}:lambda", C.FuncAST(fa_.fd, fa_.fi, l_.body, [], [])) for l_ in lambdas] or [(fd_.name, fa_)]
            for uname, ufa in units:
                fl = R.flow(run, ufa)
                reg = lambda n: n.kind == "call" and n.name == "record_child_modified"
                if not fl.nodes_of(reg):
                    continue
                n_reg += 1
                run.count(1, "C05.j")
                is_write = lambda n: n.kind == "cond" and re.search(r"\b(copy_value_from_impl|move_value_from_impl|from_python_impl|apply_delta_impl)\(", n.label) is not None
                is_rec = lambda n: n.kind == "cond" and "record_modified(" in n.label
                # a path to the registration that does not take the TRUE edge of the child's write test ...
                w = fl.reach([fl.start], targets=reg, after_source=False, edge_skip=lambda n, lab: is_write(n) and lab == "T")
                if w is not None:
                    run.finding("C05.j", f"{uname}:registered-without-new-write", f"{fd_.qual}: a child reaches record_child_modified although its write did not report a new "
                                f"modification this cycle: {fl.path_text(w)}", loc=fl.cfg.describe(w[-1][0]))
                    continue
                # ... or that does not take the TRUE edge of the tracking record
                w = fl.reach([fl.start], targets=reg, after_source=False, edge_skip=lambda n, lab: is_rec(n) and lab == "T")
                if w is not None:
                    run.finding("C05.j", f"{uname}:registered-without-tracking-record", f"{fd_.qual}: a child reaches record_child_modified although its tracking did not newly "
                                f"record the modification: {fl.path_text(w)}", loc=fl.cfg.describe(w[-1][0]))
        run.sites(n_reg, 3, "dynamic-list child registrations")

    with run.obligation("C05.m", "K1", "decision table of TSDSlotStorage::record_child_modified (a child of the dictionary reports a modification): nothing happens for a slot that is "
                        "not a CURRENT member (slot_live - a key erased earlier in the cycle keeps its slot occupied and its child writable through a retained handle; its late "
                        "notification must not cancel the recorded removal); a member that lost its value is un-published and reported removed (or its add cancelled); a "
                        "member that gained its first value is published and reported added (or its removal cancelled); every member with a value is marked modified"):
        fa = R.fn(run, SLOT, "record_child_modified", cls="TSDSlotStorage")
        roles = [Role("T", "t", r"modified_time"), Role("MIN_DT", "t", r"MIN_DT", sentinel="min"), Role("LIVE", "bool", r"slot_live\(slot\)"),
                 Role("HASV", "bool", r"child_has_current_value\(slot\)", required=False), Role("PUB", "bool", r"slot_value_published\(slot\)", required=False),
                 Role("ADDED", "bool", r"slot_added\(slot\)", required=False), Role("REMOVED", "bool", r"slot_removed\(slot\)", required=False)]

        def spec_rcm(v):
            if v.eq("T", "MIN_DT"):
                return Expect(throws=True, calls=[])
            if not v.b("LIVE"):
                return Expect(calls=[])
            calls = [("PREPARE", ("T",))]
            if not v.b("HASV"):
                calls.append(("MOD_RESET", (ANY,)))
                if v.b("PUB"):
                    calls.append(("UNPUBLISH", (ANY,)))
                    calls.append(("ADD_RESET", (ANY,)) if v.b("ADDED") else ("REM_SET", (ANY,)))
                return Expect(calls=calls)
            if not v.b("PUB"):
                calls.append(("PUBLISH", (ANY,)))
                calls.append(("REM_RESET", (ANY,)) if v.b("REMOVED") else ("ADD_SET", (ANY,)))
            calls.append(("MOD_SET", (ANY,)))
            return Expect(calls=calls)
        R.k1(run, "C05.m", fa, roles, spec_rcm, role_calls={"PREPARE": r"prepare_delta", "MOD_RESET": r"modified_\.reset", "MOD_SET": r"modified_\.set", "UNPUBLISH": r"value_published_\.reset",
                                                           "PUBLISH": r"value_published_\.set", "ADD_RESET": r"added_\.reset", "ADD_SET": r"added_\.set", "REM_SET": r"removed_\.set",
                                                           "REM_RESET": r"removed_\.reset"}, what="TSDSlotStorage::record_child_modified")


VARIANTS = [
    {"id": "m-seed-C05-8-child-notification-of-occupied-slot", "expect": "C05.m", "edits": [{"file": SLOT, "find": "                if (!slot_live(slot)) { return; }\n                prepare_delta(modified_time);\n\n                if (!child_has_current_value(slot))", "replace": "                if (!slot_occupied(slot)) { return; }\n                prepare_delta(modified_time);\n\n                if (!child_has_current_value(slot))"}]},
    {"id": "l-seed-C05-5-move-scan-occupied", "expect": "C05.l", "edits": [{"file": "src/hgraph/types/time_series/ts_data/dict_view.cpp", "find": "            if (!slot_live(slot)) { continue; }\n            auto key = key_at_slot(slot);\n            if (!source_map.contains(key)) { removals.push_back(slot); }", "replace": "            if (!slot_occupied(slot)) { continue; }\n            auto key = key_at_slot(slot);\n            if (!source_map.contains(key)) { removals.push_back(slot); }"}]},
    {"id": "k-set-insert-always-adds", "expect": "C05.k", "edits": [{"file": SLOT, "find": "                if (slot_removed(result.slot)) { removed_.reset(result.slot); }\n                else { added_.set(result.slot); }\n                return mutation_result(result.slot, result.constructed);\n            }\n\n            [[nodiscard]] SlotTSDataMutationResult insert_key_move", "replace": "                if (slot_removed(result.slot)) { removed_.reset(result.slot); }\n                added_.set(result.slot);\n                return mutation_result(result.slot, result.constructed);\n            }\n\n            [[nodiscard]] SlotTSDataMutationResult insert_key_move"}]},
    {"id": "k-dict-new-key-added-before-value", "expect": "C05.k", "edits": [{"file": SLOT, "find": "                else if (child_valid(result.slot))\n                {\n                    value_published_.set(result.slot);\n                    added_.set(result.slot);\n                }\n                (void)key_set_tracking_.record_modified(modified_time);\n                return mutation_result(result.slot, result.constructed);\n            }\n\n            [[nodiscard]] SlotTSDataMutationResult remove_key", "replace": "                else\n                {\n                    value_published_.set(result.slot);\n                    added_.set(result.slot);\n                }\n                (void)key_set_tracking_.record_modified(modified_time);\n                return mutation_result(result.slot, result.constructed);\n            }\n\n            [[nodiscard]] SlotTSDataMutationResult remove_key"}]},
    {"id": "j-move-registers-already-ticked-child", "expect": "C05.j", "edits": [{"file": "src/hgraph/types/metadata/ts_data_dynamic_list_ops.cpp", "find": "                    if (!ops.move_value_from_impl(ops.context, data, std::move(source_child), modified_time))\n                    {\n                        continue;\n                    }\n                    auto *tracking = ops.mutable_tracking_impl(ops.context, data);\n                    if (tracking == nullptr) { throw std::logic_error(\"dynamic TSL child has no tracking record\"); }\n                    if (!tracking->record_modified(modified_time))\n                    {\n                        throw std::logic_error(\"dynamic TSL child reported a duplicate modification\");\n                    }", "replace": "                    const bool child_first =\n                        ops.move_value_from_impl(ops.context, data, std::move(source_child), modified_time);\n                    auto *tracking = ops.mutable_tracking_impl(ops.context, data);\n                    if (tracking == nullptr) { throw std::logic_error(\"dynamic TSL child has no tracking record\"); }\n                    if (tracking->record_modified(modified_time) != child_first)\n                    {\n                        throw std::logic_error(\"dynamic TSL child reported an inconsistent modification\");\n                    }"}]},
    {"id": "i-set-clear-skips-window-roll", "expect": "C05.i", "edits": [{"file": "src/hgraph/types/time_series/ts_data/set_view.cpp", "find": "        const auto &ops           = set_ops();\n        const bool  newly_touched = ops.touch_impl(ops.context, mutation_.mutable_data(), current_mutation_time());\n        for (const auto &key : keys) { static_cast<void>(remove(key.view())); }", "replace": "        const bool newly_touched = !mutation_.modified();\n        for (const auto &key : keys) { static_cast<void>(remove(key.view())); }"}]},
    {"id": "b-touch-does-not-roll-window", "expect": "C05.b", "edits": [{"file": SLOT, "find": "            [[nodiscard]] bool touch(DateTime modified_time)\n            {\n                validate_mutation_time(modified_time);\n                prepare_delta(modified_time);\n                return tracking_.last_modified_time != modified_time;", "replace": "            [[nodiscard]] bool touch(DateTime modified_time)\n            {\n                validate_mutation_time(modified_time);\n                ensure_delta_capacity();\n                return tracking_.last_modified_time != modified_time;"}]},
    {"id": "g-tsd-unpublish-only-when-removal-recorded", "expect": "C05.g", "edits": [{"file": SLOT, "find": "                    if (slot_added(slot)) { added_.reset(slot); }\n                    else { removed_.set(slot); }\n                    value_published_.reset(slot);\n                }\n                modified_.reset(slot);\n                (void)key_set_tracking_.record_modified(modified_time);\n                return mutation_result(slot);\n            }\n\n            [[nodiscard]] SlotTSDataMutationResult remove_slot", "replace": "                    if (slot_added(slot)) { added_.reset(slot); }\n                    else { removed_.set(slot); value_published_.reset(slot); }\n                }\n                modified_.reset(slot);\n                (void)key_set_tracking_.record_modified(modified_time);\n                return mutation_result(slot);\n            }\n\n            [[nodiscard]] SlotTSDataMutationResult remove_slot"}]},
    {"id": "g-tsd-keyset-stamped-only-for-published", "expect": "C05.g", "edits": [{"file": SLOT, "find": "                    value_published_.reset(slot);\n                }\n                modified_.reset(slot);\n                (void)key_set_tracking_.record_modified(modified_time);\n                return mutation_result(slot);\n            }\n\n            [[nodiscard]] SlotTSDataMutationResult remove_slot", "replace": "                    value_published_.reset(slot);\n                    (void)key_set_tracking_.record_modified(modified_time);\n                }\n                modified_.reset(slot);\n                return mutation_result(slot);\n            }\n\n            [[nodiscard]] SlotTSDataMutationResult remove_slot"}]},
    {"id": "a-no-cancel-insert", "expect": "C05.a", "edits": [{"file": SLOT, "find": "                if (slot_removed(result.slot)) { removed_.reset(result.slot); }\n                else { added_.set(result.slot); }\n                return mutation_result(result.slot, result.constructed);\n            }\n\n            [[nodiscard]] SlotTSDataMutationResult insert_key_move", "replace": "                added_.set(result.slot);\n                return mutation_result(result.slot, result.constructed);\n            }\n\n            [[nodiscard]] SlotTSDataMutationResult insert_key_move"}]},
    {"id": "a-remove-sets-both", "expect": "C05.a", "edits": [{"file": SLOT, "find": "                if (slot_added(slot)) { added_.reset(slot); }\n                else { removed_.set(slot); }\n                return mutation_result(slot);\n            }\n\n            [[nodiscard]] SlotTSDataMutationResult remove_slot", "replace": "                if (slot_added(slot)) { added_.reset(slot); }\n                removed_.set(slot);\n                return mutation_result(slot);\n            }\n\n            [[nodiscard]] SlotTSDataMutationResult remove_slot"}]},
    {"id": "a-accessor-swapped", "expect": "C05.a", "edits": [{"file": SLOT, "find": "            [[nodiscard]] std::size_t next_removed_slot(std::size_t previous) const noexcept\n            {\n                return next_delta_slot(removed_, previous);", "replace": "            [[nodiscard]] std::size_t next_removed_slot(std::size_t previous) const noexcept\n            {\n                return next_delta_slot(added_, previous);"}]},
    {"id": "a-reset-half", "expect": "C05.a", "edits": [{"file": SLOT, "find": "                added_.reset();\n                removed_.reset();\n                delta_time_ = MIN_DT;", "replace": "                added_.reset();\n                delta_time_ = MIN_DT;"}]},
    {"id": "b-rebase-on-older", "expect": "C05.b", "edits": [{"file": SLOT, "find": "if (modified_time <= delta_time_)", "replace": "if (modified_time == delta_time_)"}]},
    {"id": "b-reset-before-erase", "expect": "C05.b", "edits": [{"file": SLOT, "find": "                keys_.erase_pending();\n                reset_delta();\n                delta_time_ = modified_time;", "replace": "                reset_delta();\n                keys_.erase_pending();\n                delta_time_ = modified_time;"}]},
    {"id": "b-late-prepare", "expect": "C05.b", "edits": [{"file": SLOT, "find": "                validate_mutation_time(modified_time);\n                prepare_delta(modified_time);\n\n                const auto slot = keys_.find_slot(key);\n                if (slot == KeySlotStore::npos) { return {.slot = TS_DATA_NO_CHILD_ID, .changed = false}; }\n                if (!keys_.remove_slot(slot)) { return {.slot = slot, .changed = false}; }\n\n                ensure_delta_capacity();", "replace": "                validate_mutation_time(modified_time);\n\n                const auto slot = keys_.find_slot(key);\n                if (slot == KeySlotStore::npos) { return {.slot = TS_DATA_NO_CHILD_ID, .changed = false}; }\n                if (!keys_.remove_slot(slot)) { return {.slot = slot, .changed = false}; }\n\n                prepare_delta(modified_time);\n                ensure_delta_capacity();"}]},
    {"id": "d-mask-on-duplicate-insert", "expect": "C05.d", "edits": [{"file": SLOT, "find": "                const auto result = keys_.insert(key);\n                ensure_delta_capacity();\n                if (!result.inserted) { return {.slot = result.slot, .changed = false}; }\n\n                if (slot_removed(result.slot)) { removed_.reset(result.slot); }\n                else { added_.set(result.slot); }", "replace": "                const auto result = keys_.insert(key);\n                ensure_delta_capacity();\n\n                if (slot_removed(result.slot)) { removed_.reset(result.slot); }\n                else { added_.set(result.slot); }\n                if (!result.inserted) { return {.slot = result.slot, .changed = false}; }"}]},
    {"id": "e-window-off-by-one", "expect": "C05.e", "edits": [{"file": WIN, "find": "if (size() < period_) { append(source, modified_time); }", "replace": "if (size() <= period_) { append(source, modified_time); }"}]},
    {"id": "e-evicted-after-overwrite", "expect": "C05.e", "edits": [{"file": WIN, "find": "                record_evicted(value_slot(physical), modified_time);\n                copy_assign_value_slot(physical, source.data());", "replace": "                copy_assign_value_slot(physical, source.data());\n                record_evicted(value_slot(physical), modified_time);"}]},
    {"id": "e2-grow-physical-copy", "expect": "C05.e2", "edits": [{"file": WIN, "find": "value_plan.copy_construct(new_value_bytes + index * new_value_stride, element_at(index));", "replace": "value_plan.copy_construct(new_value_bytes + index * new_value_stride, value_slot(index));"}]},
    {"id": "e2-physical-index-no-head", "expect": "C05.e2", "edits": [{"file": WIN, "find": "return time_slot(physical_index(index));", "replace": "return time_slot(index % capacity_);"}]},
    {"id": "a-twin-if-else-swapped", "expect": None, "edits": [{"file": SLOT, "find": "                if (slot_added(slot)) { added_.reset(slot); }\n                else { removed_.set(slot); }\n                return mutation_result(slot);\n            }\n\n            [[nodiscard]] SlotTSDataMutationResult remove_slot", "replace": "                if (slot_added(slot)) { added_.reset(slot); } else { removed_.set(slot); }\n                return mutation_result(slot);\n            }\n\n            [[nodiscard]] SlotTSDataMutationResult remove_slot"}]},
]
