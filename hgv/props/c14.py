"""C14 - Every started node is stopped exactly once, in reverse order, whatever fails."""
from __future__ import annotations

import re

from .. import cparse as C
from ..index import AnalysisError
from ..k1 import ANY, Expect, Role
from ..report import Run
from .. import rules as R

ID = "C14"
GRAPH = "src/hgraph/runtime/graph.cpp"
EXEC = "src/hgraph/runtime/executor.cpp"
NODE = "src/hgraph/runtime/node.cpp"
SCOPE = "include/hgraph/util/scope.h"
RT = "src/hgraph/runtime/"
OWNERS = {  # owner TU -> registered stop callback
    "nested_graph_node.cpp": "single_nested_graph_stop",
    "map_node.cpp": "map_node_stop",
    "tsl_map_node.cpp": "tsl_map_node_stop",
    "switch_node.cpp": "switch_node_stop",
    "reduce_node.cpp": "reduce_node_stop",
    "ordered_reduce_node.cpp": "ordered_reduce_stop",
    "mesh_node.cpp": "mesh_node_stop",
}

TECHNIQUE = ("path rules on a source-level CFG with exception edges and guard typestate (K2-EH), loop-shape (K3), decision "
             "tables of the scope.h guard classes (K1), field-order (K9) and owner sibling sweep (K7)")
EXPLANATION = (
    "Decides the pairing/ordering clauses behind the lifecycle contract on every path INCLUDING unwinding: the scope.h guard "
    "classes behave as their users assume (typestate tables); graph start visits nodes ascending and, on any throw inside the "
    "loop, every exceptional path enters the still-armed rollback which stops started nodes descending; graph stop visits nodes "
    "descending with one exception-capture per node and always reaches unbind/started:=false before rethrowing the first error; "
    "observer before/after-or-failed notifications pair on all exits; node start/stop keep `started` truthful and deactivate "
    "inputs on all exits; the executor arms its stop guard right after start, its storage destructors stop a started graph, and "
    "observers are declared before the graph; every child-graph owner's stop callback reaches stop() on its children and "
    "GraphValue::reset stops a started graph before destroying it. Not decided: behaviour of user stop callbacks, observers "
    "that throw.")
ASSUMPTIONS = [
    "every call may throw unless listed noexcept in hgv/cfg.py (over-approximation of exceptional paths)",
    "run_executor_phase's phase_runner invokes the action exactly once",
    "destructors of locals other than the scope.h guards do not affect the named events",
]
DECIDED = ["a scope.h typestate", "b start loop + rollback on EH", "c stop loop", "d observer pairing", "e node level",
           "f owners stop children; GraphValue::reset", "g executor", "h error identity",
           'j switch_: the replaced branch is looked up before active_slot.reset() and stopped',
           'k rollback of rebuild_structure resets created combiners on every path', 'l recorded clean-up failures are rethrown',
           'm a failed child cycle is not resumed (= C01.d2)', 'n stop callbacks of keyed owners report child stop failures (known finding F-C14-3)']
NOT_DECIDED = ["user stop callbacks", "throwing observers (best-effort by design)"]

HDR = r"graph_header\(.*\)"
LO = HDR + r"\.lifecycle_observers"


def _in_loop(n):
    return len(n.loops) > 0


def check(run: Run) -> None:
    t = run.tree

    # ---- a. scope.h typestate ------------------------------------------------------------------
    with run.obligation("C14.a", "K1", "scope.h guard classes: ~scope_exit runs fn iff active; ~UnwindCleanupGuard runs fn iff "
                        "active and unwinding, swallowing; complete deactivates BEFORE running; release deactivates; "
                        "FirstExceptionRecorder captures everything and keeps the first; annotate always rethrows; fallback never does"):
        act = Role("ACTIVE", "bool", r"active_", lvalue=True)
        fa = R.fn(run, SCOPE, "~scope_exit")

        def spec_se(v):
            if not v.b("ACTIVE"):
                return Expect(calls=[])
            if v.b("throws:FN"):
                if v.b("HideExceptions"):
                    return Expect(calls=[("FN", ())])
                return Expect(throws=True)
            return Expect(calls=[("FN", ())])
        R.k1(run, "C14.a", fa, [act], spec_se, role_calls={"FN": r"fn_"}, may_throw_calls=("FN",), what="~scope_exit")
        fa = R.fn(run, SCOPE, "release", cls="scope_exit")
        R.k1(run, "C14.a", fa, [act], lambda v: Expect(stores={"ACTIVE": False}), what="scope_exit::release")
        fa = R.fn(run, SCOPE, "release", cls="UnwindCleanupGuard")
        R.k1(run, "C14.a", fa, [act], lambda v: Expect(stores={"ACTIVE": False}), what="UnwindCleanupGuard::release")
        fa = R.fn(run, SCOPE, "complete", cls="UnwindCleanupGuard")

        def spec_c(v):
            if not v.b("ACTIVE"):
                return Expect(calls=[])
            if v.b("throws:FN"):
                return Expect(throws=True, stores={"ACTIVE": False}, stores_on_throw=True, calls=[("FN", ())])
            return Expect(stores={"ACTIVE": False}, calls=[("FN", ())])
        R.k1(run, "C14.a", fa, [act], spec_c, role_calls={"FN": r"fn_"}, may_throw_calls=("FN",), what="UnwindCleanupGuard::complete")
        fa = R.fn(run, SCOPE, "~UnwindCleanupGuard")
        roles = [act, Role("UE", "n", r"std::uncaught_exceptions\(\)"), Role("SNAP", "n", r"uncaught_exceptions_")]

        def spec_u(v):
            if v.b("ACTIVE") and v.gt("UE", "SNAP"):
                return Expect(calls=[("FN", ())])
            return Expect(calls=[])
        R.k1(run, "C14.a", fa, roles, spec_u, role_calls={"FN": r"fn_"}, may_throw_calls=("FN",), what="~UnwindCleanupGuard")
        # constructor snapshots uncaught_exceptions
        ctor = [f for f in t.funcs(SCOPE, "UnwindCleanupGuard", "UnwindCleanupGuard") if t.param_count(f) == 1 and f.init_list]
        run.sites(len(ctor), 1, "UnwindCleanupGuard ctor")
        il = t.file(SCOPE).text(*ctor[0].init_list).replace(" ", "")
        if "uncaught_exceptions_(std::uncaught_exceptions())" not in il:
            run.finding("C14.a", "UnwindCleanupGuard::ctor", f"constructor must snapshot std::uncaught_exceptions(): {il}", loc=f"{SCOPE}:{ctor[0].line}")
        sd = t.struct(SCOPE, "UnwindCleanupGuard")
        fld = {f.name: f for f in sd.fields}
        if "active_" not in fld or fld["active_"].init is None or t.file(SCOPE).text(*fld["active_"].init).replace(" ", "") not in ("{true}", "true"):
            run.finding("C14.a", "UnwindCleanupGuard::active_", "guard must start armed (active_{true})", loc=f"{SCOPE}:{sd.line}")
        fa = R.fn(run, SCOPE, "capture")
        roles = [Role("FIRSTNULL", "bool", r"first_exception_==nullptr")]

        def spec_cap(v):
            if v.b("throws:F"):
                if v.b("FIRSTNULL"):
                    return Expect(calls=[("F", ()), ("SETFIRST", (ANY,))])
                return Expect(calls=[("F", ())])
            return Expect(calls=[("F", ())])
        R.k1(run, "C14.a", fa, roles, spec_cap, role_calls={"F": r"f", "SETFIRST": r"@store:first_exception_"},
             may_throw_calls=("F",), what="FirstExceptionRecorder::capture")
        fa = R.fn(run, SCOPE, "rethrow_if_any")
        R.k1(run, "C14.a", fa, roles, lambda v: Expect() if v.b("FIRSTNULL") else Expect(throws=True),
             noreturn_calls=("rethrow_exception",), what="FirstExceptionRecorder::rethrow_if_any")
        for fd in t.funcs(SCOPE, "annotate_on_exception"):
            fa = R.parse(run, fd)

            def spec_an(v):
                if v.b("throws:F"):
                    return Expect(throws=True, calls=[("F", ()), ("ANNOTATE", ANYARGS)], stores_on_throw=True)
                return Expect(calls=[("F", ())])
            R.k1(run, "C14.a", fa, [], spec_an, role_calls={"F": r"f", "ANNOTATE": r"annotate"}, may_throw_calls=("F",),
                 feasible=lambda v: True if not v.has("caught-by:constException&error") else v.b("caught-by:constException&error"),
                 what="annotate_on_exception")
        fbs = t.funcs(SCOPE, "fallback_on_exception")
        run.sites(len(fbs), 2, "fallback_on_exception overloads")
        for fd in fbs:
            fa = R.parse(run, fd)
            has_handler = t.param_count(fd) == 3

            def spec_fb(v, has_handler=has_handler):
                if v.b("throws:F"):
                    calls = [("F", ())]
                    if has_handler:
                        calls.append(("ONERR", (ANY,)))
                    return Expect(calls=calls, ret="fallback")
                return Expect(calls=[("F", ())])
            R.k1(run, "C14.a", fa, [], spec_fb, role_calls={"F": r"f", "ONERR": r"on_error"}, may_throw_calls=("F",),
                 what="fallback_on_exception")

    # ---- b. start loop ------------------------------------------------------------------------
    with run.obligation("C14.b", "K3+K2-EH", "graph start_impl: ascending node loop; ++started_nodes only after start+after-notify; "
                        "rollback armed before the loop, released only after started:=true; on any throw in the loop every "
                        "exceptional path enters the armed rollback, which stops started nodes in descending order"):
        fa = R.fn(run, GRAPH, "start_impl")
        cn = R.aliases_of(fa)
        fl = R.flow(run, fa)
        start_call = R.call_is(name="start", recv=r"node_view")
        nodes = R.require_nodes(run, fl, start_call, "node_view.start calls", 2)
        start_loops = set()
        for nid in nodes:
            n = fl.cfg.nodes[nid]
            if not n.loops:
                run.finding("C14.b", "start_impl:start-outside-loop", "node start is not inside the node loop", loc=fl.cfg.describe(nid))
            else:
                start_loops.add(n.loops[-1] if n.ctx == "" else n.loops[0])
        # loop shape (source level)
        sl = [l for l in R.loops(fa, into_lambdas=False) if isinstance(l, C.For) and R.calls(l.body, "start")]
        run.sites(len(sl), 1, "start loop")
        sh = R.loop_shape(sl[0], cn)
        ok = (sh.get("init") == "0" and sh.get("cond_op") == "<" and sh.get("cond_l") == sh.get("var") and
              sh.get("cond_r", "").endswith("layout.node_count") and sh.get("step") == "++" and not sh["breaks"]
              and not sh["continues"] and not sh["returns"] and sh.get("body_writes_var") == 0)
        run.count(1, "C14.b.shape")
        if not ok:
            run.finding("C14.b", "start_impl:start-loop-shape", f"node start loop is not ascending over 0..node_count: {sh}", loc=fa.loc(sl[0]))
        # the started node is the loop's index
        for c in R.calls(sl[0].body, "graph_node_view"):
            if cn(c.args[-1]) != sh.get("var"):
                run.finding("C14.b", "start_impl:start-index", f"start loop starts node {cn(c.args[-1])}, not the loop index", loc=fa.loc(c))
        inc = R.store_is(r"started_nodes", r"\+\+")
        after_note = R.call_is(name="notify_after_start_node")
        one_iter = lambda n, lab: lab == "back"
        for a, what in ((start_call, "node_view.start"), (after_note, "notify_after_start_node")):
            R.require_nodes(run, fl, a, what)
            w = fl.reach([fl.start], avoid=a, targets=inc, after_source=False, edge_skip=one_iter)
            run.count(1, "C14.b.count-after")
            if w is not None:
                run.finding("C14.b", f"start_impl:count-before-{what}", f"++started_nodes reachable within an iteration without {what}: "
                            + fl.path_text(w), loc=fl.cfg.describe(w[-1][0]))
        R.require_nodes(run, fl, inc, "++started_nodes")
        # rollback guard
        gids = [g for g in fl.cfg.guards.values() if g.name == "rollback"]
        run.sites(len(gids), 1, "rollback guard")
        if gids[0].kind != "unwind":
            run.finding("C14.b", "start_impl:rollback-kind", "rollback must be an UnwindCleanupGuard", loc=f"{GRAPH}:{gids[0].line}")
        arm = lambda n: n.effect == "arm" and n.guard == gids[0].gid
        rel = lambda n: n.effect == "release" and n.guard == gids[0].gid
        in_rollback = lambda n: n.ctx.startswith("guard:rollback")
        R.k2_precede(run, "C14.b", fl, arm, start_call, "rollback guard armed before any node start")
        started_true = R.store_is(HDR + r"\.started", r"true", region="")
        R.k2_precede(run, "C14.b", fl, started_true, rel, "started:=true before rollback.release()")
        for nid in fl.nodes_of(rel):
            if fl.cfg.nodes[nid].loops:
                run.finding("C14.b", "start_impl:release-in-loop", "rollback released inside a loop", loc=fl.cfg.describe(nid))
        # EH: from every throwing node of the start loop, all exceptional exits pass the rollback body
        in_start_loop = lambda n: n.kind in ("call", "throw") and n.ctx.split("/")[0] in ("", "annotate", "annotate-handler") \
            and any(l in start_loops for l in n.loops) and any(lab == "eh" for _, lab in n.succ)
        thr = R.require_nodes(run, fl, in_start_loop, "throwing nodes in the start loop", 3)
        w = fl.must_follow(in_start_loop, in_rollback, exits="exc", first_edge=lambda lab: lab == "eh")
        run.count(len(thr), "C14.b.eh")
        if w is not None:
            run.finding("C14.b", "start_impl:eh-misses-rollback", "an exceptional path from the node start loop leaves without "
                        "running the rollback: " + fl.path_text(w), loc=fl.cfg.describe(w[0][0]))
        # rollback body: descending loop over started_nodes, stop(index-1), started:=false
        rb = gids[0].lam
        rl = [l for l in R.loops(rb.body, into_lambdas=False) if isinstance(l, C.For)]
        run.sites(len(rl), 1, "rollback loop")
        sh = R.loop_shape(rl[0], cn)
        ok = (sh.get("init") == "started_nodes" and sh.get("cond_op") == ">" and sh.get("cond_l") == sh.get("var")
              and sh.get("cond_r") == "0" and sh.get("step") == "--" and not sh["breaks"] and not sh["returns"]
              and not sh["continues"] and sh.get("body_writes_var") == 0)
        run.count(1, "C14.b.rollback-shape")
        if not ok:
            run.finding("C14.b", "start_impl:rollback-loop-shape", f"rollback loop is not descending from started_nodes to 1: {sh}", loc=fa.loc(rl[0]))
        gv = R.calls(rl[0].body, "graph_node_view")
        stops = R.calls(rl[0].body, "stop")
        run.sites(len(stops), 1, "rollback stop call")
        if not gv or cn(gv[0].args[-1]) != f"{sh.get('var')}-1":
            run.finding("C14.b", "start_impl:rollback-index", f"rollback must stop node index-1: {[cn(g.args[-1]) for g in gv]}", loc=fa.loc(rl[0]))
        sf = R.find(rb.body, lambda n: isinstance(n, C.Binary) and n.op == "=" and cn(n.l).endswith(".started") and cn(n.r) == "false")
        if not sf:
            run.finding("C14.b", "start_impl:rollback-started-false", "rollback must leave started=false", loc=fa.loc(rb))
        # a stop that throws inside the rollback must not end it: each per-node stop runs under its own capture (like stop_impl), so the
        # nodes started before the failing one are still stopped ("a failing stop does not prevent the remaining nodes from stopping")
        run.count(1, "C14.b.rollback-best-effort")
        for st_call in stops:
            caps = [c for c in R.calls(rl[0].body) if R.callee_name(c).split("::")[-1] in ("capture", "fallback_on_exception") and
                    any(isinstance(a, C.Lambda) and R._contains(a, st_call) for a in c.args)]
            if not caps:
                run.finding("C14.b", "start_impl:rollback-stop-uncaptured", "a node stop that throws during the start rollback leaves the rollback loop: the nodes "
                            "started before it are never stopped (the graph is not 'started', so no later stop pass reaches them)", loc=fa.loc(st_call))

    # ---- c. stop loop ---------------------------------------------------------------------------------
    with run.obligation("C14.c", "K3+K2+K1", "graph stop_impl: returns iff !started; throws iff stop_time<NOW; descending loop with one "
                        "capture per node; unbind/release/started:=false/after-notify all precede rethrow_if_any"):
        fa = R.fn(run, GRAPH, "stop_impl")
        cn = R.aliases_of(fa)
        roles = [Role("ST", "bool", HDR + r"\.started", lvalue=True), Role("STOPT", "t", r"stop_time"),
                 Role("NOW", "t", HDR + r"\.evaluation_time", lvalue=True),
                 Role("NOSCHEMA", "bool", r"graph\.schema\(\)==nullptr")]

        def spec_stop(v):
            if not v.b("ST"):
                return Expect(calls=[])
            if v.lt("STOPT", "NOW"):
                return Expect(throws=True, calls=[], stores_on_throw=True)
            calls = [("BEFORE", (ANY,))]
            if not v.b("NOSCHEMA"):
                calls.append(("UNBIND", ANYARGS))
            calls.append(("RELALT", ANYARGS))
            if v.b("HASEXC"):
                calls.append(("FAILED", (ANY,)))
            calls += [("AFTER", (ANY,)), ("RETHROW", ())]
            if v.b("throws:RETHROW"):
                return Expect(calls=calls, stores={"ST": False, "NOW": "STOPT"}, throws=True, stores_on_throw=True)
            return Expect(calls=calls, stores={"ST": False, "NOW": "STOPT"})
        R.k1(run, "C14.c", fa, roles + [Role("HASEXC", "bool", r"exceptions\.has_exception\(\)")], spec_stop, loops="skip",
             role_calls={"BEFORE": LO + r"->notify_before_stop_graph", "UNBIND": r"unbind_edges",
                         "RELALT": r"release_alternative_subscriptions", "FAILED": LO + r"->notify_stop_graph_failed",
                         "AFTER": LO + r"->notify_after_stop_graph", "RETHROW": r"exceptions\.rethrow_if_any"},
             inline_lambda_callees=(), may_throw_calls=("RETHROW",), what="graph stop_impl prefix/suffix")
        sl = [l for l in R.loops(fa, into_lambdas=False) if isinstance(l, C.For)]
        run.sites(len(sl), 1, "stop loop")
        sh = R.loop_shape(sl[0], cn)
        ok = (sh.get("init", "").endswith("layout.node_count") and sh.get("cond_op") == ">" and sh.get("cond_l") == sh.get("var")
              and sh.get("cond_r") == "0" and sh.get("step") == "--" and not sh["breaks"] and not sh["returns"]
              and not sh["continues"] and sh.get("body_writes_var") == 0)
        run.count(1, "C14.c.shape")
        if not ok:
            run.finding("C14.c", "stop_impl:loop-shape", f"node stop loop is not descending from node_count to 1: {sh}", loc=fa.loc(sl[0]))
        gv = R.calls(sl[0].body, "graph_node_view")
        if not gv or cn(gv[0].args[-1]) != f"{sh.get('var')}-1":
            run.finding("C14.c", "stop_impl:index", f"stop loop must stop node index-1: {[cn(g.args[-1]) for g in gv]}", loc=fa.loc(sl[0]))
        fl = R.flow(run, fa)
        stop_call = R.call_is(name="stop", recv=r"node_view")
        ns = R.require_nodes(run, fl, stop_call, "node_view.stop", 2)
        for nid in ns:
            n = fl.cfg.nodes[nid]
            run.count(1, "C14.c.capture")
            if "capture" not in n.ctx.split("/") or not n.loops:
                run.finding("C14.c", "stop_impl:stop-not-captured", "node_view.stop is not inside a per-iteration "
                            "exceptions.capture(...) region of the stop loop", loc=fl.cfg.describe(nid))
        # the capture call itself is inside the loop (one capture per node)
        cap = R.call_is(name="capture", recv=r"exceptions")
        for nid in R.require_nodes(run, fl, cap, "exceptions.capture"):
            if not fl.cfg.nodes[nid].loops:
                run.finding("C14.c", "stop_impl:capture-outside-loop", "exceptions.capture wraps the whole loop instead of each node", loc=fl.cfg.describe(nid))
        R.k2_follow(run, "C14.c", fl, stop_call, R.call_is(name="rethrow_if_any"), "node stop is followed by rethrow_if_any on every "
                    "normal exit", exits="normal")

    # ---- d. observer pairing --------------------------------------------------------------------------
    with run.obligation("C14.d", "K2-EH", "every notify_before_X is followed on all exits by notify_after_X or notify_X_failed"):
        pairs = [("start_impl", "notify_before_start_graph", ("notify_after_start_graph", "notify_start_graph_failed")),
                 ("start_impl", "notify_before_start_node", ("notify_after_start_node", "notify_start_node_failed")),
                 ("start_impl", "notify_before_stop_node", ("notify_after_stop_node", "notify_stop_node_failed")),
                 ("stop_impl", "notify_before_stop_graph", ("notify_after_stop_graph", "notify_stop_graph_failed")),
                 ("stop_impl", "notify_before_stop_node", ("notify_after_stop_node", "notify_stop_node_failed")),
                 ("evaluate_impl", "notify_before_node_evaluation", ("notify_after_node_evaluation",)),
                 ("evaluate_impl", "notify_before_graph_evaluation", ("notify_after_graph_evaluation",))]
        n = 0
        for fn_name, before, afters in pairs:
            fa = R.fn(run, GRAPH, fn_name)
            fl = R.flow(run, fa)
            a = R.call_is(name=before)
            b = R.either(*[R.call_is(name=x) for x in afters])
            # for node-level pairs inside capture/rollback regions the "exit" is the end of the region: use all exits
            R.k2_follow(run, "C14.d", fl, a, b, f"{fn_name}: {before} -> {'|'.join(afters)}", exits="all", after="completed")
            n += 1
        run.sites(n, 7, "observer pairs")

    # ---- e. node level ---------------------------------------------------------------------------------
    with run.obligation("C14.e", "K1+K2-EH", "node start_impl: started:=true only after the user start callback, inputs deactivated "
                        "if start throws; stop_impl: returns iff !started, started:=false and inputs deactivated on every exit; "
                        "evaluate returns immediately iff !started"):
        ST = r"node_storage\(.*\)\.started"
        fa = R.fn(run, NODE, "start_impl")
        fl = R.flow(run, fa)
        user_start = R.call_is(callee=r"callbacks\(context\)\.start")
        set_started = R.store_is(ST, r"true", region="")
        R.k2_precede(run, "C14.e", fl, user_start, set_started, "user start callback before started:=true") if False else None
        # started:=true is not reachable before the start callback has been tested/called
        w = fl.reach([fl.start], avoid=lambda n: n.kind == "cond" and n.label == "callbacks(context).start", targets=set_started, after_source=False)
        run.count(1, "C14.e.start-order")
        if w is not None:
            run.finding("C14.e", "node.start_impl:started-early", "started:=true reachable before the user start hook: " + fl.path_text(w),
                        loc=fl.cfg.describe(w[-1][0]))
        R.require_nodes(run, fl, set_started, "started:=true")
        R.k2_never_after(run, "C14.e", fl, set_started, user_start, "user start hook after started:=true")
        act = R.call_is(name="activate_input_slots")
        deact = R.call_is(name="deactivate_input_slots")
        R.k2_follow(run, "C14.e", fl, R.either(user_start, act), deact, "a throwing activate/start hook deactivates the inputs again", exits="exc", after="thrown")
        w = fl.reach(fl.states_of(set_started), targets=lambda n: n.id == fl.cfg.exc_exit and False)
        roles = [Role("ST", "bool", ST, lvalue=True), Role("HASCB", "bool", r"callbacks\(context\)\.start"),
                 Role("SOS", "bool", r"view\.schema\(\)->schedule_on_start"), Role("NOSCHEMA", "bool", r"nullptr==view\.schema\(\)"),
                 Role("NOGRAPH", "bool", r"node_storage\(.*\)\.graph==nullptr"), Role("NOW", "t", r"evaluation_time")]

        def spec_ns(v):
            if v.b("ST"):
                return Expect(calls=[])
            calls = [("ACT", ANYARGS)]
            if v.b("HASCB"):
                calls.append(("START", (ANY, "NOW")))
            if (not v.b("NOSCHEMA")) and v.b("SOS") and not v.b("NOGRAPH"):
                calls.append(("SCHEDULE", (ANY, "NOW")))
            return Expect(calls=calls, stores={"ST": True}, throws="may")
        R.k1(run, "C14.e", fa, roles, spec_ns, role_calls={"ACT": r"activate_input_slots", "START": r"callbacks\(context\)\.start",
                                                          "SCHEDULE": r"node_storage\(.*\)\.graph->schedule_node"},
             what="node start_impl")
        fa = R.fn(run, NODE, "stop_impl")
        fl = R.flow(run, fa)
        user_stop = R.call_is(callee=r"callbacks\(context\)\.stop")
        clear = R.store_is(ST, r"false")
        R.k2_follow(run, "C14.e", fl, user_stop, clear, "user stop hook is followed by started:=false on every exit", exits="all")
        R.k2_follow(run, "C14.e", fl, user_stop, R.call_is(name="deactivate_input_slots"),
                    "user stop hook is followed by input deactivation on every exit", exits="all")
        roles = [Role("ST", "bool", ST, lvalue=True), Role("HASCB", "bool", r"callbacks\(context\)\.stop"), Role("NOW", "t", r"evaluation_time")]

        def spec_nstop(v):
            if not v.b("ST"):
                return Expect(calls=[])
            calls = [("STOP", (ANY, "NOW"))] if v.b("HASCB") else []
            return Expect(calls=calls, throws="may", dont_care=("ST",))
        R.k1(run, "C14.e", fa, roles, spec_nstop, role_calls={"STOP": r"callbacks\(context\)\.stop"}, what="node stop_impl")
        # evaluate gate: return true first iff !started -- the K1 table of evaluate_impl (C02.g / C03.d) covers it; here we
        # check the owners' evaluate entry points (those that install their own evaluate_impl) keep the gate
        n = 0
        for tu in ("try_except_node.cpp", "mesh_node.cpp", "map_node.cpp", "reduce_node.cpp", "switch_node.cpp",
                   "tsl_map_node.cpp", "ordered_reduce_node.cpp", "nested_graph_node.cpp"):
            rel = RT + tu
            regs = re.findall(r"ops\s*\.\s*evaluate_impl\s*=\s*&\s*(\w+)", t.read(rel))
            for name in sorted(set(regs)):
                fa2 = R.fn(run, rel, name)
                # a statement that mentions none of the function's parameters (a trace line, an unrelated local) cannot evaluate a
                # child or run user code: such statements may precede the gate / the forwarding return
                def param_free(fa_, st_):
                    ps = {nm for _, nm in fa_.params if nm}
                    return not any(isinstance(x, C.Id) and x.name.split("::")[0] in ps for x in st_.walk()) and \
                        not any(isinstance(x, (C.Return, C.Throw)) for x in st_.walk())
                # follow a pure forwarder `return f(view, evaluation_time);`
                for _ in range(2):
                    st0 = [x for x in fa2.body.stmts if not param_free(fa2, x)]
                    if len(st0) == 1 and isinstance(st0[0], C.Return) and isinstance(st0[0].e, C.Call):
                        tgt = R.callee_name(st0[0].e)
                        cands = t.funcs(rel, tgt)
                        if len(cands) == 1:
                            fa2 = R.parse(run, cands[0])
                            continue
                    break
                cn2 = R.aliases_of(fa2)
                eff = [x for x in fa2.body.stmts if not param_free(fa2, x)]
                first = eff[0] if eff else None
                okg = isinstance(first, C.If) and cn2(first.cond) == "!view.started()" and first.els is None and \
                    any(isinstance(x, C.Return) for x in first.then.walk())
                n += 1
                run.count(1, "C14.e.gate")
                if not okg:
                    run.finding("C14.e", f"{name}:started-gate", f"{name} (registered as ops.evaluate_impl in {tu}) does not return "
                                f"immediately when the node is not started", loc=f"{rel}:{fa2.fd.line}")
        run.sites(n, 8, "owner evaluate_impl overrides")

    # ---- f. owners stop their children; GraphValue::reset ------------------------------------------------
    with run.obligation("C14.f", "K7", "every child-graph owner registers a stop callback that reaches stop() on its children; "
                        "GraphValue::reset stops a started graph (swallowing) before destroying its storage"):
        n = 0
        for tu, cb in OWNERS.items():
            rel = RT + tu
            fd_reg = [f for f in t.file(rel).funcs if True]
            # registration: descriptor.callbacks.stop = &cb
            txt = t.read(rel)
            if not re.search(r"callbacks\s*\.\s*stop\s*=\s*&\s*" + re.escape(cb) + r"\b", txt):
                run.finding("C14.f", f"{tu}:registration", f"{tu} no longer registers {cb} as callbacks.stop", loc=rel)
            fa = R.fn(run, rel, cb)
            # mesh: KeySlotStore::remove_slot notifies SlotObserver::on_remove (slot_observer.cpp), overridden by MeshNodeStorage
            reach = R.call_closure(run, fa, [rel], depth=3, dispatch={"remove_slot": "on_remove"} if tu == "mesh_node.cpp" else None)
            stops = [(f, c) for f, c in reach if R.callee_name(c) == "stop" and isinstance(c.fn, C.Member)
                     and re.search(r"graph|child|active|view\(\)", R.Canon()(c.fn.obj))]
            n += 1
            run.count(1, f"C14.f.{tu}")
            if not stops:
                run.finding("C14.f", f"{tu}:{cb}", f"stop callback {cb} does not reach stop() on a child graph (call closure depth 3)",
                            loc=f"{rel}:{fa.fd.line}")
            else:
                f0, c0 = stops[0]
                run.sample({"rule": "C14.f", "owner": tu, "callback": cb, "reaches": f"{f0.fd.qual}: {R.Canon()(c0)}"})
                # the first hop towards stop() is taken on EVERY normal path of the callback, except under per-child existence guards
                stop_fns = {f.fd.qual for f, c in stops}
                hop_names = set()
                for f, c in reach:
                    if f is fa:
                        nm = R.callee_name(c)
                        if nm == "stop" and (f, c) in stops:
                            hop_names.add("stop")
                        else:
                            tgt = ({"remove_slot": "on_remove"}.get(nm, nm) if tu == "mesh_node.cpp" else nm)
                            sub = [R.parse(run, fd2, strict=False) for fd2 in t.funcs(rel, tgt)] if tgt and tgt in t.read(rel) else []
                            for sf in sub:
                                inner = R.call_closure(run, sf, [rel], depth=2, dispatch={"remove_slot": "on_remove"} if tu == "mesh_node.cpp" else None)
                                if any(R.callee_name(c2) == "stop" and isinstance(c2.fn, C.Member) and
                                       re.search(r"graph|child|active|view\(\)", R.Canon()(c2.fn.obj)) for _, c2 in inner):
                                    hop_names.add(nm)
                fl = R.flow(run, fa)
                hop = lambda x: x.kind == "call" and x.name in hop_names and (x.name != "stop" or re.search(r"graph|child|active|view\(\)", x.recv))
                guard_ok = re.compile(r"more:.*|.*(!=nullptr|==nullptr|nullptr!=.*|nullptr==.*)|.*has_value\(\)|.*started\(\)|.*stop_child_on_stop|.*valid\(\)"
                                      r"|\w+<.*(slot_capacity|size)\(\)")  # the last form: a counted loop over the children (zero children = nothing to stop)
                w = fl.reach([fl.start], avoid=hop, targets=lambda x: x.id == fl.cfg.exit, after_source=False,
                             edge_skip=lambda node, lab: node.kind == "cond" and guard_ok.fullmatch(node.label) is not None and lab == "F")
                run.count(1, f"C14.f.{tu}.unconditional")
                if hop_names and w is not None:
                    run.finding("C14.f", f"{tu}:{cb}:conditional", f"stop callback {cb} can return without stopping its children (guarded by a "
                                f"condition that is not a per-child existence test): " + fl.path_text(w), loc=fl.cfg.describe(w[0][0]))
        run.sites(n, 7, "owners")
    with run.obligation("C14.f2", "K2+K7", "an owner that stops SEVERAL children in a loop does so best-effort: a child whose stop throws does not keep the "
                        "remaining children from being stopped within the same stop pass (KNOWN FINDINGS F-C14-2 on the current tree)"):
        n2 = 0
        for tu, cb in OWNERS.items():
            rel = RT + tu
            fa = R.fn(run, rel, cb)
            disp = {"remove_slot": "on_remove"} if tu == "mesh_node.cpp" else None
            reach = R.call_closure(run, fa, [rel], depth=3, dispatch=disp)
            is_child_stop = lambda c: R.callee_name(c) == "stop" and isinstance(c.fn, C.Member) and \
                re.search(r"graph|child|active|view\(\)", R.Canon()(c.fn.obj)) is not None
            chain = {id(fa): fa}
            for f, c in reach:
                chain[id(f)] = f
            stops_in = {id(f): [c for c in R.calls(f) if is_child_stop(c)] for f in chain.values()}
            reaches_stop = {f.fd.name for f in chain.values() if stops_in[id(f)]}
            changed = True
            while changed:
                changed = False
                for f in chain.values():
                    if f.fd.name in reaches_stop:
                        continue
                    if any((disp or {}).get(R.callee_name(c), R.callee_name(c)) in reaches_stop for c in R.calls(f)):
                        reaches_stop.add(f.fd.name)
                        changed = True
            for f in chain.values():
                for l in R.loops(f):
                    for k in R.calls(l.body):
                        nm = (disp or {}).get(R.callee_name(k), R.callee_name(k))
                        if not (is_child_stop(k) or (nm in reaches_stop and nm != f.fd.name)):
                            continue
                        n2 += 1
                        run.count(1, f"C14.f2.{tu}")
                        caps = [c for c in R.calls(l.body) if R.callee_name(c).split("::")[-1] in ("capture", "fallback_on_exception") and
                                any(isinstance(a, C.Lambda) and R._contains(a, k) for a in c.args)]
                        if not caps:
                            run.finding("C14.f2", f"{tu}:{f.fd.name}:child-stop-loop-not-best-effort", f"{f.fd.qual} stops its children in a loop through "
                                        f"`{R.Canon()(k)[:70]}` without a per-child capture: when one child's stop throws, the remaining children are not "
                                        "stopped before run() returns (only when the storage is destroyed)", loc=f.loc(k))
        run.sites(n2, 3, "per-child stop loops")

    with run.obligation("C14.f3", "K7+K1", "try_except inherits the single-nested stop callback; GraphValue::reset stops a started graph (swallowing) before "
                        "destroying its storage"):
        # try_except reuses the single nested descriptor (inherits its stop callback)
        fa = R.fn(run, RT + "try_except_node.cpp", "try_except_node")
        if not R.calls(fa, "single_nested_graph_node_descriptor"):
            run.finding("C14.f", "try_except_node:descriptor", "try_except_node no longer builds on single_nested_graph_node_descriptor "
                        "(which installs the stop callback)", loc=RT + "try_except_node.cpp")
        if R.find(fa, lambda x: isinstance(x, C.Binary) and x.op == "=" and R.Canon()(x.l).endswith("callbacks.stop")):
            run.finding("C14.f", "try_except_node:stop-override", "try_except_node overrides callbacks.stop", loc=RT + "try_except_node.cpp")
        # GraphValue::reset
        fa = R.fn(run, GRAPH, "GraphValue::reset")
        fl = R.flow(run, fa)
        stop = R.call_is(name="stop", recv=r"graph|view\(\)")
        destroy = R.either(R.call_is(name="destroy_at"), R.call_is(name="reset", recv=r"storage_"))
        for nid in fl.nodes_of(stop):
            if "fallback" not in fl.cfg.nodes[nid].ctx:
                run.finding("C14.f", "GraphValue::reset:stop-unguarded", "graph.stop() in reset must be wrapped by fallback_on_exception", loc=fl.cfg.describe(nid))
        roles = [Role("HASPTR", "bool", r"pointer_\.has_value\(\)"), Role("VALID", "bool", r"view\(\)\.valid\(\)|graph\.valid\(\)"),
                 Role("STARTED", "bool", r"view\(\)\.started\(\)|graph\.started\(\)")]

        def spec_reset(v):
            if v.b("HASPTR") and v.b("VALID") and v.b("STARTED"):
                return Expect(calls=[("STOP", ()), ("DESTROY", ANYARGS)])
            return Expect(calls=[("DESTROY", ANYARGS)])
        R.k1(run, "C14.f", fa, roles, spec_reset, role_calls={"STOP": r"(graph|view\(\))\.stop", "DESTROY": r"type\(\)\.destroy_at|storage_\.reset"},
             what="GraphValue::reset")
        fa = R.fn(run, GRAPH, "~GraphValue")
        if not R.calls(fa, "reset"):
            run.finding("C14.f", "~GraphValue", "GraphValue destructor no longer calls reset()", loc=GRAPH)

    # ---- g. executor -----------------------------------------------------------------------------------
    with run.obligation("C14.g", "K2-EH+K1+K9", "run_storage arms stop_graph right after the start phase and completes it after "
                        "the loop; the guard stops the graph iff cleanup_on_error or not unwinding; storage destructors stop a "
                        "started graph; lifecycle_observers is declared before graph"):
        fa = R.fn(run, EXEC, "run_storage")
        fl = R.flow(run, fa)
        gids = [g for g in fl.cfg.guards.values() if g.name == "stop_graph"]
        run.sites(len(gids), 1, "stop_graph guard")
        g = gids[0]
        run.count(1, "C14.g.guard-kind")
        if g.kind != "unwind":
            run.finding("C14.g", "run_storage:stop-guard-kind", f"stop_graph is a `{g.kind}` guard, not an UnwindCleanupGuard: its destructor lets a stop failure escape "
                        "while the original exception is unwinding (std::terminate; the original error never reaches the caller)", loc=f"{EXEC}:{g.line}")
        elif not fl.nodes_of(lambda n: n.kind == "guard-complete" or (n.kind == "call" and n.name == "complete" and n.recv == "stop_graph")):
            run.finding("C14.g", "run_storage:stop-guard-not-completed", "stop_graph.complete() is gone: on the normal path the stop runs in the destructor, where a stop "
                        "failure is swallowed instead of reaching the caller", loc=f"{EXEC}:{g.line}")
        arm = lambda n: n.effect == "arm" and n.guard == g.gid
        gstart = R.call_is(name="start", recv=r"graph|state\.graph\.view\(\)")
        geval = R.call_is(name="evaluate", recv=r"graph|state\.graph\.view\(\)")
        R.k2_precede(run, "C14.g", fl, gstart, arm, "graph.start precedes arming stop_graph")
        R.k2_precede(run, "C14.g", fl, arm, geval, "stop_graph armed before the first evaluate")
        # nothing that can throw lies between the start phase and the guard
        w = fl.reach(fl.states_of(R.call_is(name="run_executor_phase", arg=(1, r"GraphExecutorPhase::Start"))),
                     avoid=arm, targets=lambda n: n.kind in ("call", "throw") and any(l == "eh" for _, l in n.succ))
        run.count(1, "C14.g.gap")
        if w is not None:
            run.finding("C14.g", "run_storage:gap", "a throwing call lies between the start phase and the stop_graph guard: " + fl.path_text(w),
                        loc=fl.cfg.describe(w[-1][0]))
        in_guard = lambda n: n.ctx.startswith("guard:stop_graph")
        R.k2_follow(run, "C14.g", fl, geval, in_guard, "after an evaluate every exit (normal or exceptional) runs the stop_graph guard", exits="all")
        cn = R.aliases_of(fa)
        lam = g.lam
        ifs = [s for s in lam.body.stmts if isinstance(s, C.If)]
        okc = len(ifs) == 1 and cn(ifs[0].cond).replace(" ", "") in ("state.cleanup_on_error||(std::uncaught_exceptions()==0)",) \
            and bool(R.calls(ifs[0].then, "stop_storage"))
        run.count(1, "C14.g.guard-body")
        if not okc:
            run.finding("C14.g", "run_storage:guard-body", "stop_graph guard must call stop_storage iff cleanup_on_error || uncaught_exceptions()==0",
                        loc=fa.loc(lam))
        # destructors
        for cls in ("SimulationExecutorStorage", "RealTimeExecutorStorage"):
            fa = R.fn(run, EXEC, "~" + cls)
            roles = [Role("HAS", "bool", r"graph\.has_value\(\)"), Role("STARTED", "bool", r"graph\.view\(\)\.started\(\)")]
            R.k1(run, "C14.g", fa, roles, lambda v: Expect(calls=[("STOP", (ANY,))]) if (v.b("HAS") and v.b("STARTED")) else Expect(calls=[]),
                 role_calls={"STOP": r"stop_storage"}, what=f"~{cls}")
            fl2 = R.flow(run, fa)
            for nid in R.require_nodes(run, fl2, R.call_is(name="stop_storage"), "stop_storage in destructor"):
                if "fallback" not in fl2.cfg.nodes[nid].ctx:
                    run.finding("C14.g", f"~{cls}:unguarded", "destructor must swallow stop failures (fallback_on_exception)", loc=fl2.cfg.describe(nid))
            sd = t.struct(EXEC, cls)
            names = [f.name for f in sd.fields]
            run.count(1, "C14.g.field-order")
            if "lifecycle_observers" not in names or "graph" not in names or names.index("lifecycle_observers") > names.index("graph"):
                run.finding("C14.g", f"{cls}:field-order", f"lifecycle_observers must be declared before graph in {cls}: {names}", loc=f"{EXEC}:{sd.line}")
        # stop_storage attempts graph.stop and both drains regardless, then rethrows the first
        fa = R.fn(run, EXEC, "stop_storage")
        fl = R.flow(run, fa)
        caps = fl.nodes_of(R.call_is(name="capture"))
        run.sites(len(caps), 3, "capture calls in stop_storage")
        gs = R.call_is(name="stop", recv=r"graph|state\.graph\.view\(\)")
        for nid in R.require_nodes(run, fl, gs, "graph.stop in stop_storage"):
            if "capture" not in fl.cfg.nodes[nid].ctx:
                run.finding("C14.g", "stop_storage:stop-not-captured", "graph.stop() must run inside cleanup_errors.capture", loc=fl.cfg.describe(nid))
        R.k2_follow(run, "C14.g", fl, gs, R.call_is(name="rethrow_if_any"), "graph.stop() is followed by rethrow_if_any", exits="normal")
        drains = fl.nodes_of(R.call_is(name="drain_evaluation_notifications"))
        if len(drains) < 2:
            run.finding("C14.g", "stop_storage:drains", "stop_storage must drain both notification queues", loc=f"{EXEC}:{fa.fd.line}")

    # ---- h. error identity -----------------------------------------------------------------------------
    with run.obligation("C14.h", "K2", "at root level node start/stop/evaluate are wrapped by annotate_on_exception(..., "
                        "rethrow_with_node_identity(...)); evaluate records evaluation_failed before rethrowing"):
        n = 0
        for fn_name, phase in (("start_impl", "start"), ("stop_impl", "stop"), ("evaluate_impl", "evaluate")):
            fa = R.fn(run, GRAPH, fn_name)
            fl = R.flow(run, fa)
            hs = fl.nodes_of(lambda x: x.kind == "call" and x.name == "rethrow_with_node_identity" and "annotate-handler" in x.ctx
                             and len(x.args) == 3 and x.args[2] == f'"{phase}"')
            n += len(hs)
            run.count(1, f"C14.h.{phase}")
            if not hs:
                run.finding("C14.h", f"{fn_name}:identity", f"{fn_name} no longer annotates node {phase} failures with the node identity", loc=GRAPH)
            # the root-storage branch wraps the node call: there is a node_view.<phase> call in an 'annotate' region
            cs = fl.nodes_of(lambda x: x.kind == "call" and x.name == phase and x.recv == "node_view" and "annotate" in x.ctx.split("/"))
            if not cs:
                run.finding("C14.h", f"{fn_name}:wrapped-call", f"no node_view.{phase} call inside annotate_on_exception", loc=GRAPH)
        run.sites(n, 3, "identity handlers")
        fa = R.fn(run, GRAPH, "evaluate_impl")
        fl = R.flow(run, fa)
        failed = R.store_is(HDR + r"\.evaluation_failed", r"true")
        hn = fl.nodes_of(lambda x: failed(x) and "annotate-handler" in x.ctx)
        if len(hn) < 2:
            run.finding("C14.h", "evaluate_impl:failed-flag", "evaluation_failed:=true must be set in the annotate handlers", loc=GRAPH)

    with run.obligation("C14.i", "K11", "ordered reduce_: when the chain is rebuilt the RETIRED generation is stopped with its own bank and its own child count - both "
                        "snapshotted before the new generation is committed - so every child of the old generation (also the ones beyond the new, smaller count) is "
                        "stopped when it is retired, not a tick later or at destruction"):
        OR_ = "src/hgraph/runtime/ordered_reduce_node.cpp"
        fi_ = run.tree.file(OR_)
        cn = R.Canon()
        n_sw = 0
        for fd_ in fi_.funcs:
            if fd_.body is None or "stop_generation" not in fi_.text(fd_.body[0], fd_.body[1]) or fd_.name == "stop_generation":
                continue
            fa_ = R.parse(run, fd_)
            top = fa_.body.stmts
            store_idx = {f: [i for i, st in enumerate(top) if isinstance(st, C.ExprStmt) and isinstance(st.e, C.Binary) and st.e.op == "=" and cn(st.e.l) == f"storage.{f}"]
                         for f in ("current_bank", "live_count")}
            if not store_idx["current_bank"] and not store_idx["live_count"]:
                continue   # no commit in this function: (current_bank, live_count) read directly IS the live generation
            decl_at = {d.name: (i, cn(d.init)) for i, st in enumerate(top) if isinstance(st, C.Decl) for d in st.decls if d.name and d.init is not None}
            for i_c, st in enumerate(top):
                if not isinstance(st, C.ExprStmt):
                    continue
                for c in R.calls(st, "stop_generation"):
                    n_sw += 1
                    run.count(1, "C14.i")
                    for pos, field in ((0, "current_bank"), (1, "live_count")):
                        a = c.args[pos] if len(c.args) > pos else None
                        first_store = min(store_idx[field]) if store_idx[field] else len(top)
                        ok = False
                        if isinstance(a, C.Id) and a.name in decl_at:
                            i_d, init = decl_at[a.name]
                            ok = init == f"storage.{field}" and i_d < first_store
                        elif a is not None and cn(a) == f"storage.{field}":
                            ok = i_c < first_store
                        if not ok:
                            run.finding("C14.i", f"{fd_.name}:retired-generation-stopped-with-new-{field}", f"{fd_.qual}: stop_generation receives `{cn(a) if a is not None else '?'}` "
                                        f"for the {field} of the retired generation, which is not the value snapshotted before the commit of the new generation: children of "
                                        "the old generation are left running when the collection shrinks", loc=fa_.loc(c))
        run.sites(n_sw, 1, "generation swaps that stop the retired generation")

    with run.obligation("C14.j", "K2", "switch_: the branch being replaced is looked up BEFORE the active slot is cleared - storage.active_graph() answers from active_slot, "
                        "so a lookup after `active_slot.reset()` finds nothing and the `stop` guarded by it is silently skipped (two branch graphs live, the old one "
                        "stopped only when its slot is recycled or the executor is released); both the teardown helper and the hand-inlined forwarding arm of "
                        "activate_branch obey it, and each reaches a stop of the looked-up graph"):
        SWN = RT + "switch_node.cpp"
        n_fn = 0
        for fd_ in t.file(SWN).funcs:
            if fd_.body is None or "active_slot . reset" not in t.file(SWN).text(fd_.body[0], fd_.body[1]):
                continue
            fa_ = R.parse(run, fd_)
            fl_ = R.flow(run, fa_)
            n_fn += 1
            reset = R.call_is(callee=r".*active_slot\.reset")
            lookup = R.call_is(name="active_graph")
            assign = R.store_is(r".*active_slot", None)
            if not fl_.nodes_of(reset):
                continue
            run.count(1, "C14.j")
            w = fl_.reach(fl_.states_of(reset), targets=lookup, avoid=assign)
            if w is not None:
                run.finding("C14.j", f"{fd_.name}:active-graph-read-after-slot-reset", f"{fd_.qual}: storage.active_graph() is read after active_slot.reset() (and before "
                            f"active_slot is assigned again): it returns nullptr there, so the stop of the replaced branch that depends on it never runs: {fl_.path_text(w)}",
                            loc=fl_.cfg.describe(w[-1][0]))
            w = fl_.must_precede(lookup, reset)
            if w is not None:
                run.finding("C14.j", f"{fd_.name}:slot-reset-without-lookup", f"{fd_.qual}: active_slot is cleared on a path on which the active branch was never looked up "
                            f"(nothing can stop it afterwards): {fl_.path_text(w)}", loc=fl_.cfg.describe(w[-1][0]))
            stops = [c for c in R.calls(fa_, "stop") if "active" in R.Canon()(c.fn)]
            if not stops:
                run.finding("C14.j", f"{fd_.name}:no-stop-of-replaced-branch", f"{fd_.qual} clears the active slot but never stops the graph it looked up", loc=fa_.loc(fa_.body))
        run.sites(n_fn, 2, "functions that clear the active slot")

    with run.obligation("C14.k", "K2", "reduce_: a structural rebuild that fails half-way stops every combiner it had already created and started, in BOTH shapes of the rebuild (same "
                        "bank; capacity growth into the inactive bank): every path through the rollback guard of rebuild_structure passes through a loop over `created` that "
                        "resets (stops + destroys) each entry - the abandoned bank is not reachable from storage.combiners, so reduce_node_stop would never visit it"):
        fa = R.fn(run, RT + "reduce_node.cpp", "rebuild_structure")
        guards = [d for d in R.find(fa, lambda x: isinstance(x, C.Declarator) and x.name == "rollback" and x.init is not None)]
        run.sites(len(guards), 1, "rollback guard of rebuild_structure")
        lams = [x for x in guards[0].init.walk() if isinstance(x, C.Lambda)]
        run.sites(len(lams), 1, "rollback lambda")
        body = lams[0].body
        cn = R.Canon()

        def resets_created(node):
            return any(isinstance(l, C.RangeFor) and cn(l.range) == "created" and R.calls(l.body, "reset_combiner_noexcept") for l in node.walk())

        def every_path_resets(stmts):
            """syntactic must-analysis over the guard body: a reset loop at this level covers everything after it; an `if` that returns must reset inside."""
            for st in stmts:
                if isinstance(st, C.RangeFor) and resets_created(st):
                    return True
                if isinstance(st, C.If):
                    arms = [st.then] + ([st.els] if st.els is not None else [])
                    for arm in arms:
                        exits = any(isinstance(x, C.Return) for x in arm.walk())
                        if exits and not every_path_resets(arm.stmts if isinstance(arm, C.Block) else [arm]):
                            return False
                if isinstance(st, C.Return):
                    return False
            return False
        run.count(1, "C14.k")
        if not every_path_resets(body.stmts):
            run.finding("C14.k", "rebuild_structure:rollback-path-keeps-created-combiners", "a path through the rollback guard of rebuild_structure leaves without resetting the combiners "
                        "recorded in `created`: after a failed growth the replacement combiners already started in the inactive bank keep running until the storage is destroyed "
                        "at executor release", loc=fa.loc(lams[0]))

    with run.obligation("C14.l", "K2", "a failure recorded during a best-effort clean-up pass reaches the caller: every function that collects stop errors in a FirstExceptionRecorder "
                        "rethrows the first one after the pass (`recorder.rethrow_if_any()` on the normal exit) - the one exception is the recorder of the start ROLLBACK, "
                        "whose enclosing guard runs while the original start error is already propagating"):
        ROLLBACK_ONLY = {("src/hgraph/runtime/graph.cpp", "rollback_failures")}
        n_rec = 0
        for rel in (RT + "executor.cpp", RT + "graph.cpp", RT + "map_node.cpp", RT + "reduce_node.cpp", RT + "mesh_node.cpp", RT + "tsl_map_node.cpp", RT + "switch_node.cpp",
                    RT + "ordered_reduce_node.cpp", RT + "nested_graph_node.cpp", RT + "try_except_node.cpp"):
            fi_ = t.file(rel)
            if "FirstExceptionRecorder" not in t.read(rel):
                continue
            for fd_ in fi_.funcs:
                if fd_.body is None or "FirstExceptionRecorder" not in fi_.text(fd_.body[0], fd_.body[1]):
                    continue
                if any(o is not fd_ and o.body is not None and o.body[0] > fd_.body[0] and o.body[1] < fd_.body[1] and "FirstExceptionRecorder" in fi_.text(o.body[0], o.body[1]) for o in fi_.funcs):
                    continue
                fa_ = R.parse(run, fd_, strict=False)
                cn_ = R.Canon()
                for st in [x for x in fa_.body.walk() if isinstance(x, C.Decl) and "FirstExceptionRecorder" in str(x.type)]:
                    for d in st.decls:
                        n_rec += 1
                        run.count(1, "C14.l")
                        if (rel, d.name) in ROLLBACK_ONLY:
                            continue
                        captures = [c for c in R.calls(fa_, "capture") if isinstance(c.fn, C.Member) and cn_(c.fn.obj) == d.name]
                        rethrows = [c for c in R.calls(fa_, "rethrow_if_any") if isinstance(c.fn, C.Member) and cn_(c.fn.obj) == d.name]
                        if captures and not rethrows:
                            run.finding("C14.l", f"{fd_.name}:{d.name}:recorded-stop-error-discarded", f"{fd_.qual} records clean-up failures in `{d.name}` but never rethrows them: a node whose "
                                        "stop hook failed is reported as a successful run", loc=fa_.loc(st))
        run.sites(n_rec, 5, "FirstExceptionRecorder locals")

    with run.obligation("C14.m", "K2", "a child graph that failed in one cycle is scanned from its first node in the next: the failed flag of the previous cycle is read (resuming) before "
                        "the per-cycle resets clear it - resumed at the failing node, the lower-ranked siblings are never evaluated again although they stay started until "
                        "the end of the run, and the evaluation brackets seen by lifecycle observers no longer pair (shared with C01.d2)"):
        from . import c01
        R.share(run, "C14.m", c01, ["C01.d2"])

    with run.obligation("C14.n", "K7", "a child whose stop hook fails makes the run fail, whichever owner holds it: the stop CALLBACK of every keyed owner (map_, reduce_, tsl_map_, mesh_, "
                        "ordered reduce_) stops all its children best-effort AND reports the first failure (a FirstExceptionRecorder rethrown at the end) - a callback that only "
                        "delegates to the destructor's `*_noexcept` teardown swallows it, and run() returns success although a node failed to stop "
                        "(KNOWN FINDING F-C14-3: tsl_map_; mesh_ and ordered reduce_ by the same construct)"):
        OWN = [("tsl_map_node.cpp", "tsl_map_node_stop"), ("mesh_node.cpp", "mesh_node_stop"), ("ordered_reduce_node.cpp", "ordered_reduce_stop"),
               ("map_node.cpp", "map_node_stop"), ("reduce_node.cpp", "reduce_node_stop")]
        n_own = 0
        for tu, nm in OWN:
            rel = RT + tu
            fa_ = R.fn(run, rel, nm)
            n_own += 1
            run.count(1, "C14.n")
            closure = R.call_closure(run, fa_, [rel], depth=2)
            reports = any(R.callee_name(c) == "rethrow_if_any" for _, c in closure)
            swallow = [R.callee_name(c) for _, c in closure if (R.callee_name(c) or "").endswith("_noexcept") or R.callee_name(c) == "fallback_on_exception"]
            if not reports:
                run.finding("C14.n", f"{nm}:child-stop-failure-swallowed", f"{nm} (the stop callback of {tu.replace('_node.cpp', '_')}) never rethrows a recorded child stop failure "
                            f"(it tears down through {sorted(set(swallow))[:3]}): every child is stopped, but the error does not reach the caller of run()", loc=fa_.loc(fa_.body))
        run.sites(n_own, 5, "stop callbacks of keyed owners")


ANYARGS = ("anyargs",)


VARIANTS = [
    {"id": "l-seed-C14-8-reduce-stop-error-discarded", "expect": "C14.l", "edits": [{"file": RT + "reduce_node.cpp", "find": "            failures.rethrow_if_any();", "replace": ""}]},
    {"id": "k-seed-C14-7-bank-change-rollback-keeps-created", "expect": "C14.k", "edits": [{"file": RT + "reduce_node.cpp", "find": "                if (bank_changed)\n                {\n                    for (const std::size_t position : created)\n                    {\n                        reset_combiner_noexcept(current_bank, position);\n                    }\n                    storage.combiners    = std::move(retired_shape);", "replace": "                if (bank_changed)\n                {\n                    storage.combiners    = std::move(retired_shape);"}]},
    {"id": "j-seed-C14-6-lookup-after-reset", "expect": "C14.j", "edits": [{"file": RT + "switch_node.cpp", "find": "    GraphValue *active = storage.active_graph();\n    bind_branch_output(view, context, spec, next, evaluation_time, true);\n    if (active != nullptr && active->has_value()) {\n      active->view().stop(evaluation_time);\n    }\n    storage.previous_slot = storage.active_slot;\n    storage.active_slot.reset();\n    storage.active_key = Value{};\n    storage.active_spec = nullptr;", "replace": "    bind_branch_output(view, context, spec, next, evaluation_time, true);\n    storage.previous_slot = storage.active_slot;\n    storage.active_slot.reset();\n    storage.active_key = Value{};\n    storage.active_spec = nullptr;\n    if (GraphValue *active = storage.active_graph();\n        active != nullptr && active->has_value()) {\n      active->view().stop(evaluation_time);\n    }"}]},
    {"id": "i-retired-generation-stopped-with-new-count", "expect": "C14.i", "edits": [{"file": "src/hgraph/runtime/ordered_reduce_node.cpp", "find": "            storage.stop_generation(old_bank, old_count);\n            storage.current_bank = next_bank;\n            storage.live_count = next_count;\n", "replace": "            storage.current_bank = next_bank;\n            storage.live_count = next_count;\n            storage.stop_generation(old_bank, storage.live_count);\n"}]},
    {"id": "i-twin-stop-after-commit-with-snapshots", "expect": None, "edits": [{"file": "src/hgraph/runtime/ordered_reduce_node.cpp", "find": "            storage.stop_generation(old_bank, old_count);\n            storage.current_bank = next_bank;\n            storage.live_count = next_count;\n", "replace": "            storage.current_bank = next_bank;\n            storage.live_count = next_count;\n            storage.stop_generation(old_bank, old_count);\n"}]},
    {"id": "g-stop-guard-is-plain-scope-exit", "expect": "C14.g", "edits": [{"file": EXEC, "find": "            auto stop_graph = UnwindCleanupGuard([&] {", "replace": "            auto stop_graph = make_scope_exit([&] {"}, {"file": EXEC, "find": "\n            stop_graph.complete();\n", "replace": "\n"}]},
    {"id": "b-revert-fix-rollback-stop-uncaptured", "expect": "C14.b", "edits": [{"file": GRAPH, "find": "      rollback_failures.capture([&] {\n        NodeView node_view = graph_node_view(runtime, graph.data(), index - 1);", "replace": "      [&] {\n        NodeView node_view = graph_node_view(runtime, graph.data(), index - 1);"}, {"file": GRAPH, "find": "        node_view.stop(state.evaluation_time);\n        failed_notify.release();\n      });", "replace": "        node_view.stop(state.evaluation_time);\n        failed_notify.release();\n      }();"}]},
    {"id": "a-complete-order", "expect": "C14.a", "edits": [{"file": SCOPE, "find": "            active_ = false;\n            fn_();", "replace": "            fn_();\n            active_ = false;"}]},
    {"id": "a-unwind-ge", "expect": "C14.a", "edits": [{"file": SCOPE, "find": "std::uncaught_exceptions() <= uncaught_exceptions_", "replace": "std::uncaught_exceptions() < uncaught_exceptions_"}]},
    {"id": "a-capture-last", "expect": "C14.a", "edits": [{"file": SCOPE, "find": "if (first_exception_ == nullptr) { first_exception_ = std::current_exception(); }", "replace": "first_exception_ = std::current_exception();"}]},
    {"id": "a-annotate-swallow", "expect": "C14.a", "edits": [{"file": SCOPE, "find": "            std::forward<Annotate>(annotate)();\n            throw;", "replace": "            std::forward<Annotate>(annotate)();"}]},
    {"id": "b-count-early", "expect": "C14.b", "edits": [{"file": GRAPH, "find": "    state.lifecycle_observers->notify_before_start_node(node_view);\n", "replace": "    state.lifecycle_observers->notify_before_start_node(node_view);\n    ++started_nodes;\n"},
                                                           {"file": GRAPH, "find": "    node_start_failed.release();\n    ++started_nodes;", "replace": "    node_start_failed.release();"}]},
    {"id": "b-release-early", "expect": "C14.b", "edits": [{"file": GRAPH, "find": "  state.next_scheduled_time = MAX_DT;\n  for (std::size_t index = 0; index < runtime.layout.node_count; ++index) {\n    const DateTime scheduled", "replace": "  rollback.release();\n  state.next_scheduled_time = MAX_DT;\n  for (std::size_t index = 0; index < runtime.layout.node_count; ++index) {\n    const DateTime scheduled"}]},
    {"id": "b-rollback-ascending", "expect": "C14.b", "edits": [{"file": GRAPH, "find": "for (std::size_t index = started_nodes; index > 0; --index) {\n      rollback_failures.capture([&] {", "replace": "for (std::size_t index = 1; index <= started_nodes; ++index) {\n      rollback_failures.capture([&] {"}]},
    {"id": "b-rollback-scope-exit", "expect": "C14.b", "edits": [{"file": GRAPH, "find": "  auto rollback = UnwindCleanupGuard([&] {\n    // Best-effort, like stop_impl:", "replace": "  auto rollback = make_scope_exit([&] {\n    // Best-effort, like stop_impl:"}]},
    {"id": "c-stop-ascending", "expect": "C14.c", "edits": [{"file": GRAPH, "find": "for (std::size_t index = runtime.layout.node_count; index > 0; --index) {\n    exceptions.capture([&] {\n      NodeView node_view = graph_node_view(runtime, graph.data(), index - 1);", "replace": "for (std::size_t index = 1; index <= runtime.layout.node_count; ++index) {\n    exceptions.capture([&] {\n      NodeView node_view = graph_node_view(runtime, graph.data(), index - 1);"}]},
    {"id": "c-started-after-rethrow", "expect": "C14.c", "edits": [{"file": GRAPH, "find": "  state.started = false;\n  if (exceptions.has_exception()) {", "replace": "  if (exceptions.has_exception()) {"},
                                                                     {"file": GRAPH, "find": "  exceptions.rethrow_if_any();\n}", "replace": "  exceptions.rethrow_if_any();\n  state.started = false;\n}"}]},
    {"id": "c-no-idempotence", "expect": "C14.c", "edits": [{"file": GRAPH, "find": "  if (!state.started) {\n    return;\n  }\n  if (stop_time < state.evaluation_time) {", "replace": "  if (stop_time < state.evaluation_time) {"}]},
    {"id": "d-after-start-dropped", "expect": "C14.d", "edits": [{"file": GRAPH, "find": "  rollback.release();\n  state.lifecycle_observers->notify_after_start_graph(graph);\n  graph_start_failed.release();", "replace": "  rollback.release();\n  graph_start_failed.release();"}]},
    {"id": "e-started-before-hook", "expect": "C14.e", "edits": [{"file": NODE, "find": "            if (callbacks(context).start) { callbacks(context).start(view, evaluation_time); }\n            state.started = true;", "replace": "            state.started = true;\n            if (callbacks(context).start) { callbacks(context).start(view, evaluation_time); }"}]},
    {"id": "e-stop-no-deactivate-on-throw", "expect": "C14.e", "edits": [{"file": NODE, "find": "            auto deactivate = UnwindCleanupGuard([&] { deactivate_input_slots(view, evaluation_time); });\n            if (callbacks(context).stop) { callbacks(context).stop(view, evaluation_time); }\n            deactivate.complete();", "replace": "            if (callbacks(context).stop) { callbacks(context).stop(view, evaluation_time); }\n            deactivate_input_slots(view, evaluation_time);"}]},
    {"id": "f-reduce-stop-skips", "expect": "C14.f", "edits": [{"file": RT + "reduce_node.cpp", "find": "                    if (entry != nullptr && entry->graph.has_value()) { entry->graph.view().stop(); }\n                });\n            }\n            storage.evaluation_positions.clear();", "replace": "                    static_cast<void>(entry);\n                });\n            }\n            storage.evaluation_positions.clear();"}]},
    {"id": "f2-revert-fix-reduce-stop-not-best-effort", "expect": "C14.f2", "edits": [{"file": RT + "reduce_node.cpp", "find": "                failures.capture([&] {\n                    if (entry != nullptr && entry->graph.has_value()) { entry->graph.view().stop(); }\n                });", "replace": "                if (entry != nullptr && entry->graph.has_value()) { entry->graph.view().stop(); }"}]},
    {"id": "f2-revert-fix-map-stop-not-best-effort", "expect": "C14.f2", "edits": [{"file": RT + "map_node.cpp", "find": "                failures.capture([&] {\n                    remove_entry_at_slot(view, context, storage, nullptr, nullptr, slot, evaluation_time);\n                });", "replace": "                remove_entry_at_slot(view, context, storage, nullptr, nullptr, slot, evaluation_time);"}]},
    {"id": "f-map-stop-guarded", "expect": "C14.f", "edits": [{"file": RT + "map_node.cpp", "find": "            FirstExceptionRecorder failures;\n            for (std::size_t slot = 0; slot < storage.entries.slot_capacity(); ++slot)\n            {\n                failures.capture([&] {\n                    remove_entry_at_slot(view, context, storage, nullptr, nullptr, slot, evaluation_time);\n                });\n            }\n            storage.unsubscribe_keys_noexcept();", "replace": "            FirstExceptionRecorder failures;\n            for (std::size_t slot = 0; storage.primed && slot < storage.entries.slot_capacity(); ++slot)\n            {\n                failures.capture([&] {\n                    remove_entry_at_slot(view, context, storage, nullptr, nullptr, slot, evaluation_time);\n                });\n            }\n            storage.unsubscribe_keys_noexcept();"}]},
    {"id": "f-reset-no-stop", "expect": "C14.f", "edits": [{"file": GRAPH, "find": "    if (graph.valid() && graph.started()) {\n      static_cast<void>(fallback_on_exception(false, [&] {\n        graph.stop();\n        return true;\n      }));\n    }", "replace": "    static_cast<void>(graph);"}]},
    {"id": "g-guard-after-loop", "expect": "C14.g", "edits": [{"file": EXEC, "find": "            ImmediateCycleRecorder recorder;\n            bool                   recorded_cycle = false;\n", "replace": "            ImmediateCycleRecorder recorder;\n            bool                   recorded_cycle = false;\n            state.logger->flush();\n"},
                                                               {"file": EXEC, "find": "            auto stop_graph = UnwindCleanupGuard([&] {", "replace": "            state.logger->info(\"started\");\n            auto stop_graph = UnwindCleanupGuard([&] {"}]},
    {"id": "g-field-order", "expect": "C14.g", "edits": [{"file": EXEC, "find": "            LifecycleObserverList lifecycle_observers{}; // declared first so it is constructed before graph\n", "replace": "", "nth": 0},
                                                          {"file": EXEC, "find": "            GraphValue       graph{};\n", "replace": "            GraphValue       graph{};\n            LifecycleObserverList lifecycle_observers{};\n"}]},
    {"id": "h-identity-phase", "expect": "C14.h", "edits": [{"file": GRAPH, "find": 'rethrow_with_node_identity(node_view, index - 1, "stop");', "replace": "throw;"}]},
    {"id": "b-twin-while-loop-var-rename", "expect": None, "edits": [{"file": GRAPH, "find": "  for (std::size_t index = 0; index < runtime.layout.node_count; ++index) {\n    NodeView node_view = graph_node_view(runtime, graph.data(), index);\n    auto node_start_failed", "replace": "  for (std::size_t node_id = 0; node_id < runtime.layout.node_count; ++node_id) {\n    const std::size_t index = node_id;\n    NodeView node_view = graph_node_view(runtime, graph.data(), node_id);\n    auto node_start_failed"}]},
]
