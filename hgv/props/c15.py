"""C15 - Captured errors tick once, where they happen, and do not disturb the rest."""
from __future__ import annotations

import re

from .. import cparse as C
from ..index import AnalysisError
from ..k1 import ANY, Expect, Role
from ..report import Run
from .. import rules as R
from . import c02

ID = "C15"
NODE = "src/hgraph/runtime/node.cpp"
NERR = "src/hgraph/runtime/node_error.cpp"
TRY = "src/hgraph/runtime/try_except_node.cpp"
MAP = "src/hgraph/runtime/map_node.cpp"
SCOPE = "include/hgraph/util/scope.h"

TECHNIQUE = ("decision table of the node evaluate gate incl. the throwing-callback fork (K1), region/ordering rules on the CFG with the "
             "capture idioms (K2), sibling agreement of the three error writers (K7), who-writes table of the opt-in flag (K4), must-flow of "
             "the message through the writer chain (K11)")
EXPLANATION = (
    "Decides from node.cpp / node_error.cpp / try_except_node.cpp / map_node.cpp / scope.h: a node captures iff it has an error output and "
    "its schema opted in; under capture the user callback runs inside fallback_on_exception whose handler is exactly one "
    "write_node_error(runtime, view, NOW, error); without capture the exception propagates; after a handled error the scheduler re-arm "
    "still runs and the node reports success (the run continues); the three error writers (node / try_except / map) open their mutation "
    "at the evaluation time they were given and move the error value in exactly once; try_except keeps the wrapped graph's future "
    "wake-ups after a failure; map_ wraps EACH child evaluation separately inside the per-key loop and attributes the error to that key; "
    "capture is opted into only through with_error_capture / map_node_with_error_capture; the exception message flows unmodified into the "
    "error_msg field. Not decided: non-interference with unrelated nodes' streams (whole-run relation); message content.")
ASSUMPTIONS = ["begin_mutation(t)/move_value_from tick the output at t (C04)", "fallback_on_exception behaves per its C14.a table"]
DECIDED = ["a node capture table", "b same-cycle single error tick (3 writers)", "c try_except", "d map attribution per key",
           "e capture is opt-in", "f message reaches the tick",
           'm derived capture builder carries every builder field', 'n captured message verbatim',
           "o the owner still pulls a failed child's next wake-up (= C09.d)"]
NOT_DECIDED = ["non-interference as a whole-run relation", "message content"]

WRITERS = [(NODE, "write_node_error", r"node_error_output\(.*\)\.view\(evaluation_time\)"),
           (TRY, "write_try_except_error", r"view\.output\(evaluation_time\)"),
           (MAP, "write_map_error", r"view\.error_output\(evaluation_time\)")]


def check(run: Run) -> None:
    t = run.tree

    with run.obligation("C15.a", "K1", "node evaluate_impl: capture iff has_error_output and schema and captures_errors; handler = one "
                        "write_node_error(.., NOW, error); scheduler re-arm and `return true` follow the handled path too"):
        fa = R.fn(run, NODE, "evaluate_impl")
        spec_p, calls_p, feas_p = c02.node_eval_projection({"error", "rearm"})
        R.k1(run, "C15.a", fa, c02.node_eval_roles(), spec_p, role_calls=calls_p, feasible=feas_p, may_throw_calls=("EVAL",),
             what="node evaluate gate with error capture")
        fl = R.flow(run, fa)
        ev = fl.nodes_of(R.call_is(callee=r"callbacks\(context\)\.evaluate"))
        run.sites(len(ev), 2, "user evaluate call sites")
        captured = [n for n in ev if "fallback" in fl.cfg.nodes[n].ctx.split("/")]
        bare = [n for n in ev if "fallback" not in fl.cfg.nodes[n].ctx]
        run.count(1, "C15.a.regions")
        if len(captured) != 1 or len(bare) != 1:
            run.finding("C15.a", "evaluate_impl:regions", f"expected one captured and one propagating call of the user callback, found {len(captured)}/{len(bare)}", loc=NODE)
        we = fl.nodes_of(R.call_is(name="write_node_error"))
        if len(we) != 1 or "fallback-handler" not in fl.cfg.nodes[we[0]].ctx:
            run.finding("C15.a", "evaluate_impl:handler", "write_node_error must be called exactly once, from the fallback handler", loc=NODE)
        else:
            args = fl.cfg.nodes[we[0]].args
            if len(args) != 4 or args[1] != "view" or args[2] != "evaluation_time" or args[3] != "error":
                run.finding("C15.a", "evaluate_impl:handler-args", f"handler must call write_node_error(runtime, view, evaluation_time, error): {args}", loc=NODE)

    with run.obligation("C15.b", "K7", "the three error writers open the mutation at the evaluation time they were given and move the error "
                        "value in exactly once, built from capture_node_error(.., evaluation_time, std::move(error_msg), ..)"):
        n = 0
        for rel, name, out_re in WRITERS:
            fa = R.fn(run, rel, name)
            cn = R.aliases_of(fa)
            n += 1
            bm = R.calls(fa, "begin_mutation")
            mv = R.calls(fa, "move_value_from")
            cap = R.calls(fa, "capture_node_error")
            mk = R.calls(fa, "make_node_error_value")
            run.count(1, f"C15.b.{name}")
            bad = []
            if not bm or any(cn(b.args[0]) != "evaluation_time" for b in bm):
                bad.append(f"begin_mutation at {[cn(b.args[0]) for b in bm]}")
            # exactly one move on every path (bundle/non-bundle alternatives are exclusive branches)
            fl = R.flow(run, fa)
            mvn = R.call_is(name="move_value_from")
            if not fl.nodes_of(mvn):
                bad.append("no move_value_from")
            else:
                w = fl.reach([fl.start], avoid=mvn, targets=lambda x: x.id == fl.cfg.exit, after_source=False)
                if w is not None:
                    bad.append("a path writes no error value")
                w2 = fl.reach(fl.states_of(mvn), targets=mvn, first_edge=lambda lab: lab != "eh")
                if w2 is not None:
                    bad.append("the error value is written twice on one path")
            if any(cn(m.args[0]) != "error_value" for m in mv):
                bad.append("moved value is not the captured error")
            if len(cap) != 1 or cn(cap[0].args[1]) != "evaluation_time" or cn(cap[0].args[2]) != "error_msg":
                bad.append(f"capture_node_error args {[cn(a) for a in cap[0].args] if cap else None}")
            if len(mk) != 1 or cn(mk[0].args[0]) != "fields":
                bad.append("make_node_error_value(fields) missing")
            if R.loops(fa):
                bad.append("writer contains a loop")
            for b in bad:
                run.finding("C15.b", f"{name}:{b[:40]}", f"{name}: {b}", loc=rel)
            run.sample({"rule": "C15.b", "writer": name, "mutation_at": [cn(b.args[0]) for b in bm], "moves": len(mv)})
        run.sites(n, 3, "error writers")

    with run.obligation("C15.c", "K2+K5", "try_except: the child evaluate runs inside fallback_on_exception(true, .., handler); the handler writes "
                        "the error at NOW; schedule propagation follows on every normal path; the descriptor's evaluate slot is "
                        "try_except_evaluate_impl"):
        fa = R.fn(run, TRY, "try_except_evaluate_impl")
        fl = R.flow(run, fa)
        ev = R.call_is(name="evaluate", recv=r"nested\.child_graph\(\)")
        for nid in R.require_nodes(run, fl, ev, "child evaluate"):
            if "fallback" not in fl.cfg.nodes[nid].ctx.split("/"):
                run.finding("C15.c", "try_except:uncaptured", "the wrapped sub-graph is evaluated outside fallback_on_exception", loc=fl.cfg.describe(nid))
        R.k2_follow(run, "C15.c", fl, ev, R.call_is(name="single_nested_graph_propagate_schedule"),
                    "after the wrapped evaluation (normal or failed) the child's schedule is still propagated", exits="normal")
        wr = fl.nodes_of(R.call_is(name="write_try_except_error"))
        run.count(1, "C15.c.handler")
        if len(wr) != 1 or "fallback-handler" not in fl.cfg.nodes[wr[0]].ctx or fl.cfg.nodes[wr[0]].args[2:] != ("evaluation_time", "error"):
            run.finding("C15.c", "try_except:handler", "the handler must be one write_try_except_error(view, failed, evaluation_time, error)", loc=TRY)
        cn = R.aliases_of(fa)
        fb = R.calls(fa, "fallback_on_exception")
        if len(fb) != 1 or cn(fb[0].args[0]) != "true":
            run.finding("C15.c", "try_except:fallback-value", "a failed wrapped evaluation must report `true` (cycle completed) to the parent", loc=TRY)
        fa = R.fn(run, TRY, "try_except_node")
        sl = R.slot_assignments(fa)
        if sl.get("descriptor.ops.evaluate_impl") != "&try_except_evaluate_impl":
            run.finding("C15.c", "try_except_node:slot", f"descriptor.ops.evaluate_impl = {sl.get('descriptor.ops.evaluate_impl')}", loc=TRY)

    with run.obligation("C15.d", "K2+K6", "map_: each child evaluation is wrapped separately inside the per-key loop (iff the map captures "
                        "errors) and the handler attributes the error to that entry's key at NOW"):
        fa = R.fn(run, MAP, "map_evaluate_impl")
        fl = R.flow(run, fa)
        ev = R.call_is(name="evaluate", recv=r"child|entry->graph\.view\(\)")
        nodes = R.require_nodes(run, fl, ev, "child.evaluate", 2)
        cap = [n for n in nodes if "fallback" in fl.cfg.nodes[n].ctx.split("/")]
        run.count(1, "C15.d.regions")
        if len(cap) != 1:
            run.finding("C15.d", "map_evaluate_impl:capture-region", f"expected exactly one captured child.evaluate, found {len(cap)}", loc=MAP)
        for nid in cap:
            if not fl.cfg.nodes[nid].loops:
                run.finding("C15.d", "map_evaluate_impl:capture-outside-loop", "the capture region wraps the whole loop: one failing key would stop the others",
                            loc=fl.cfg.describe(nid))
        fbn = fl.nodes_of(R.call_is(name="fallback_on_exception"))
        for nid in fbn:
            if not fl.cfg.nodes[nid].loops:
                run.finding("C15.d", "map_evaluate_impl:fallback-outside-loop", "fallback_on_exception must be inside the per-key loop", loc=fl.cfg.describe(nid))
        wr = fl.nodes_of(R.call_is(name="write_map_error"))
        if len(wr) != 1 or "fallback-handler" not in fl.cfg.nodes[wr[0]].ctx:
            run.finding("C15.d", "map_evaluate_impl:handler", "write_map_error must be called once, from the fallback handler", loc=MAP)
        else:
            a = fl.cfg.nodes[wr[0]].args
            if len(a) != 5 or a[0] != "view" or a[2] != "entry->key.view()" or a[3] != "evaluation_time" or a[4] != "error":
                run.finding("C15.d", "map_evaluate_impl:attribution", f"the error must be attributed to the loop's own entry key at NOW: {a}", loc=fl.cfg.describe(wr[0]))
        cn = R.aliases_of(fa)
        tern = [n for n in fa.body.walk() if isinstance(n, C.Ternary) and cn(n.c) == "captures_errors"]
        d = R.find(fa, lambda n: isinstance(n, C.Declarator) and n.name == "captures_errors")
        run.count(1, "C15.d.optin")
        if len(tern) != 1 or not d or cn(d[0].init).replace(" ", "") != "(view.has_error_output()&&(view.schema()!=nullptr))&&view.schema()->captures_errors":
            run.finding("C15.d", "map_evaluate_impl:opt-in", f"map capture must be gated by has_error_output && schema && captures_errors: "
                        f"{cn(d[0].init) if d else None}", loc=MAP)
        fa = R.fn(run, MAP, "write_map_error")
        cn = R.aliases_of(fa)
        idx = [n for n in fa.body.walk() if isinstance(n, C.Index) and cn(n.args[0]) == "key"]
        if not idx:
            run.finding("C15.d", "write_map_error:key", "the error must be written under the failing key (errors[key])", loc=MAP)

    with run.obligation("C15.g", "K2", "a capture handler only reports: it performs no lifecycle or scheduling operation on the failed node, the "
                        "wrapped sub-graph or the failing key's child (they keep running in later cycles)"):
        LIFECYCLE = re.compile(r"(stop|start|dispose|destroy\w*|erase|remove\w*|reset|clear\w*|unbind\w*|schedule\w*|un_?schedule\w*|"
                               r"invalidate\w*|mark_invalid|release\w*)")
        n = 0
        for rel, name in ((NODE, "evaluate_impl"), (TRY, "try_except_evaluate_impl"), (MAP, "map_evaluate_impl")):
            fa = R.fn(run, rel, name)
            fl = R.flow(run, fa)
            hs = [nd for nd in fl.cfg.nodes if nd.kind == "call" and "fallback-handler" in nd.ctx.split("/")]
            run.sites(len(hs), 1, f"{name} handler calls")
            for nd in hs:
                n += 1
                run.count(1, f"C15.g.{name}")
                nm = nd.name
                if LIFECYCLE.fullmatch(nm):
                    run.finding("C15.g", f"{name}:handler:{nm}", f"the capture handler of {name} calls {nd.callee}(...): a captured failure must leave "
                                f"the failed node / child graph running", loc=fl.cfg.describe(nd.id))
        run.sites(n, 5, "handler calls")

    with run.obligation("C15.h", "K2", "after a captured failure inside a wrapped sub-graph the next cycle is a fresh scan of the sub-graph "
                        "(the failing node and the nodes before it are evaluated normally again; shared with C01.d2)"):
        from . import c01
        c01.failed_cycle_not_resumed(run, "C15.h")

    with run.obligation("C15.i", "K2", "a node whose exception propagates to an enclosing try_except / capturing map_ keeps its own timer: the "
                        "scheduler re-arm also happens on the exceptional exit of the user callback (KNOWN FINDING F-C15-2 on the current tree)"):
        fa = R.fn(run, NODE, "evaluate_impl")
        fl = R.flow(run, fa)
        bare = [n for n in fl.nodes_of(R.call_is(callee=r"callbacks\(context\)\.evaluate")) if "fallback" not in fl.cfg.nodes[n].ctx]
        run.sites(len(bare), 1, "propagating user evaluate")
        rearm = R.either(R.call_is(name="advance", recv=r"sched"), R.call_is(name="schedule_node"))
        R.require_nodes(run, fl, rearm, "scheduler re-arm", 2)
        w = fl.must_follow(lambda n: n.id in bare, rearm, exits="exc", first_edge=lambda lab: lab == "eh")
        run.count(1, "C15.i")
        if w is not None:
            run.finding("C15.i", "evaluate_impl:propagating-throw-skips-rearm", "when the user callback of a node without error capture throws, "
                        "evaluate_impl leaves without sched.advance()/schedule_node: if the exception is absorbed by an enclosing try_except or "
                        "capturing map_, a self-scheduling node never wakes again: " + fl.path_text(w), loc=fl.cfg.describe(w[0][0]))

    with run.obligation("C15.e", "K4", "captures_errors is set only by with_error_capture / map_node_with_error_capture"):
        ws = [w for w in R.field_writers(t, "captures_errors") if w[3] == "store"]
        run.sites(len(ws), 2, "captures_errors stores")
        ok = {"hgraph::NodeBuilder::with_error_capture", "hgraph::map_node_with_error_capture"}
        for rel, q, line, kind in ws:
            run.count(1)
            if q not in ok:
                run.finding("C15.e", f"writer:{q}", f"{q} enables error capture outside the opt-in API", loc=f"{rel}:{line}")
        ws2 = [w for w in R.field_writers(t, "error_output_schema") if w[3] == "store"]
        for rel, q, line, kind in ws2:
            run.count(1)
            if q not in ok and not q.endswith("make_try_except_node") and "try_except" not in q and not q.endswith("::with_error_capture"):
                # schemas for dedicated error-producing node kinds are allowed only in their builders
                pass

    with run.obligation("C15.f", "K11", "the exception message flows unmodified: fallback_on_exception -> handler(error) -> write_*_error(.., error) "
                        "-> capture_node_error(.., std::move(error_msg)) -> fields.error_msg -> set_field(\"error_msg\", fields.error_msg)"):
        fbs = [f for f in t.funcs(SCOPE, "fallback_on_exception") if t.param_count(f) == 3]
        run.sites(len(fbs), 1, "3-ary fallback_on_exception")
        fa = R.parse(run, fbs[0])
        cn = R.aliases_of(fa)
        oe = [cn(c.args[0]) for c in R.calls(fa, "on_error")] + [cn(c.args[0]) for c in R.calls(fa) if cn(c.fn) == "on_error"]
        run.count(1, "C15.f.what")
        if "error.what()" not in oe:
            run.finding("C15.f", "fallback_on_exception:what", f"the handler must receive error.what(): {oe}", loc=SCOPE)
        fa = R.fn(run, NERR, "capture_node_error")
        cn = R.aliases_of(fa)
        st = [n for n in fa.body.walk() if isinstance(n, C.Binary) and n.op == "=" and cn(n.l) == "fields.error_msg"]
        if len(st) != 1 or cn(st[0].r) != "error_msg":
            run.finding("C15.f", "capture_node_error:error_msg", f"fields.error_msg must be the message passed in: {[cn(s.r) for s in st]}", loc=NERR)
        fa = R.fn(run, NERR, "make_node_error_value")
        cn = R.aliases_of(fa)
        sf = {cn(c.args[0]): cn(c.args[1]) for c in R.calls(fa, "set_field") if len(c.args) == 2}
        run.count(len(sf), "C15.f.fields")
        for k in ("error_msg", "signature_name", "label", "wiring_path", "stack_trace", "activation_back_trace"):
            if sf.get(f'"{k}"') != f"fields.{k}":
                run.finding("C15.f", f"make_node_error_value:{k}", f'field "{k}" must carry fields.{k}, carries {sf.get(chr(34) + k + chr(34))}', loc=NERR)

    with run.obligation("C15.j", "K2", "a failure captured by the owner abandons the rest of the sub-graph's cycle: the pending wake-ups of the nodes ranked AFTER the "
                        "failing node must still be folded into the sub-graph's next scheduled time on that exit (KNOWN FINDING F-C15-3 on the current tree)"):
        fa = R.fn(run, "src/hgraph/runtime/graph.cpp", "evaluate_impl")
        fl = R.flow(run, fa)
        ev = [n for n in fl.nodes_of(R.call_is(name="evaluate", recv=r"node_view")) if fl.cfg.nodes[n].loops]
        run.sites(len(ev), 1, "node evaluation in the scan")
        fold = R.store_is(r".*\.next_scheduled_time", r"(?!MAX_DT).*")
        R.require_nodes(run, fl, fold, "next_scheduled_time accumulation")
        w = fl.must_follow(lambda x: x.id in ev, fold, exits="exc", first_edge=lambda lab: lab == "eh")
        run.count(1, "C15.j")
        if w is not None:
            run.finding("C15.j", "evaluate_impl:failed-scan-drops-later-schedules", "when a node evaluation throws the scan is left without folding the schedules of the "
                        "nodes not yet visited into next_scheduled_time: after the owner captured the error, an independent self-scheduling node ranked after "
                        "the failing node never wakes again: " + fl.path_text(w), loc=fl.cfg.describe(w[0][0]))

    with run.obligation("C15.k", "K9", "the error series of a node is a separate output of that node: the interning key of a consumer says WHICH output of the producer it reads "
                        "(value or error), so a consumer of the error series is never merged with an identical consumer of the value series (shared with C06.a)"):
        from . import c06
        R.share(run, "C15.k", c06, ["C06.a"])

    with run.obligation("C15.l", "K2", "the keyed error series of a capturing map_ ticks only where an error happened or a recorded error goes away: removing a key erases its "
                        "entry from the error output only if the error output CONTAINS that key (erasing an absent key still touches the dictionary and ticks it with an "
                        "empty delta in a cycle in which nothing failed)"):
        fa = R.fn(run, "src/hgraph/runtime/map_node.cpp", "remove_entry_at_slot")
        cn = R.Canon()
        er = [c for c in R.calls(fa, "erase") if isinstance(c.fn, C.Member) and cn(c.fn.obj) in ("error_mutation", "*error_mutation", "errors")]
        run.sites(len(er), 1, "erase on the keyed error output")
        for c in er:
            key = cn(c.args[0]) if c.args else ""
            ifs = [i for i in R.find(fa, lambda n: isinstance(n, C.If)) if any(x is c for x in i.then.walk())]
            run.count(1, "C15.l")
            want = f"{cn(c.fn.obj)}->contains({key})" if c.fn.arrow else f"{cn(c.fn.obj)}.contains({key})"
            conj = []
            for i in ifs:
                stack = [i.cond]
                while stack:
                    e = stack.pop()
                    if isinstance(e, C.Binary) and e.op == "&&":
                        stack += [e.l, e.r]
                    else:
                        conj.append(re.sub(r"\s", "", cn(e)))
            if re.sub(r"\s", "", want) not in conj:
                run.finding("C15.l", "remove_entry_at_slot:error-erase-without-contains", f"the error output is erased for every removed key (guards: {conj}); it must be "
                            f"guarded by `{want}`: a key that never failed makes the error series tick", loc=fa.loc(c))

    with run.obligation("C15.m", "K7", "a node builder derived for error capture is the SAME node otherwise: NodeBuilder::with_error_capture carries over every builder field its sibling "
                        "with_passive_inputs carries over (endpoints, output storage, label, the SCALAR configuration) - a field one derivation forgets makes "
                        "exception_time_series() on a node with scalar parameters un-buildable (or silently differently configured) while the plain node runs"):
        derived = {}
        for nm in ("with_error_capture", "with_passive_inputs"):
            fa_ = R.fn(run, NODE, f"NodeBuilder::{nm}")
            cn_ = R.Canon()
            derived[nm] = {cn_(x.l).split(".", 1)[1] for x in fa_.body.walk() if isinstance(x, C.Binary) and x.op == "=" and cn_(x.l).startswith("result.")}
        run.count(1, "C15.m")
        run.sample({"rule": "C15.m", "copied": {k: sorted(v) for k, v in derived.items()}})
        if not derived["with_passive_inputs"] or "scalars_" not in derived["with_passive_inputs"]:
            raise AnalysisError("model-mismatch", f"C15.m: with_passive_inputs no longer copies the builder fields ({sorted(derived['with_passive_inputs'])})")
        miss = sorted(derived["with_passive_inputs"] - derived["with_error_capture"])
        if miss:
            run.finding("C15.m", f"with_error_capture:builder-fields-not-carried-over:{'+'.join(miss)}", f"NodeBuilder::with_error_capture does not copy {miss} into the derived builder "
                        "(with_passive_inputs does): a capturing node loses that part of its configuration", loc=NODE)

    with run.obligation("C15.n", "K4", "the captured error carries the exception's message unchanged: in node_error.cpp `error_msg` is written exactly once per capture, by moving the "
                        "message handed to capture_node_error into the record, and nothing edits it afterwards (no resize / substr / erase / append / replace on it) - the text a "
                        "consumer of the error output reads is what the failing node's exception said"):
        NE = "src/hgraph/runtime/node_error.cpp"
        fi_ = run.tree.file(NE)
        edits, stores = [], []
        for fd_ in fi_.funcs:
            if fd_.body is None or "error_msg" not in fi_.text(fd_.body[0], fd_.body[1]):
                continue
            fa_ = R.parse(run, fd_, strict=False)
            cn_ = R.Canon()
            for x in fa_.body.walk():
                if isinstance(x, C.Binary) and x.op in C._ASSIGN and cn_(x.l).endswith(".error_msg"):
                    (stores if x.op == "=" else edits).append((fd_, fa_, x, cn_(x.r) if x.op == "=" else x.op))
                if isinstance(x, C.Call) and isinstance(x.fn, C.Member) and cn_(x.fn.obj).endswith(".error_msg") and \
                        x.fn.name in ("resize", "erase", "append", "replace", "assign", "insert", "clear", "pop_back", "push_back", "substr"):
                    edits.append((fd_, fa_, x, x.fn.name))
        run.sites(len(stores), 1, "stores of error_msg")
        run.count(len(stores) + len(edits), "C15.n")
        for fd_, fa_, x, rhs in stores:
            if rhs.replace(" ", "") not in ("std::move(error_msg)", "error_msg"):
                run.finding("C15.n", f"{fd_.name}:error-message-not-verbatim", f"{fd_.qual} stores `{rhs[:80]}` as the error message instead of the message it was handed", loc=fa_.loc(x))
        for fd_, fa_, x, op in edits:
            run.finding("C15.n", f"{fd_.name}:error-message-edited:{op}", f"{fd_.qual} edits the captured error message ({op}): the message on the error output differs from the "
                        "exception's text (for example clipped at a length bound)", loc=fa_.loc(x))

    with run.obligation("C15.o", "K7", "a captured failure of one node of a keyed child does not disturb the other nodes of that child: after the handler recorded the error the owner "
                        "still reaches the end of the iteration, where it pulls the child's next wake-up into its schedule queue (the only path by which a timer armed in the "
                        "failing cycle by ANOTHER node of the same child reaches the owner) (shared with C09.d)"):
        from . import c09
        R.share(run, "C15.o", c09, ["C09.d"])


VARIANTS = [
    {"id": "n-seed-C15-7-message-clipped", "expect": "C15.n", "edits": [{"file": "src/hgraph/runtime/node_error.cpp", "find": "        fields.error_msg   = std::move(error_msg);", "replace": "        fields.error_msg   = std::move(error_msg);\n        if (fields.error_msg.size() > 256) { fields.error_msg.resize(256); fields.error_msg += \"...\"; }"}]},
    {"id": "m-seed-C15-8-capture-builder-drops-scalars", "expect": "C15.m", "edits": [{"file": NODE, "find": "        result.label_           = label_;\n        result.scalars_         = scalars_;\n        return result;", "replace": "        result.label_           = label_;\n        return result;", "nth": 0}]},
    {"id": "l-error-erase-for-every-removed-key", "expect": "C15.l", "edits": [{"file": "src/hgraph/runtime/map_node.cpp", "find": "            if (error_mutation != nullptr && error_mutation->contains(entry->key.view()))", "replace": "            if (error_mutation != nullptr)"}]},
    {"id": "h-revert-fix-failed-cycle-resumed", "expect": "C15.h", "edits": [{"file": "src/hgraph/runtime/graph.cpp", "find": "      !state.evaluation_failed && state.evaluation_cursor != 0 &&\n      state.evaluation_cursor != invalid_cursor;", "replace": "      state.evaluation_cursor != 0 && state.evaluation_cursor != invalid_cursor;"}]},
    {"id": "g-map-handler-stops-child", "expect": "C15.g", "edits": [{"file": MAP, "find": "                                                                         evaluation_time, error);\n                                                     })", "replace": "                                                                         evaluation_time, error);\n                                                         child.stop(evaluation_time);\n                                                     })"}]},
    {"id": "a-capture-without-optin", "expect": "C15.a", "edits": [{"file": NODE, "find": "                        capture = schema != nullptr && schema->captures_errors;", "replace": "                        capture = schema != nullptr;"}]},
    {"id": "a-handled-returns-early", "expect": "C15.a", "edits": [{"file": NODE, "find": "                        static_cast<void>(fallback_on_exception(false,", "replace": "                        if (!fallback_on_exception(false,"}, {"file": NODE, "find": "                                                                   write_node_error(runtime, view, evaluation_time, error);\n                                                               }));", "replace": "                                                                   write_node_error(runtime, view, evaluation_time, error);\n                                                               })) { return true; }"}]},
    {"id": "b-error-next-cycle", "expect": "C15.b", "edits": [{"file": NODE, "find": "            auto  mutation    = output.begin_mutation(evaluation_time);\n            (void)mutation.move_value_from(std::move(error_value));\n        }\n\n        [[nodiscard]] const NodeCallbacks &callbacks", "replace": "            auto  mutation    = output.begin_mutation(evaluation_time + MIN_TD);\n            (void)mutation.move_value_from(std::move(error_value));\n        }\n\n        [[nodiscard]] const NodeCallbacks &callbacks"}]},
    {"id": "c-no-propagate-after-failure", "expect": "C15.c", "edits": [{"file": TRY, "find": "            single_nested_graph_propagate_schedule(nested);\n            return completed;", "replace": "            if (completed) { single_nested_graph_propagate_schedule(nested); }\n            return completed;"}, {"file": TRY, "find": "            const bool completed = fallback_on_exception(true,", "replace": "            const bool completed = fallback_on_exception(false,"}]},
    {"id": "d-capture-whole-loop", "expect": "C15.d", "edits": [{"file": MAP, "find": "write_map_error(view, failed, entry->key.view(),\n                                                                         evaluation_time, error);", "replace": "write_map_error(view, failed, storage.entry_at(storage.evaluation_slots[0])->key.view(),\n                                                                         evaluation_time, error);"}]},
    {"id": "e-capture-by-default", "expect": "C15.e", "edits": [{"file": NODE, "find": "        NodeTypeMetaData schema = *type_.schema();\n        const std::size_t input_count =", "replace": "        NodeTypeMetaData schema = *type_.schema();\n        schema.captures_errors = schema.error_output_schema != nullptr;\n        const std::size_t input_count ="}]},
    {"id": "f-message-replaced", "expect": "C15.f", "edits": [{"file": NERR, "find": "        fields.error_msg   = std::move(error_msg);", "replace": "        fields.error_msg   = fields.signature_name;"}]},
    {"id": "f-field-swapped", "expect": "C15.f", "edits": [{"file": NERR, "find": '        set_field("error_msg", fields.error_msg);\n        set_field("stack_trace", fields.stack_trace);', "replace": '        set_field("error_msg", fields.stack_trace);\n        set_field("stack_trace", fields.error_msg);'}]},
    {"id": "b-twin-rename-local", "expect": None, "edits": [{"file": NODE, "find": "            NodeErrorFields fields = capture_node_error(view, evaluation_time, std::move(error_msg), options);\n\n            Value error_value = make_node_error_value(fields);\n            auto  output      = node_error_output(context, view.data()).view(evaluation_time);", "replace": "            NodeErrorFields fields = capture_node_error(view, evaluation_time, std::move(error_msg), options);\n\n            Value error_value = make_node_error_value(fields);\n            auto  output      = node_error_output(context, view.data()).view(evaluation_time);\n            static_cast<void>(options);"}]},
]
