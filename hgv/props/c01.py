"""C01 - Nodes evaluate at most once per cycle and only after their producers."""
from __future__ import annotations

import re

from .. import cparse as C
from ..index import AnalysisError
from ..k1 import ANY, Expect, Role
from ..report import Run
from .. import rules as R

ID = "C01"
WIRING = "src/hgraph/types/graph_wiring.cpp"
GRAPH = "src/hgraph/runtime/graph.cpp"
NODE = "src/hgraph/runtime/node.cpp"

TECHNIQUE = ("structural check of the Kahn ranking template (pairing / control-dependence / loop-shape rules K2/K3), sibling "
             "agreement of the source-kind visitors (K7), who-writes table of rank-free edges (K4), decision tables (K1)")
EXPLANATION = (
    "Decides the three facts the property rests on. (i) Every compiled dependency edge runs from a lower to a higher node index: "
    "build_ranked_graph is a Kahn sort in which each producer found increments the consumer's in-degree and registers the consumer "
    "in the same block, the only skipped inputs are declared rank-free ones, nodes become ready only at in-degree zero, each dequeued "
    "node is ranked exactly once, an incomplete ranking always throws (cycle rejected), and node index == rank == edge target index; "
    "collect_producers ranks every source kind for which emit_edges creates an edge; rank-free inputs exist only at the confirmed "
    "sites and same-cycle pairs are validated on both finish paths. (ii) A cycle scans indices once, ascending, and runs a node iff "
    "its slot equals the cycle time (shared with C02.c), the only early exit is the pause path, the cursor is reset only after the "
    "scan. (iii) Graph nodes are evaluated only from that scan. Not decided: that user wiring code declares every read as an input.")
ASSUMPTIONS = [
    "std containers behave per the standard; the `all`/`consumers[x]`/`ranked` sequences preserve insertion order",
    "a node reads other nodes' outputs only through declared inputs",
]
DECIDED = ["a Kahn template", "b rank covers every edge kind", "c declared rank-free edges only", "d forward scan",
           "e the graph scan is the only evaluator", "f push-source prefix",
           'j rank-free declaration is part of the interning identity (= C06.a)',
           'h also: availability tail of mesh add_dependency (never while paused)', 'k mesh subscribe: add_dependency gate before every bind / publish',
           'l finalizers before rank dependencies before ranking on both finish paths']
NOT_DECIDED = ["side-channel reads by user nodes", "nested-kind internals (C09-C12)"]

# confirmed rank-free input sites: (file, enclosing function) -> count, with the reason
RANK_FREE = {
    ("src/hgraph/types/impl/request_reply_transport.cpp", 4): "request/reply capture-source pairs (same-cycle pair or delayed reply)",
    ("src/hgraph/types/service_runtime.cpp", 3): "service relay captures",
    ("include/hgraph/types/graph_wiring.h", 1): "shared_output_relay_source: capture's 2nd input, add_same_cycle_pair follows",
    ("include/hgraph/types/adaptor_wiring.h", 1): "adaptor input stub source",
    ("include/hgraph/types/service_wiring.h", 3): "service wiring relay captures",
    ("include/hgraph/lib/std/operators/impl/higher_order_impl.h", 1): "higher_order_input_refs: passive transports omit the producer edge (conditional)",
    ("src/hgraph/types/graph_wiring.cpp", 1): "make_key copies the flag into the interning key",
}


def _blocks_with(node, pred):
    return [b for b in node.walk() if isinstance(b, C.Block) and any(pred(s) for s in b.stmts)]


def failed_cycle_not_resumed(run: Run, rule: str) -> None:
    """A cycle that left evaluate_impl by exception must be ABANDONED: the next evaluate starts a fresh scan.

    The cursor stays on the failing node (failed_node reads it), so `resuming` must be false after a failure:
    (1) every exceptional exit of a node evaluation records evaluation_failed = true (or resets the cursor),
    (2) `resuming` requires !evaluation_failed, (3) the flag is cleared only after `resuming` was computed."""
    fa = R.fn(run, GRAPH, "evaluate_impl")
    cn = R.aliases_of(fa)
    st = cn.aliases.get("state", "state")
    CUR, FAILED = st + ".evaluation_cursor", st + ".evaluation_failed"
    fl = R.flow(run, fa)
    d = R.find(fa, lambda n: isinstance(n, C.Declarator) and n.name == "resuming")
    if len(d) != 1 or d[0].init is None:
        raise AnalysisError("anchor-vanished", "evaluate_impl: `resuming` declaration")

    def conjuncts(e):
        while isinstance(e, C.Paren if hasattr(C, "Paren") else ()):
            e = e.e
        if isinstance(e, C.Binary) and e.op == "&&":
            return conjuncts(e.l) + conjuncts(e.r)
        return [cn(e).replace(" ", "")]
    cj = conjuncts(d[0].init)
    run.count(1, rule + ".resuming")
    reset_on_throw = fl.nodes_of(R.store_is(re.escape(CUR), r"0|invalid_cursor", region=r".*(annotate|guard|catch).*"))
    if "!" + FAILED not in cj and not reset_on_throw:
        run.finding(rule, "evaluate_impl:failed-cycle-resumed", "a cycle that failed leaves the cursor on the failing node, and the next evaluate "
                    f"resumes from it (resuming = {' && '.join(cj)}): after a captured failure in a nested graph the next cycle skips every node "
                    "ranked before the failing one", loc=fa.loc(d[0]))
    ev = R.call_is(name="evaluate", recv=r"node_view")
    failed_true = R.either(R.store_is(re.escape(FAILED), r"true"), R.store_is(re.escape(CUR), r"0|invalid_cursor"))
    R.k2_follow(run, rule, fl, ev, failed_true, "a node evaluation that throws records the cycle as failed before the exception leaves",
                exits="exc", after="thrown", a_floor=2)
    decl = lambda n: n.kind == "decl" and n.decl == "resuming"
    clear = R.store_is(re.escape(FAILED), r"false")
    R.k2_precede(run, rule, fl, decl, clear, "the failed flag of the previous cycle is read (resuming) before it is cleared")


def check(run: Run) -> None:
    t = run.tree

    # ---- a. Kahn template ------------------------------------------------------------------------------
    with run.obligation("C01.a", "K2/K3", "build_ranked_graph is a Kahn topological sort: indegree/consumers paired, skip only rank-free "
                        "inputs, ready iff indegree 0, ranked once per dequeue, incomplete ranking throws, index == rank"):
        fa = R.fn(run, WIRING, "build_ranked_graph")
        cn = R.aliases_of(fa)
        # split the function at the cycle-detection `if (ranked.size() != all.size())`: the diagnostics block re-walks producers
        cyc = [s for s in fa.body.stmts if isinstance(s, C.If) and cn(s.cond).replace(" ", "") in
               ("ranked.size()!=all.size()", "all.size()!=ranked.size()")]
        run.sites(len(cyc), 1, "cycle test")
        pos = fa.body.stmts.index(cyc[0])
        head = C.Block(fa.body.stmts[:pos])
        tail = C.Block(fa.body.stmts[pos + 1:])
        # a1 pairing
        incs = [n for n in head.walk() if isinstance(n, (C.Unary, C.Postfix)) and n.op == "++" and cn(n.e).startswith("indegree[")]
        regs = [n for n in head.walk() if isinstance(n, C.Call) and R.callee_name(n) == "push_back" and cn(n.fn).startswith("consumers[")]
        run.sites(len(incs), 2, "++indegree sites")
        run.count(len(incs) + len(regs), "C01.a1")
        if len(incs) != len(regs):
            run.finding("C01.a", "build_ranked_graph:pairing-count", f"{len(incs)} in-degree increments vs {len(regs)} consumer registrations",
                        loc=fa.loc(cyc[0]))
        for inc in incs:
            who = cn(inc.e)[len("indegree["):-1]
            blk = [b for b in head.walk() if isinstance(b, C.Block) and any(R._contains(s, inc) and isinstance(s, C.ExprStmt) for s in b.stmts)]
            partner = None
            if blk:
                for s in blk[0].stmts:
                    for r in regs:
                        if isinstance(s, C.ExprStmt) and R._contains(s, r) and cn(r.args[0]) == who:
                            partner = r
            if partner is None:
                run.finding("C01.a", f"build_ranked_graph:unpaired:{who}", f"++indegree[{who}] has no consumers[...].push_back({who}) in the same block",
                            loc=fa.loc(inc))
                continue
            # the registered producer is the loop variable of the enclosing range-for
            prod = cn(partner.fn)[len("consumers["):].split("]")[0]
            loops_ = [l for l in head.walk() if isinstance(l, C.RangeFor) and R._contains(l.body, inc)]
            if not loops_ or prod not in loops_[-1].names:
                run.finding("C01.a", f"build_ranked_graph:producer:{prod}", f"consumer registered under {prod}, which is not the producer loop variable",
                            loc=fa.loc(partner))
        # a2 skip conditions
        skips = [s for s in head.walk() if isinstance(s, C.If) and any(isinstance(x, C.Continue) for x in s.then.walk())]
        allowed = {"!input.rank_dependency", "(producer==nullptr)||!owned.contains(producer)", "(nullptr==producer)||!owned.contains(producer)"}
        run.count(len(skips), "C01.a2")
        for s in skips:
            c = cn(s.cond)
            if c not in allowed:
                run.finding("C01.a", f"build_ranked_graph:skip:{c}", f"dependency collection skips on an undeclared condition: {c}", loc=fa.loc(s))
        if not any(cn(s.cond) == "!input.rank_dependency" for s in skips):
            raise AnalysisError("anchor-vanished", "rank_dependency skip not found in build_ranked_graph")
        # every instance starts at in-degree 0: try_emplace(instance, 0) loop over all
        te = [c for c in R.calls(head, "try_emplace") if cn(c.fn) == "indegree.try_emplace"]
        if not te or cn(te[0].args[1]) != "0":
            run.finding("C01.a", "build_ranked_graph:indegree-init", "in-degree map must be initialised to 0 for every instance", loc=WIRING)
        # a3 / a4 ready queues
        pushes = [c for c in R.calls(head, "push_back") if re.search(r"ready", cn(c.fn))]
        run.sites(len(pushes), 2, "ready-queue pushes")
        for p in pushes:
            ifs = [s for s in head.walk() if isinstance(s, C.If) and R._contains(s.then, p)]
            conds = [cn(s.cond) for s in ifs]
            run.count(1, "C01.a3")
            if not any(re.fullmatch(r"(--)?indegree\[\w+\]==0|0==(--)?indegree\[\w+\]", c) for c in conds):
                run.finding("C01.a", "build_ranked_graph:ready-guard", f"a node is made ready without an in-degree==0 guard (guards: {conds})",
                            loc=fa.loc(p))
            else:
                g = [c for c in conds if "indegree[" in c][-1]
                who = re.search(r"indegree\[(\w+)\]", g).group(1)
                if cn(p.args[0]) != who:
                    run.finding("C01.a", "build_ranked_graph:ready-node", f"guard tests {who} but {cn(p.args[0])} is made ready", loc=fa.loc(p))
        wl = [l for l in head.walk() if isinstance(l, C.While)]
        run.sites(len(wl), 1, "drain loop")
        drain = wl[0]
        if cn(drain.cond).replace(" ", "") not in ("!ready_push_sources.empty()||!ready.empty()", "!ready.empty()||!ready_push_sources.empty()"):
            run.finding("C01.a", "build_ranked_graph:drain-cond", f"drain loop must run while any ready queue is non-empty: {cn(drain.cond)}", loc=fa.loc(drain))
        rp = [c for c in R.calls(drain.body, "push_back") if cn(c.fn) == "ranked.push_back"]
        inner_loops = R.loops(drain.body)
        run.count(1, "C01.a4")
        if len(rp) != 1 or any(R._contains(l, rp[0]) for l in inner_loops):
            run.finding("C01.a", "build_ranked_graph:ranked-once", "each dequeued node must be appended to `ranked` exactly once", loc=fa.loc(drain))
        pops = [c for c in R.calls(drain.body, "pop_front")]
        fronts = [c for c in R.calls(drain.body, "front")]
        if len(pops) != 1 or len(fronts) != 1 or cn(pops[0].fn.obj) != cn(fronts[0].fn.obj):
            run.finding("C01.a", "build_ranked_graph:dequeue", "the ranked node must be the one popped from the front of the chosen queue", loc=fa.loc(drain))
        decs = [n for n in drain.body.walk() if isinstance(n, C.Unary) and n.op == "--" and cn(n.e).startswith("indegree[")]
        if len(decs) != 1:
            run.finding("C01.a", "build_ranked_graph:decrement", f"exactly one in-degree decrement per consumer edge expected, found {len(decs)}", loc=fa.loc(drain))
        cl = [l for l in drain.body.walk() if isinstance(l, C.RangeFor)]
        if not cl or cn(cl[0].range) != "consumers[instance]" or (decs and cn(decs[0].e) != f"indegree[{cl[0].names[0]}]"):
            run.finding("C01.a", "build_ranked_graph:consumer-loop", "drain must decrement the in-degree of every consumer of the ranked node", loc=fa.loc(drain))
        # a5: incomplete ranking always throws
        fl = R.flow(run, fa)
        cyc_conds = fl.nodes_of(lambda n: n.kind == "cond" and n.label.replace(" ", "") in ("ranked.size()!=all.size()", "all.size()!=ranked.size()"))
        run.sites(len(cyc_conds), 1, "cycle test node")
        w = fl.reach([s for s in fl.succ if s[0] in cyc_conds], targets=lambda n: n.id == fl.cfg.exit, first_edge=lambda lab: lab == "T")
        run.count(1, "C01.a5")
        if w is not None:
            run.finding("C01.a", "build_ranked_graph:cycle-not-rejected", "an incomplete ranking (dependency cycle) can return a builder: " + fl.path_text(w),
                        loc=fl.cfg.describe(w[0][0]))
        # a6: index == rank == edge target
        emp = [c for c in R.calls(tail, "emplace") if cn(c.fn) == "build.index_of.emplace"]
        run.count(1, "C01.a6")
        if len(emp) != 1 or [cn(a) for a in emp[0].args] != ["ranked[i]", "i"]:
            run.finding("C01.a", "build_ranked_graph:index-of", f"index_of must map ranked[i] -> i: {[[cn(a) for a in e.args] for e in emp]}", loc=WIRING)
        an = [c for c in R.calls(tail, "add_node")]
        lp = [l for l in tail.walk() if isinstance(l, C.RangeFor) and an and R._contains(l.body, an[0])]
        if len(an) != 1 or not lp or cn(lp[0].range) != "ranked" or cn(an[0].args[0]) != f"{lp[0].names[0]}->builder":
            run.finding("C01.a", "build_ranked_graph:add-node-order", "nodes must be added to the builder in ranked order", loc=WIRING)
        ee = [c for c in R.calls(tail, "emit_edges")]
        run.sites(len(ee), 1, "emit_edges call")
        args = [cn(a) for a in ee[0].args]
        fl_ = [l for l in tail.walk() if isinstance(l, C.For) and R._contains(l.body, ee[0])]
        sh = R.loop_shape(fl_[0], cn) if fl_ else {}
        inst = R.find(fl_[0].body, lambda n: isinstance(n, C.Declarator) and n.name == "instance") if fl_ else []
        ok = (len(args) >= 6 and args[0] == "input.source" and args[2] == "build.index_of" and args[5] == sh.get("var") and inst
              and cn(inst[0].init) == f"ranked[{sh.get('var')}]" and sh.get("init") == "0" and sh.get("cond_r") == "ranked.size()")
        if not ok:
            run.finding("C01.a", "build_ranked_graph:edge-target", f"edges of ranked[i] must be emitted with target index i: args={args} loop={sh}", loc=fa.loc(ee[0]))

    # ---- b. rank covers every edge kind -------------------------------------------------------------------
    with run.obligation("C01.b", "K7", "collect_producers ranks (or recurses into) every source kind for which emit_edges creates an "
                        "edge (or recurses)"):
        def kinds(fa, self_name, edge_pred):
            cn = R.aliases_of(fa)
            out = {}
            for s in fa.body.stmts:
                if isinstance(s, C.If):
                    m = re.findall(r"source\.(is_\w+)\(\)", cn(s.cond))
                    feats = {"recurse": bool(R.calls(s.then, self_name)), "edge": any(edge_pred(c, cn) for c in R.calls(s.then)),
                             "throw": any(isinstance(x, C.Throw) for x in s.then.walk()),
                             "return": any(isinstance(x, C.Return) for x in s.then.walk())}
                    for k in m:
                        out[k] = feats
                elif isinstance(s, (C.For, C.RangeFor)):
                    out["structural"] = {"recurse": bool(R.calls(s.body, self_name)), "edge": False, "throw": False, "return": False,
                                         "range": "structural_children" in (cn(s.range) if isinstance(s, C.RangeFor) else cn(s.cond))}
                elif isinstance(s, C.Decl):
                    for d in s.decls:
                        if d.init is not None and "structural_children" in cn(d.init):
                            out.setdefault("_children_decl", {})
            return out
        fa_c = R.fn(run, WIRING, "collect_producers")
        fa_e = R.fn(run, WIRING, "emit_edges")
        kc = kinds(fa_c, "collect_producers", lambda c, cn: cn(c.fn) == "producers.push_back")
        ke = kinds(fa_e, "emit_edges", lambda c, cn: R.callee_name(c) == "add_edge")
        run.sites(len(ke), 5, "emit_edges source kinds")
        run.sites(len(kc), 5, "collect_producers source kinds")
        for k, f in ke.items():
            if k.startswith("_"):
                continue
            run.count(1, "C01.b")
            c = kc.get(k)
            if f["edge"] and not (c and c["edge"]):
                run.finding("C01.b", f"kind:{k}:edge", f"emit_edges creates a graph edge for {k} but collect_producers does not record the producer",
                            loc=WIRING)
            if f["recurse"] and not (c and c["recurse"]):
                run.finding("C01.b", f"kind:{k}:recurse", f"emit_edges recurses into {k} sources but collect_producers does not", loc=WIRING)
            if f["throw"] and not f["edge"] and not f["recurse"] and k == "is_unbound_source" and not (c and c["throw"]):
                run.finding("C01.b", f"kind:{k}:throw", "unbound sources must be rejected by both visitors", loc=WIRING)
        run.sample({"rule": "C01.b", "emit_edges": {k: [x for x, y in v.items() if y] for k, v in ke.items()},
                    "collect_producers": {k: [x for x, y in v.items() if y] for k, v in kc.items()}})
        # producer recorded iff owned; edge emitted iff in index_of
        cn = R.aliases_of(fa_c)
        pb = [c for c in R.calls(fa_c, "push_back") if cn(c.fn) == "producers.push_back"]
        ok = len(pb) == 1 and cn(pb[0].args[0]) == "source.peered_node()" and any(
            isinstance(s, C.If) and cn(s.cond) == "owned.contains(source.peered_node())" and R._contains(s.then, pb[0]) for s in fa_c.body.walk())
        if not ok:
            run.finding("C01.b", "collect_producers:peered", "a peered source must record source.peered_node() iff it is owned by this graph", loc=WIRING)

    # ---- c. rank-free edges --------------------------------------------------------------------------------
    with run.obligation("C01.c", "K4+K1+K2", "rank_dependency is cleared only at the confirmed sites; validate_same_cycle_pairs throws iff a "
                        "pair is missing or capture index >= source index, and runs on both finish paths before the builder is returned"):
        found = {}
        for rel in t.all_files():
            txt = t.read(rel)
            if "rank_dependency" not in txt:
                continue
            fi = t.file(rel)
            toks = fi.toks
            for i, tk in enumerate(toks):
                if tk.kind == "id" and tk.text == "rank_dependency" and i > 0 and toks[i - 1].text == "." and toks[i + 1].text == "=" \
                        and toks[i - 2].text in ("{", ","):
                    found[rel] = found.get(rel, 0) + 1
                    run.count(1)
                elif tk.kind == "id" and tk.text == "rank_dependency" and toks[i + 1].text == "=" and toks[i - 1].text in (".", "->") \
                        and toks[i - 2].text not in ("{", ","):
                    fd = R.enclosing_function(t, rel, i)
                    run.finding("C01.c", f"assign:{rel}:{fd.qual if fd else ''}", "rank_dependency assigned outside a WiringInputRef initialiser",
                                loc=f"{rel}:{tk.line}")
        want = {k[0]: k[1] for k in RANK_FREE}
        run.sites(sum(found.values()), 8, "rank_dependency initialiser sites")   # vacuity guard only: fewer sites than today is not an error in itself
        for rel, n in found.items():
            if rel not in want:
                run.finding("C01.c", f"site:{rel}", f"{n} undeclared rank-free input site(s) in {rel}: a consumer there may be ranked before its producer",
                            loc=rel)
            elif n > want[rel]:
                run.finding("C01.c", f"site-count:{rel}", f"{rel} has {n} rank_dependency initialisers, {want[rel]} confirmed", loc=rel)
        fa = R.fn(run, WIRING, "Wiring::validate_same_cycle_pairs")
        loops_ = [l for l in R.loops(fa, into_lambdas=False) if isinstance(l, C.RangeFor)]
        run.sites(len(loops_), 1, "pair loop")
        roles = [Role("CMISSING", "bool", r"index_of\.end\(\)==index_of\.find\(pair\.capture\)"),
                 Role("SMISSING", "bool", r"index_of\.end\(\)==index_of\.find\(pair\.source\)"),
                 Role("CI", "i", r"index_of\.find\(pair\.capture\)->second"), Role("SI", "i", r"index_of\.find\(pair\.source\)->second")]
        R.k1(run, "C01.c", fa, roles, lambda v: Expect(throws=True) if (v.b("CMISSING") or v.b("SMISSING") or v.ge("CI", "SI")) else Expect(),
             unit=loops_[0].body, what="validate_same_cycle_pairs")
        sh = R.loop_shape(loops_[0], R.aliases_of(fa))
        if sh.get("range") != "impl_->same_cycle_pairs" or sh["breaks"] or sh["continues"] or sh["returns"]:
            run.finding("C01.c", "validate_same_cycle_pairs:loop", f"every registered pair must be validated: {sh}", loc=WIRING)
        callers = [f for f in t.file(WIRING).funcs if "build_ranked_graph" in t.file(WIRING).text(f.body[0], f.body[1]) and f.name != "build_ranked_graph"]
        run.sites(len(callers), 2, "finish paths")
        for fd in callers:
            fa2 = R.parse(run, fd)
            fl = R.flow(run, fa2)
            b = R.call_is(name="build_ranked_graph")
            v = R.call_is(name="validate_same_cycle_pairs", arg=(0, r"build\.index_of"))
            R.k2_follow(run, "C01.c", fl, b, v, f"{fd.qual}: build_ranked_graph is followed by validate_same_cycle_pairs", exits="normal", after="completed")
        fa = R.fn(run, WIRING, "Wiring::add_same_cycle_pair")
        cn = R.aliases_of(fa)
        rd = [c for c in R.calls(fa, "add_rank_dependency")]
        if len(rd) != 1 or [cn(a) for a in rd[0].args] != ["source", "capture"]:
            run.finding("C01.c", "add_same_cycle_pair:dependency", "a same-cycle pair must rank the source after the capture", loc=WIRING)
        fa = R.fn(run, WIRING, "Wiring::add_rank_dependency")
        roles = [Role("NNULL", "bool", r"node==nullptr"), Role("DNULL", "bool", r"depends_on==nullptr"), Role("SAME", "bool", r"depends_on==node"),
                 Role("ABSENT", "bool", r".*rank_dependencies\.end\(\)==std::find\(.*\)|std::find\(.*\)==.*rank_dependencies\.end\(\)")]

        def spec_rd(v):
            if v.b("NNULL") or v.b("DNULL") or v.b("SAME"):
                return Expect(throws=True)
            return Expect(calls=[("PUSH", ("depends_on",))]) if v.b("ABSENT") else Expect(calls=[])
        R.k1(run, "C01.c", fa, roles, spec_rd, role_calls={"PUSH": r".*rank_dependencies\.push_back"}, what="add_rank_dependency")

    # ---- d. forward scan --------------------------------------------------------------------------------------
    with run.obligation("C01.d", "K3", "graph evaluate_impl scans node indices once, ascending; the only early exit is the pause path; the "
                        "cursor is reset only after the scan; the evaluated node is the one whose slot was tested"):
        fa = R.fn(run, GRAPH, "evaluate_impl")
        cn = R.aliases_of(fa)
        CUR = cn.aliases.get("state", "state") + ".evaluation_cursor"
        fl_ = [l for l in R.loops(fa, into_lambdas=False) if isinstance(l, C.For)]
        main = [l for l in fl_ if l.cond is not None and "evaluation_cursor" in cn(l.cond)]
        push = [l for l in fl_ if l.cond is not None and "first_normal_node" in cn(l.cond)]
        run.sites(len(main), 1, "main loop")
        run.sites(len(push), 1, "push loop")
        sh = R.loop_shape(main[0], cn)
        ok = (main[0].init is None and sh.get("cond_op") == "<" and sh.get("cond_l") == CUR and sh.get("cond_r", "").endswith("layout.node_count")
              and sh.get("step") == "++" and sh.get("step_var") == CUR and sh.get("body_writes_var") == 0 and not sh["breaks"] and not sh["continues"])
        run.count(1, "C01.d.main")
        if not ok:
            run.finding("C01.d", "evaluate_impl:main-loop-shape", f"main scan is not a single ascending pass over the cursor: {sh}", loc=fa.loc(main[0]))
        rets = R.find(main[0].body, lambda n: isinstance(n, C.Return), into_lambdas=False)
        for r in rets:
            ifs = [s for s in main[0].body.walk() if isinstance(s, C.If) and R._contains(s.then, r)]
            if cn(r.e) != "false" or not any(cn(s.cond) == "!completed" for s in ifs):
                run.finding("C01.d", "evaluate_impl:early-exit", f"the scan may only be left early by `return false` under !completed: return {cn(r.e)}",
                            loc=fa.loc(r))
        sh2 = R.loop_shape(push[0], cn)
        ok = (sh2.get("init") == "0" and sh2.get("cond_op") == "<" and sh2.get("cond_r") == "first_normal_node" and sh2.get("step") == "++"
              and sh2.get("body_writes_var") == 0 and not sh2["breaks"] and not sh2["continues"] and not sh2["returns"])
        run.count(1, "C01.d.push")
        if not ok:
            run.finding("C01.d", "evaluate_impl:push-loop-shape", f"push-source scan is not a single ascending pass over [0, first_normal_node): {sh2}",
                        loc=fa.loc(push[0]))
        # evaluated node == tested slot
        for loop, idx in ((main[0], CUR), (push[0], sh2.get("var"))):
            gs = [cn(c.args[-1]) for c in R.calls(loop.body, "graph_schedule")]
            gv = [cn(c.args[-1]) for c in R.calls(loop.body, "graph_node_view")]
            run.count(1, "C01.d.index")
            if not gs or not gv or set(gs) != {idx} or set(gv) != {idx}:
                run.finding("C01.d", "evaluate_impl:index-agreement", f"slot tested at {gs} but node evaluated at {gv} (loop index {idx})", loc=fa.loc(loop))
        # cursor stores: fresh := first_normal_node (outside loops), := index in push loop (bookkeeping), := 0 after main loop
        stores = R.find(fa, lambda n: isinstance(n, C.Binary) and n.op == "=" and cn(n.l) == CUR)
        run.count(len(stores), "C01.d.cursor")
        fl = R.flow(run, fa)
        zero = R.store_is(re.escape(CUR), r"0")
        R.require_nodes(run, fl, zero, "cursor := 0")
        for nid in fl.nodes_of(zero):
            if fl.cfg.nodes[nid].loops:
                run.finding("C01.d", "evaluate_impl:cursor-reset-in-loop", "the cursor is reset inside the scan", loc=fl.cfg.describe(nid))
        ev = R.call_is(name="evaluate", recv=r"node_view")
        w = fl.reach(fl.states_of(zero), targets=ev)
        if w is not None:
            run.finding("C01.d", "evaluate_impl:eval-after-reset", "a node evaluation is reachable after the cursor reset (second pass): " + fl.path_text(w),
                        loc=fl.cfg.describe(w[-1][0]))
        # the cursor is (re)positioned at the first normal node only on a FRESH cycle: a resumed (paused) cycle continues from the held cursor
        fresh = R.store_is(re.escape(CUR), r"first_normal_node")
        R.require_nodes(run, fl, fresh, "cursor := first_normal_node")
        w = fl.reach([fl.start], targets=fresh, after_source=False,
                     edge_skip=lambda node, lab: node.kind == "cond" and node.label == "resuming" and lab == "F")
        run.count(1, "C01.d.fresh-only")
        if w is not None:
            run.finding("C01.d", "evaluate_impl:cursor-rewound-on-resume", "a resumed cycle rewinds the cursor to the first node: nodes before the paused "
                        "node would be evaluated twice in one cycle: " + fl.path_text(w), loc=fl.cfg.describe(w[-1][0]))
        for s in stores:
            v = cn(s.r)
            in_main = R._contains(main[0], s) and not isinstance(s, type(None))
            if in_main and not any(isinstance(x, C.Lambda) and R._contains(x, s) for x in main[0].walk()):
                run.finding("C01.d", "evaluate_impl:cursor-write-in-scan", f"the main scan writes its own cursor: {CUR} = {v}", loc=fa.loc(s))

    with run.obligation("C01.d2", "K2", "a failed cycle is abandoned: the next evaluate never resumes from the failing node's cursor"):
        failed_cycle_not_resumed(run, "C01.d2")

    # ---- e. the graph scan is the only evaluator ----------------------------------------------------------------
    with run.obligation("C01.e", "K4", "a graph's own nodes are evaluated only from evaluate_impl; NodeView::evaluate is the only caller of "
                        "the node ops evaluate slot"):
        fi = t.file(GRAPH)
        callers = set()
        n = 0
        for fd in fi.funcs:
            body = fi.text(fd.body[0], fd.body[1])
            if ". evaluate (" not in body:
                continue
            fa = R.parse(run, fd, strict=False)
            cn = R.aliases_of(fa)
            for c in R.calls(fa, "evaluate"):
                if isinstance(c.fn, C.Member) and re.fullmatch(r"node_view|graph_node_view\(.*\)|node", cn(c.fn.obj)):
                    callers.add(fd.name)
                    n += 1
        run.sites(n, 3, "node evaluate call sites")
        run.count(1, "C01.e")
        if callers != {"evaluate_impl"}:
            run.finding("C01.e", f"callers:{sorted(callers)}", f"graph nodes are evaluated from {sorted(callers)}; only evaluate_impl may", loc=GRAPH)
        sites = R.callers_of(t, "evaluate_impl", member_only=True)
        slot_callers = {(f, q) for f, q, _ in sites if "ops" in t.read(f)}
        okc = {q for f, q in slot_callers}
        run.sample({"rule": "C01.e", "evaluate_impl slot callers": sorted(okc)})
        # GraphView::evaluate dispatches the *graph* ops table's slot of the same name
        if not okc or any(not (q.endswith("NodeView::evaluate") or q.endswith("GraphView::evaluate")) for q in okc):
            run.finding("C01.e", f"slot-callers:{sorted(okc)}", f"node ops evaluate_impl slot invoked from {sorted(okc)}; only NodeView::evaluate may", loc=NODE)

    # ---- f. push-source prefix -----------------------------------------------------------------------------------
    with run.obligation("C01.f", "K1", "compute_push_source_nodes_end throws iff a push source follows a non-push node; ranking drains ready "
                        "push sources first and rejects push sources with dependencies"):
        fa = R.fn(run, GRAPH, "compute_push_source_nodes_end")
        lp = [l for l in R.loops(fa) if isinstance(l, C.RangeFor)]
        run.sites(len(lp), 1, "node loop")
        roles = [Role("ISPUSH", "bool", r"NodeKind::PushSource==node\.type\(\)\.schema\(\)->node_kind"),
                 Role("SEEN", "bool", r"seen_non_push_source", lvalue=True), Role("PREFIX", "n", r"prefix", lvalue=True, required=False)]

        def spec(v):
            if v.b("ISPUSH"):
                if v.b("SEEN"):
                    return Expect(throws=True)
                return Expect(stores={"PREFIX": "PREFIX++"})
            return Expect(stores={"SEEN": True})
        R.k1(run, "C01.f", fa, roles, spec, unit=lp[0].body, role_locals=("seen_non_push_source", "prefix"), what="compute_push_source_nodes_end")
        sh = R.loop_shape(lp[0], R.aliases_of(fa))
        if sh.get("range") != "builder.nodes()" or sh["breaks"] or sh["continues"] or sh["returns"]:
            run.finding("C01.f", "compute_push_source_nodes_end:loop", f"must inspect every node of the builder in order: {sh}", loc=GRAPH)
        fa = R.fn(run, WIRING, "build_ranked_graph")
        cn = R.aliases_of(fa)
        nx = R.find(fa, lambda n: isinstance(n, C.Declarator) and n.name == "next" and isinstance(n.init, C.Ternary))
        run.sites(len(nx), 1, "queue selection")
        txt = cn(nx[0].init)
        run.count(1, "C01.f.queue")
        if txt not in ("!ready_push_sources.empty()?ready_push_sources:ready", "ready_push_sources.empty()?ready:ready_push_sources"):
            run.finding("C01.f", "build_ranked_graph:push-first", f"ready push sources must be ranked before other ready nodes: {txt}", loc=fa.loc(nx[0]))
        thr = [s for s in fa.body.walk() if isinstance(s, C.If) and cn(s.cond).replace(" ", "") in
               ("is_push_source(instance)&&(indegree[instance]!=0)", "is_push_source(instance)&&(0!=indegree[instance])")
               and any(isinstance(x, C.Throw) for x in s.then.walk())]
        if not thr:
            run.finding("C01.f", "build_ranked_graph:push-deps", "push sources with rank dependencies must be rejected", loc=WIRING)

    with run.obligation("C01.g", "K3+K4", "owners that evaluate several dependent child graphs in one cycle keep producers first: reduce_ evaluates its "
                        "combiner graphs deepest-first (a combiner reads the combiners below it) in one ordered pass (shared with C11.b)"):
        from . import c11
        sub = Run("C01", run.tier, run.tree, quiet=True)
        sub.is_sub = True
        if not getattr(run, "is_sub", False):
            c11.check(sub)
        run.evaluations += sub.evaluations
        run.count(1, "C01.g")
        for f in sub.findings:
            if f.rule == "C11.b":
                run.finding("C01.g", f.key, f.message, f.loc)
        for e in sub.errors:
            if e.startswith("C11.b:"):
                raise AnalysisError("model-mismatch", e)

    with run.obligation("C01.h", "K1", "mesh_: an instance that reads another instance through mesh_ref must OUTRANK it (instances of one pass run in rank order): "
                        "add_dependency re-ranks whenever the requester's rank is not strictly greater than its dependency's (equal ranks included: two keys of the "
                        "key set start with the same rank), creates a missing dependency and re-ranks, and never reports the dependency available in those cases"):
        fa = R.fn(run, "src/hgraph/runtime/mesh_node.cpp", "MeshNodeView::add_dependency")
        roles = [Role("SAME", "bool", r"key\.equals\(depends_on\)"), Role("KNULL", "bool", r"(key_entry|.*find\(key\))==nullptr"),
                 Role("DNULL", "bool", r"(dep_entry|.*find\(depends_on\))==nullptr"), Role("KR", "t", r"(key_entry|.*find\(key\))->rank"),
                 Role("DR", "t", r"(dep_entry|.*find\(depends_on\))->rank"),
                 Role("SETTLED", "t", r"(dep_entry|.*find\(depends_on\))->settled_time", required=False), Role("T", "t", r"view_\.graph\(\)\.evaluation_time\(\)", required=False),
                 Role("PAUSED", "bool", r"(dep_entry|.*find\(depends_on\))->paused", required=False),
                 Role("HASG", "bool", r"(dep_entry|.*find\(depends_on\))->graph\.has_value\(\)", required=False),
                 Role("NEXT", "t", r"(dep_entry|.*find\(depends_on\))->graph\.view\(\)\.next_scheduled_time\(\)", required=False)]

        def spec_dep(v):
            if v.b("SAME"):
                return Expect(throws=True)
            if v.b("KNULL"):
                return Expect(calls=[], ret=False)
            if v.b("DNULL"):
                return Expect(calls=[("CREATE", ("anyargs",)), ("RERANK", ("anyargs",))], ret=False)
            if v.le("KR", "DR"):
                return Expect(calls=[("RERANK", ("anyargs",))], ret=False)
            # availability of a dependency ranked below the requester: settled this cycle, or idle - never while it is PAUSED (a paused child's
            # next_scheduled_time was reset mid-scan, so `idle` would be read from a stale value) or has no graph
            if v.eq("SETTLED", "T"):
                return Expect(calls=[], ret=True)
            if v.b("PAUSED") or not v.b("HASG"):
                return Expect(calls=[], ret=False)
            return Expect(calls=[], ret=v.gt("NEXT", "T"))
        R.k1(run, "C01.h", fa, roles, spec_dep, role_calls={"CREATE": r"create_instance", "RERANK": r"re_rank"}, what="mesh add_dependency")

    with run.obligation("C01.i", "K4+K1", "an input without a rank dependency lets its consumer be ranked before its producer, so it may be created only where the design "
                        "says so: the sites that build a rank-free WiringInputRef are exactly the confirmed ones (capture transports whose second input closes a "
                        "service loop), and the computed site (higher-order operators) is rank-free ONLY for a Passive argument - evaluated over every ArgTag value"):
        RANK_FREE_SITES = {   # enclosing function -> reason (each builds `WiringInputRef{.source = sources[1], .rank_dependency = false}` for a capture / feedback transport)
            "hgraph::adaptor::detail::capture_input": "adaptor capture: second input is the stub the capture feeds",
            "hgraph::boundary_detail::shared_output_relay_capture": "shared-output relay capture",
            "hgraph::keyed_service_transport::publish_request": "request transport capture",
            "hgraph::keyed_service_transport::publish_response": "response transport capture",
            "hgraph::keyed_service_transport::publish_subscription_request": "subscription transport capture",
            "hgraph::keyed_service_transport::response_feedback": "response feedback transport",
            "hgraph::request_reply_service_call": "request/reply service call capture",
            "hgraph::service_adaptor_client_from_graph": "service adaptor client capture",
            "hgraph::shared_output_capture_node": "shared-output capture",
            "hgraph::service::detail::capture_request_input": "service request capture",
            "hgraph::service_adaptor::detail::capture_output": "service adaptor output capture",
            "hgraph::service_adaptor::detail::capture_request_input": "service adaptor request capture",
        }
        tags = run.tree.enum("include/hgraph/types/graph_wiring.h", "ArgTag").enumerators
        if "Passive" not in tags or len(tags) < 4:
            raise AnalysisError("anchor-vanished", f"C01.i: ArgTag enumerators {tags}")
        cn0 = R.Canon()
        n_sites = 0
        computed = 0
        for rel in run.tree.all_files():
            if not rel.startswith(("include/hgraph/", "src/hgraph/")) or "rank_dependency" not in run.tree.read(rel):
                continue
            fi_ = run.tree.file(rel)
            for fd_ in fi_.funcs:
                if fd_.body is None or "rank_dependency" not in fi_.text(fd_.body[0], fd_.body[1]):
                    continue
                fa_ = R.parse(run, fd_, strict=False)
                for n_ in fa_.body.walk():
                    if not (isinstance(n_, C.Desig) and n_.name == "rank_dependency"):
                        continue
                    txt = cn0(n_.value)
                    if txt == "true" or re.fullmatch(r"\w+\.rank_dependency", txt):
                        continue   # ranked, or a copy of an existing flag
                    n_sites += 1
                    run.count(1, "C01.i")
                    if txt == "false":
                        if fd_.qual not in RANK_FREE_SITES:
                            run.finding("C01.i", f"{fd_.qual}:rank-free-input:unclassified", f"{fd_.qual} builds an input without a rank dependency and is not one of the "
                                        "confirmed capture / feedback transports: its consumer can be ranked before its producer", loc=fa_.loc(n_))
                        continue
                    # computed flag: evaluate over every ArgTag value and every valuation of the other atoms
                    computed += 1
                    atoms: List[str] = []

                    def ev(e, tag, val):
                        if isinstance(e, C.Binary) and e.op in ("||", "&&"):
                            l, r = ev(e.l, tag, val), ev(e.r, tag, val)
                            return (l or r) if e.op == "||" else (l and r)
                        if isinstance(e, C.Unary) and e.op == "!":
                            return not ev(e.e, tag, val)
                        if isinstance(e, C.Binary) and e.op in ("==", "!="):
                            for a_, b_ in ((e.l, e.r), (e.r, e.l)):
                                if cn0(a_).endswith("arg_tag") and isinstance(b_, C.Id) and "ArgTag::" in b_.name:
                                    same = b_.name.split("::")[-1] == tag
                                    return same if e.op == "==" else not same
                        k = cn0(e)
                        if k not in atoms:
                            atoms.append(k)
                        return val.get(k, False)
                    ev(n_.value, tags[0], {})   # collect atoms
                    if len(atoms) > 6:
                        raise AnalysisError("model-mismatch", f"C01.i: {len(atoms)} free atoms in the rank_dependency expression of {fd_.qual}")
                    bad = None
                    for tag in tags:
                        for bits in range(1 << len(atoms)):
                            val = {a: bool(bits >> i & 1) for i, a in enumerate(atoms)}
                            run.evaluations += 1
                            if tag != "Passive" and not ev(n_.value, tag, val):
                                bad = (tag, val)
                    if bad is not None:
                        run.finding("C01.i", f"{fd_.qual}:rank-free-for-{bad[0]}", f"{fd_.qual}: an argument tagged {bad[0]} (not Passive) gets no rank dependency "
                                    f"({cn0(n_.value)[:160]}): the owner can be ranked before the producer of that argument", loc=fa_.loc(n_))
        run.sites(n_sites, 13, "rank-free / computed rank_dependency initialisers")
        if computed < 1:
            raise AnalysisError("anchor-vanished", "C01.i: the computed rank_dependency of higher_order_input_refs was not found")


    with run.obligation("C01.j", "K9", "the rank-free declaration of an input is part of the node's interning identity: an ordinary usage of a node definition is never merged "
                        "into an instance whose same input was declared rank-free (the merged consumer would get no rank edge from its producer and be placed before it) "
                        "(shared with C06.a: make_key fills every InputKey field from the input it describes)"):
        from . import c06
        R.share(run, "C01.j", c06, ["C06.a"])

    with run.obligation("C01.k", "K2", "mesh_ subscribe: reading another instance's output is ALWAYS preceded by the availability gate in the same evaluation - every path that "
                        "binds / publishes self[item] passes through add_dependency (the gate that makes a reader wait for a producer that is due but has not run yet), "
                        "also when the dependency is unchanged since the last cycle, and its `false` answer pauses the reader"):
        MESH = "src/hgraph/runtime/mesh_node.cpp"
        fa = R.fn(run, MESH, "mesh_subscribe_evaluate_impl")
        fl = R.flow(run, fa)
        gate = R.call_is(name="add_dependency")
        reads = R.either(R.call_is(name="publish_subscribe_source"), R.call_is(name="bind_input_to_source"))
        R.k2_precede(run, "C01.k", fl, gate, reads, "mesh subscribe: add_dependency gate before the dependency's output is bound / published")
        cn = R.aliases_of(fa)
        gates = [s0 for s0 in fa.body.walk() if isinstance(s0, C.If) and "add_dependency(" in cn(s0.cond) and cn(s0.cond).replace(" ", "").startswith("!")]
        run.count(1, "C01.k.pause")
        if not gates or not all([cn(r.e) for r in R.find(g.then, lambda x: isinstance(x, C.Return))] == ["false"] for g in gates):
            run.finding("C01.k", "mesh_subscribe_evaluate_impl:gate-does-not-pause", "a dependency that is not available must pause the reader (`if (!add_dependency(..)) return false;`)",
                        loc=fa.loc(fa.body))

    with run.obligation("C01.l", "K2", "rank dependencies declared by pre-rank finalizers (the keyed request / reply and subscription transports declare ALL their service-rank contracts "
                        "that way) take part in the ranking: on both finish paths (top level and sub-graph) the extensions are finalised first, then the service rank "
                        "dependencies are applied, then the graph is ranked - applied before the finalizers ran, the contracts they declare are silently dropped"):
        for nm in ("Wiring::finish_top_level", "Wiring::finish_subgraph"):
            fa_ = R.fn(run, WIRING, nm)
            fl_ = R.flow(run, fa_)
            fin = R.call_is(name="finalize_extensions")
            app = R.call_is(name="apply_service_rank_dependencies")
            rank = R.call_is(name="build_ranked_graph")
            R.k2_precede(run, "C01.l", fl_, fin, app, f"{nm}: finalize_extensions before apply_service_rank_dependencies")
            R.k2_precede(run, "C01.l", fl_, app, rank, f"{nm}: apply_service_rank_dependencies before build_ranked_graph")
            # ... and a LAST apply follows the last finalisation: no path from finalize_extensions reaches the ranking without an apply in between
            w = fl_.reach(fl_.states_of(fin), targets=rank, avoid=app)
            run.count(1, "C01.l")
            if w is not None:
                run.finding("C01.l", f"{nm.split('::')[-1]}:rank-dependencies-applied-before-finalizers", f"{nm}: build_ranked_graph is reachable from finalize_extensions without an "
                            f"apply_service_rank_dependencies in between: rank contracts declared by the finalizers never reach the ranking: {fl_.path_text(w)}",
                            loc=fl_.cfg.describe(w[-1][0]))


VARIANTS = [
    {"id": "l-seed-C01-9-subgraph-applies-rank-dependencies-before-finalizers", "expect": "C01.l", "edits": [{"file": WIRING, "find": "  finalize_extensions();", "replace": "  apply_service_rank_dependencies();\n  finalize_extensions();", "nth": 1}, {"file": WIRING, "find": "  apply_service_rank_dependencies();\n", "replace": "", "nth": 2}]},
    {"id": "k-seed-C01-8-gate-only-when-dependency-changed", "expect": "C01.k", "edits": [{"file": "src/hgraph/runtime/mesh_node.cpp", "find": "    storage.has_dependency = true;\n  }\n\n  // Register the dependency (creating / ranking the target on demand). If the\n  // target is not yet available this cycle, PAUSE: the mesh resolves it in rank\n  // order and re-evaluates this instance to resume from here.\n  if (!mesh->add_dependency(my_key, item.view())) {\n    return false;\n  }", "replace": "    storage.has_dependency = true;\n    if (!mesh->add_dependency(my_key, item.view())) {\n      return false;\n    }\n  }"}]},
    {"id": "h-seed-C01-7-paused-dependency-reads-as-idle", "expect": "C01.h", "edits": [{"file": "src/hgraph/runtime/mesh_node.cpp", "find": "  if (dep_entry->paused || !dep_entry->graph.has_value()) {\n    return false;\n  }\n  return dep_entry->graph.view().next_scheduled_time() > t;", "replace": "  if (!dep_entry->graph.has_value()) {\n    return false;\n  }\n  return dep_entry->graph.view().next_scheduled_time() > t;"}]},
    {"id": "j-seed-C01-5-rank-free-flag-not-in-key", "expect": "C01.j", "edits": [{"file": WIRING, "find": "        .rank_dependency = input.rank_dependency,\n        .passive = input.source.arg_tag", "replace": "        .passive = input.source.arg_tag"}]},
    {"id": "i-pass-through-args-rank-free", "expect": "C01.i", "edits": [{"file": "include/hgraph/lib/std/operators/impl/higher_order_impl.h", "find": "                        inputs[index].arg_tag != WiringPortRef::ArgTag::Passive ||", "replace": "                        inputs[index].arg_tag == WiringPortRef::ArgTag::None ||"}]},
    {"id": "i-new-rank-free-site", "expect": "C01.i", "edits": [{"file": "include/hgraph/lib/std/operators/impl/higher_order_impl.h", "find": "                refs.push_back(WiringInputRef{\n                    .source = inputs[index],", "replace": "                if (index == 1) { refs.push_back(WiringInputRef{.source = inputs[index], .rank_dependency = false}); continue; }\n                refs.push_back(WiringInputRef{\n                    .source = inputs[index],"}]},
    {"id": "i-twin-enumerated-tags", "expect": None, "edits": [{"file": "include/hgraph/lib/std/operators/impl/higher_order_impl.h", "find": "                        inputs[index].arg_tag != WiringPortRef::ArgTag::Passive ||", "replace": "                        inputs[index].arg_tag == WiringPortRef::ArgTag::None || inputs[index].arg_tag == WiringPortRef::ArgTag::PassThrough ||\n                        inputs[index].arg_tag == WiringPortRef::ArgTag::NoKey ||"}]},
    {"id": "h-mesh-equal-rank-not-reranked", "expect": "C01.h", "edits": [{"file": "src/hgraph/runtime/mesh_node.cpp", "find": "  if (key_entry->rank <= dep_entry->rank) {", "replace": "  if (key_entry->rank < dep_entry->rank) {"}]},
    {"id": "h-twin-rank-test-flipped", "expect": None, "edits": [{"file": "src/hgraph/runtime/mesh_node.cpp", "find": "  if (key_entry->rank <= dep_entry->rank) {", "replace": "  if (!(key_entry->rank > dep_entry->rank)) {"}]},
    {"id": "g-reduce-words-drained-forward", "expect": "C01.g", "edits": [{"file": "src/hgraph/runtime/reduce_node.cpp", "find": "for (std::size_t word_index = candidates.word_count(); word_index-- > 0;)", "replace": "for (std::size_t word_index = 0; word_index < candidates.word_count(); ++word_index)"}]},
    {"id": "d2-revert-fix-failed-cycle-resumed", "expect": "C01.d2", "edits": [{"file": GRAPH, "find": "      !state.evaluation_failed && state.evaluation_cursor != 0 &&\n      state.evaluation_cursor != invalid_cursor;", "replace": "      state.evaluation_cursor != 0 && state.evaluation_cursor != invalid_cursor;"}]},
    {"id": "d2-flag-cleared-before-read", "expect": "C01.d2", "edits": [{"file": GRAPH, "find": "  const bool resuming =\n      !state.evaluation_failed && state.evaluation_cursor != 0 &&\n      state.evaluation_cursor != invalid_cursor;\n\n  state.evaluation_time = evaluation_time;\n  state.evaluation_failed = false;", "replace": "  state.evaluation_failed = false;\n  const bool resuming =\n      !state.evaluation_failed && state.evaluation_cursor != 0 &&\n      state.evaluation_cursor != invalid_cursor;\n\n  state.evaluation_time = evaluation_time;"}]},
    {"id": "d2-nested-failure-not-flagged", "expect": "C01.d2", "edits": [{"file": GRAPH, "find": "            [&] { state.evaluation_failed = true; });", "replace": "            [&] { static_cast<void>(state); });"}]},
    {"id": "a-unpaired-consumer", "expect": "C01.a", "edits": [{"file": WIRING, "find": "      for (const WiringInstance *producer : producers) {\n        ++indegree[instance];\n        consumers[producer].push_back(instance);\n      }\n    }\n    for (const WiringInstance *producer : instance->rank_dependencies) {", "replace": "      for (const WiringInstance *producer : producers) {\n        ++indegree[instance];\n      }\n    }\n    for (const WiringInstance *producer : instance->rank_dependencies) {"}]},
    {"id": "a-ready-at-one", "expect": "C01.a", "edits": [{"file": WIRING, "find": "if (--indegree[consumer] == 0) {", "replace": "if (--indegree[consumer] <= 1) {"}]},
    {"id": "a-skip-sinks", "expect": "C01.a", "edits": [{"file": WIRING, "find": "      if (!input.rank_dependency) {\n        continue;\n      }\n      std::vector<const WiringInstance *> producers;\n      collect_producers(input.source, producers, owned);\n      for (const WiringInstance *producer : producers) {\n        ++indegree[instance];", "replace": "      if (!input.rank_dependency || instance->inputs.size() > 8) {\n        continue;\n      }\n      std::vector<const WiringInstance *> producers;\n      collect_producers(input.source, producers, owned);\n      for (const WiringInstance *producer : producers) {\n        ++indegree[instance];"}]},
    {"id": "a-cycle-tolerated", "expect": "C01.a", "edits": [{"file": WIRING, "find": "    throw std::runtime_error(message);\n  }\n\n  RankedGraphBuild build;", "replace": "    if (ranked.empty()) { throw std::runtime_error(message); }\n  }\n\n  RankedGraphBuild build;"}]},
    {"id": "a-edge-target-shift", "expect": "C01.a", "edits": [{"file": WIRING, "find": "                 build.graph_builder, i, boundary_bindings, captures);", "replace": "                 build.graph_builder, ranked.size() - 1 - i, boundary_bindings, captures);"}]},
    {"id": "b-structural-not-ranked", "expect": "C01.b", "edits": [{"file": WIRING, "find": "  for (const WiringPortRef &child : source.structural_children()) {\n    collect_producers(child, producers, owned);\n  }", "replace": "  static_cast<void>(producers);"}]},
    {"id": "b-delayed-not-ranked", "expect": "C01.b", "edits": [{"file": WIRING, "find": "  if (source.is_delayed_source()) {\n    collect_producers(resolve_delayed_source(source), producers, owned);\n    return;\n  }", "replace": "  if (source.is_delayed_source()) {\n    return;\n  }"}]},
    {"id": "c-new-rank-free-site", "expect": "C01.c", "edits": [{"file": "src/hgraph/runtime/feedback_node.cpp", "find": "namespace hgraph", "replace": "namespace hgraph_verif_probe { inline hgraph::WiringInputRef probe(hgraph::WiringPortRef s) { return hgraph::WiringInputRef{.source = s, .rank_dependency = false}; } }\nnamespace hgraph"}]},
    {"id": "c-pair-ge-to-gt", "expect": "C01.c", "edits": [{"file": WIRING, "find": "if (capture->second >= source->second) {", "replace": "if (capture->second > source->second) {"}]},
    {"id": "c-validate-dropped", "expect": "C01.c", "edits": [{"file": WIRING, "find": "      &escaped_outputs);\n  validate_same_cycle_pairs(build.index_of);", "replace": "      &escaped_outputs);"}]},
    {"id": "d-descending-scan", "expect": "C01.d", "edits": [{"file": GRAPH, "find": "  for (; state.evaluation_cursor < runtime.layout.node_count;\n       ++state.evaluation_cursor) {", "replace": "  for (; state.evaluation_cursor < runtime.layout.node_count;\n       state.evaluation_cursor += 2) {"}]},
    {"id": "d-reeval-after-reset", "expect": "C01", "edits": [{"file": GRAPH, "find": "  state.evaluation_cursor = 0; // completed: reset the cursor\n", "replace": "  state.evaluation_cursor = 0; // completed: reset the cursor\n  if (runtime.layout.node_count > 0 && graph_schedule(runtime, graph.data(), 0) == evaluation_time) {\n    NodeView node_view = graph_node_view(runtime, graph.data(), 0);\n    node_view.evaluate(evaluation_time);\n  }\n"}]},
    {"id": "d-rewind-on-resume", "expect": "C01.d", "edits": [{"file": GRAPH, "find": "    state.evaluation_cursor = first_normal_node;\n  }\n\n  for (; state.evaluation_cursor", "replace": "  }\n  state.evaluation_cursor = first_normal_node;\n\n  for (; state.evaluation_cursor"}]},
    {"id": "d-wrong-node", "expect": "C01.d", "edits": [{"file": GRAPH, "find": "      NodeView node_view =\n          graph_node_view(runtime, graph.data(), state.evaluation_cursor);", "replace": "      NodeView node_view =\n          graph_node_view(runtime, graph.data(), state.evaluation_cursor + 1 < runtime.layout.node_count ? state.evaluation_cursor + 1 : state.evaluation_cursor);"}]},
    {"id": "f-push-any-order", "expect": "C01.f", "edits": [{"file": GRAPH, "find": "      if (seen_non_push_source) {\n        throw std::invalid_argument(\n            \"Push source nodes must occupy the graph node prefix\");\n      }\n", "replace": ""}]},
    {"id": "f-push-last", "expect": "C01.f", "edits": [{"file": WIRING, "find": "auto &next = !ready_push_sources.empty() ? ready_push_sources : ready;", "replace": "auto &next = !ready.empty() ? ready : ready_push_sources;"}]},
    {"id": "a-twin-postincrement", "expect": None, "edits": [{"file": WIRING, "find": "        ++indegree[instance];\n        consumers[producer].push_back(instance);\n      }\n    }\n    for (const WiringInstance *producer : instance->rank_dependencies) {", "replace": "        consumers[producer].push_back(instance);\n        indegree[instance]++;\n      }\n    }\n    for (const WiringInstance *producer : instance->rank_dependencies) {"}]},
]
