"""C18 - Node scheduler wakes the node at every pending time and its queries agree."""
from __future__ import annotations

from .. import cparse as C
from ..index import AnalysisError
from ..k1 import ANY, Expect, Role
from ..report import Run
from .. import rules as R
from . import c02

ID = "C18"
SCHED = "include/hgraph/runtime/node_scheduler.h"
NODE = "src/hgraph/runtime/node.cpp"
STATIC = "include/hgraph/types/static_node.h"

TECHNIQUE = ("static decision tables (K1) over every method of NodeScheduler, writer census of the event/tag containers (K4), "
             "paired-mutation invariant (K13), construction-site argument check (K6/K7)")
EXPLANATION = (
    "Decides from node_scheduler.h / node.cpp / static_node.h: (a) the event set and the tag index are only mutated inside "
    "NodeScheduler methods and every mutation keeps 'tags = tagged events' (erase/insert pairs on the same paths); (b) the "
    "admission table of schedule() (started: future only; not started: start cycle onward; wall-clock alarms re-timed, never "
    "dropped); (c) the graph is told the earliest pending time exactly when the new event becomes the first; (d) the query "
    "methods read the same state the mutators write; (e) the runtime advances/re-arms after every evaluation; (f) the injected "
    "scheduler is built from the node's own state/graph/index/now/started flag. Exhaustive over all orderings of the times "
    "involved. Not decided: interplay of several nodes; user code mutating scheduler state outside an evaluation.")
ASSUMPTIONS = [
    "std::set/std::map behave per the standard (begin() is the minimum; insert of an equal element is a no-op)",
    "times are multiples of MIN_TD, so x+MIN_TD is the immediate successor of x",
]
DECIDED = ["a invariant tags=tagged events", "b admission", "c graph sees earliest", "d queries", "e runtime re-arm", "f injection",
           'i started is set after the user start hook (= C14.e)']
NOT_DECIDED = ["multi-node interplay", "external mutation of NodeSchedulerState"]

EV = r"state_->events"
TG = r"state_->tags"


def _method(run: Run, name: str, first_param: str = None, nparams: int = None):
    fs = run.tree.funcs(SCHED, name, "NodeScheduler")
    out = []
    for f in fs:
        ps = C.split_params(run.tree.file(SCHED), f.params[0], f.params[1])
        if first_param is not None and not (ps and first_param in ps[0][0]):
            continue
        if nparams is not None and len(ps) != nparams:
            continue
        out.append(f)
    if len(out) != 1:
        raise AnalysisError("anchor-vanished", f"NodeScheduler::{name}({first_param or ''}) matched {len(out)} definitions")
    return R.parse(run, out[0])


def check(run: Run) -> None:
    t = run.tree

    # ---- a. writer census + paired mutation -----------------------------------------------------
    with run.obligation("C18.a", "K4", "events/tags are mutated only by NodeScheduler::{schedule,pop_tag,un_schedule,"
                        "un_schedule(tag),reset,advance}"):
        expected = {"hgraph::NodeScheduler::schedule", "hgraph::NodeScheduler::pop_tag", "hgraph::NodeScheduler::un_schedule",
                    "hgraph::NodeScheduler::reset", "hgraph::NodeScheduler::advance"}
        found = set()
        sites = 0
        for rel in t.all_files():
            txt = t.read(rel)
            if "events" not in txt and "tags" not in txt:
                continue
            fi = t.file(rel)
            toks = fi.toks
            for i, tk in enumerate(toks):
                if tk.kind == "id" and tk.text in ("events", "tags") and i + 2 < len(toks) and i > 0 \
                        and toks[i - 1].text in (".", "->"):
                    mut = False
                    if toks[i + 1].text in (".", "->") and toks[i + 2].text in (
                            "insert", "erase", "clear", "emplace", "emplace_hint", "extract", "merge", "swap", "try_emplace",
                            "insert_or_assign"):
                        mut = True
                    if toks[i + 1].text == "[":
                        close = fi.match[i + 1]
                        if toks[close + 1].text in ("=",):
                            mut = True
                    if toks[i + 1].text == "=":
                        mut = True
                    if not mut:
                        continue
                    # receiver must be a scheduler state: 'state_->' / 'scheduler->' / '.scheduler_state().'
                    j = i - 2
                    recv = toks[j].text if j >= 0 else ""
                    if rel != SCHED and recv not in ("state_", "scheduler", "scheduler_state", "sched_state"):
                        continue
                    fd = R.enclosing_function(t, rel, i)
                    q = fd.qual if fd else "<scope>"
                    found.add(q)
                    sites += 1
                    run.count(1)
                    if q not in expected:
                        run.finding("C18.a", f"writer:{q}", f"{q} mutates the scheduler's event/tag containers outside the "
                                    f"NodeScheduler mutator set", loc=f"{rel}:{tk.line}")
        run.sites(sites, 12, "mutation sites")
        run.count(1, "C18.a")
        missing = expected - found
        if missing:
            raise AnalysisError("anchor-vanished", f"expected scheduler mutators not found: {sorted(missing)}")
        run.sample({"rule": "C18.a", "writers": sorted(found), "sites": sites})

    with run.obligation("C18.a2", "K13", "every mutator keeps tags = {(g,t) | (t,g) in events, g != ''}: tag and event are "
                        "erased/inserted together"):
        # pop_tag / un_schedule(tag)
        for nm, kw in (("pop_tag", {}), ("un_schedule", {"nparams": 1})):
            fa = _method(run, nm, **kw)
            roles = [Role("NOTFOUND", "bool", TG + r"\.end\(\)==" + TG + r"\.find\(.*\)")]

            def spec(v):
                if v.b("NOTFOUND"):
                    return Expect(calls=[], throws="may")
                return Expect(calls=[("EVERASE", (("tuple", "", (("sym", r".*(->second|when)"), ("sym", r".*->first"))),)),
                                     ("TAGERASE", (ANY,))], throws="may")
            R.k1(run, "C18.a2", fa, roles, spec, role_calls={"EVERASE": EV + r"\.erase", "TAGERASE": TG + r"\.erase",
                                                            "OTHER": r"state_->(events|tags)\.(insert|clear|emplace)"},
                 inline={"require_state": _method(run, "require_state")},
                 what=f"NodeScheduler::{nm} erases event and tag together")
        # un_schedule()
        fa = _method(run, "un_schedule", nparams=0)
        roles = [Role("EMPTY", "bool", EV + r"\.empty\(\)")]

        def spec0(v):
            if v.b("EMPTY"):
                return Expect(calls=[], throws="may")
            return Expect(calls=[("EVERASE", (("sym", EV + r"\.begin\(\)"),)), ("TAGERASE", (("sym", r".*\.second"),))],
                          throws="may")
        R.k1(run, "C18.a2", fa, roles, spec0, role_calls={"EVERASE": EV + r"\.erase", "TAGERASE": TG + r"\.erase",
                                                          "OTHER": r"state_->(events|tags)\.(insert|clear|emplace)"},
             inline={"require_state": _method(run, "require_state")}, what="NodeScheduler::un_schedule()")
        # reset
        fa = _method(run, "reset")
        R.k1(run, "C18.a2", fa, [], lambda v: Expect(calls=[("EVCLEAR", ()), ("TAGCLEAR", ())], throws="may"),
             role_calls={"EVCLEAR": EV + r"\.clear", "TAGCLEAR": TG + r"\.clear",
                         "OTHER": r"state_->(events|tags)\.(insert|erase|emplace)"},
             inline={"require_state": _method(run, "require_state")}, what="NodeScheduler::reset")
        # advance: tag erased iff non-empty, together with its event
        fa = _method(run, "advance")
        roles = [Role("SNULL", "bool", r"nullptr==state_"),
                 Role("EMPTY0", "bool", EV + r"\.empty\(\)", epoch=("E", 0)),
                 Role("FIRST0", "t", EV + r"\.begin\(\)->first", epoch=("E", 0)),
                 Role("NOW", "t", r"now_"),
                 Role("TAGEMPTY", "bool", EV + r"\.begin\(\)->second\.empty\(\)")]

        def spec_adv(v):
            if v.b("SNULL"):
                return Expect(calls=[])
            if v.b("EMPTY0") or v.gt("FIRST0", "NOW"):
                return Expect(calls=[])
            calls = []
            if not v.b("TAGEMPTY"):
                calls.append(("TAGERASE", (("sym", EV + r"\.begin\(\)->second"),)))
            calls.append(("EVERASE", (("sym", EV + r"\.begin\(\)"),)))
            return Expect(calls=calls)
        R.k1(run, "C18.a2", fa, roles, spec_adv, role_calls={"EVERASE": EV + r"\.erase", "TAGERASE": TG + r"\.erase"},
             invalidate={EV + r"\.erase": "E"}, what="NodeScheduler::advance erases tag with its event")

    with run.obligation("C18.a3", "K1", "NodeScheduler::advance pops iff first<=now and ALWAYS re-arms the graph at the earliest remaining "
                        "event (also when nothing fired, e.g. after the firing request was moved or cancelled during evaluation)"):
        fa = _method(run, "advance")
        roles = [Role("SNULL", "bool", r"nullptr==state_"), Role("GNULL", "bool", r"graph_==nullptr"),
                 Role("EMPTY0", "bool", EV + r"\.empty\(\)", epoch=("E", 0)),
                 Role("EMPTY1", "bool", EV + r"\.empty\(\)", epoch=("E", 1), required=False),
                 Role("FIRST0", "t", EV + r"\.begin\(\)->first", epoch=("E", 0)),
                 Role("FIRST1", "t", EV + r"\.begin\(\)->first", epoch=("E", 1), required=False),
                 Role("NOW", "t", r"now_")]

        def spec_rearm(v):
            if v.b("SNULL"):
                return Expect(calls=[])
            pop = (not v.b("EMPTY0")) and v.le("FIRST0", "NOW")
            calls = []
            if pop:
                calls.append(("ERASE", (ANY,)))
                if not v.b("GNULL") and not v.b("EMPTY1"):
                    calls.append(("SCHEDULE", (("sym", r"node_index_"), "FIRST1")))
            elif not v.b("GNULL") and not v.b("EMPTY0"):
                calls.append(("SCHEDULE", (("sym", r"node_index_"), "FIRST0")))
            return Expect(calls=calls)
        R.k1(run, "C18.a3", fa, roles, spec_rearm, role_calls={"ERASE": EV + r"\.erase", "SCHEDULE": r"graph_->schedule_node"},
             invalidate={EV + r"\.erase": "E"}, what="NodeScheduler::advance re-arm")

    # ---- b/c. schedule(DateTime) table ------------------------------------------------------------
    with run.obligation("C18.b", "K1", "schedule(when): admission (started: when>ref; not started: when>=ref; wall-clock alarms "
                        "re-timed to max(now+MIN_TD, ref) / ref), tagged replace, insert, and graph told iff new first < previous first"):
        fa = _method(run, "schedule", first_param="DateTime")
        roles = [Role("W", "t", r"when", lvalue=True),
                 Role("REF", "t", r"scheduling_reference_time\(on_wall_clock\)"),
                 Role("NOW", "t", r"now_"), Role("NOW1", "t", None, succ_of="NOW"),
                 Role("MAX_DT", "t", r"MAX_DT", sentinel="max"),
                 Role("FIRST0", "t", EV + r"\.begin\(\)->first", epoch=("I", 0)),
                 Role("FIRST1", "t", EV + r"\.begin\(\)->first", epoch=("I", 1)),
                 Role("EMPTY0", "bool", EV + r"\.empty\(\)", epoch=("I", 0)),
                 Role("ST", "bool", r"started_"), Role("WC", "bool", r"on_wall_clock"),
                 Role("HASTAG", "bool", r"tag\.has_value\(\)"), Role("TAGEMPTY", "bool", r"tag->empty\(\)"),
                 Role("NOTFOUND", "bool", TG + r"\.end\(\)==" + TG + r"\.find\(.*\)"),
                 Role("GNULL", "bool", r"graph_==nullptr"), Role("SNULL", "bool", r"nullptr==state_")]

        def w1_of(v):
            if v.b("ST"):
                if v.le("W", "REF"):
                    if not v.b("WC"):
                        return None
                    return v.max("NOW1", "REF")
            elif v.lt("W", "REF"):
                if not v.b("WC"):
                    return None
                return "REF"
            return "W"

        def feasible(v):
            # container semantics: after inserting W1 the first event is min(previous first, W1); REF >= NOW
            if v.lt("REF", "NOW"):
                return False
            w1 = w1_of(v)
            if w1 is None:
                return True
            pf = "MAX_DT" if v.b("EMPTY0") else "FIRST0"
            return v.r("FIRST1") == min(v.r(pf), v.r(w1))

        def spec(v):
            if v.b("SNULL"):
                return Expect(throws=True)
            w1 = w1_of(v)
            if w1 is None:
                return Expect(calls=[], dont_care=("W",))
            tagged = v.b("HASTAG") and not v.b("TAGEMPTY")
            calls = []
            if tagged and not v.b("NOTFOUND"):
                calls.append(("EVERASE", (("tuple", "", (("sym", r".*->second"), ANY)),)))
            pf = "MAX_DT" if v.b("EMPTY0") else "FIRST0"
            if tagged:
                calls.append(("TAGSET", (w1,)))
            calls.append(("EVINSERT", (("tuple", "", (_V(w1), ANY)),)))
            if not v.b("GNULL") and v.lt("FIRST1", pf):
                calls.append(("SCHEDULE", (ANY, "FIRST1")))
            return Expect(calls=calls, stores={"W": w1})
        R.k1(run, "C18.b", fa, roles, spec, feasible=feasible,
             role_calls={"EVERASE": EV + r"\.erase", "EVINSERT": EV + r"\.insert", "SCHEDULE": r"graph_->schedule_node",
                         "TAGSET": r"@store:" + TG + r"\[.*\]", "OTHER": r"state_->(events|tags)\.(clear|emplace)|" + TG + r"\.erase"},
             inline={"require_state": _method(run, "require_state")},
             invalidate={EV + r"\.insert": "I"}, what="NodeScheduler::schedule(DateTime)")

    with run.obligation("C18.b2", "K1", "schedule(delta) forwards reference+delta with the same tag and wall-clock flag; "
                        "scheduling_reference_time = now (no wall clock) / max(now, wall) and throws without wall-clock support"):
        fa = _method(run, "schedule", first_param="TimeDelta")
        cn = R.aliases_of(fa)
        cs = [c for c in R.calls(fa, "schedule")]
        run.sites(len(cs), 1, "forwarding call")
        a = [cn(x) for x in cs[0].args]
        run.count(1, "C18.b2")
        if len(a) != 3 or a[0] != "scheduling_reference_time(on_wall_clock)+delta" or a[1] != "tag" or a[2] != "on_wall_clock":
            run.finding("C18.b2", "schedule(delta):forward", f"schedule(delta) must forward (reference+delta, tag, on_wall_clock); forwards {a}",
                        loc=fa.loc(cs[0]))
        fl_fwd = R.flow(run, fa)
        R.k2_precede(run, "C18.b2", fl_fwd, R.call_is(name="schedule"), lambda n, fl_fwd=fl_fwd: n.id == fl_fwd.cfg.exit,
                     "schedule(delta) forwards EVERY request (a zero delay requested during start is a wake-up in the start cycle; the absolute overload decides admission)")
        fa = _method(run, "scheduling_reference_time")
        roles = [Role("WC", "bool", r"on_wall_clock"), Role("SUP", "bool", r"supports_wall_clock_"),
                 Role("NOW", "t", r"now_"), Role("WALL", "t", r"wall_clock_\.now\(\)")]

        def spec_ref(v):
            if not v.b("WC"):
                return Expect(ret="NOW")
            if not v.b("SUP"):
                return Expect(throws=True)
            return Expect(ret=v.max("NOW", "WALL"))
        R.k1(run, "C18.b2", fa, roles, spec_ref, what="scheduling_reference_time")

    # ---- d. queries ---------------------------------------------------------------------------------
    with run.obligation("C18.d", "K1", "next_scheduled_time = first event or MIN_DT; is_scheduled iff non-empty; "
                        "is_scheduled_now iff non-empty and first == now; tag queries read the tag index"):
        base = [Role("SNULL", "bool", r"nullptr==state_"), Role("EMPTY", "bool", EV + r"\.empty\(\)"),
                Role("FIRST", "t", EV + r"\.begin\(\)->first"), Role("NOW", "t", r"now_", required=False),
                Role("MIN_DT", "t", r"MIN_DT", sentinel="min", required=False)]
        fa = _method(run, "next_scheduled_time")
        R.k1(run, "C18.d", fa, base, lambda v: Expect(ret="FIRST" if (not v.b("SNULL") and not v.b("EMPTY")) else "MIN_DT"),
             what="NodeScheduler::next_scheduled_time")
        fa = _method(run, "is_scheduled")
        R.k1(run, "C18.d", fa, base[:2] + [Role("FIRST", "t", EV + r"\.begin\(\)->first", required=False),
                                           Role("NOW", "t", r"now_", required=False)],
             lambda v: Expect(ret=(not v.b("SNULL") and not v.b("EMPTY"))), what="NodeScheduler::is_scheduled")
        fa = _method(run, "is_scheduled_now")
        R.k1(run, "C18.d", fa, base, lambda v: Expect(ret=(not v.b("SNULL") and not v.b("EMPTY") and v.eq("FIRST", "NOW"))),
             what="NodeScheduler::is_scheduled_now")
        # tag queries read `tags` only
        for nm in ("has_tag", "tag_time"):
            fa = _method(run, nm)
            cn = R.aliases_of(fa)
            txt = " ".join(cn(c) for c in R.calls(fa))
            run.count(1, "C18.d.tags")
            if "state_->tags." not in txt or "state_->events" in txt:
                run.finding("C18.d", f"{nm}:source", f"{nm} must answer from the tag index only", loc=fa.loc(fa.body))
        fa = _method(run, "tag_is_scheduled_now")
        cn = R.aliases_of(fa)
        rets = R.find(fa, lambda n: isinstance(n, C.Return))
        run.count(1, "C18.d.tags")
        if len(rets) != 1 or cn(rets[0].e) not in ("has_tag(tag)&&(tag_time(tag)==now_)", "has_tag(tag)&&(now_==tag_time(tag))"):
            run.finding("C18.d", "tag_is_scheduled_now", f"tag_is_scheduled_now must be has_tag(tag) && tag_time(tag)==now_, is "
                        f"{[cn(r.e) for r in rets]}", loc=fa.loc(fa.body))

    # ---- e. runtime side ----------------------------------------------------------------------------
    with run.obligation("C18.e", "K1", "node evaluate_impl: scheduled_now is computed before user code; advance iff it fired, "
                        "else re-arm iff scheduled (shared with C02.g)"):
        fa = R.fn(run, NODE, "evaluate_impl")
        spec_p, calls_p, feas_p = c02.node_eval_projection({"eval", "rearm"})
        R.k1(run, "C18.e", fa, c02.node_eval_roles(), spec_p, role_calls=calls_p, feasible=feas_p,
             may_throw_calls=("EVAL",), what="node evaluate gate + scheduler re-arm")
        fl = R.flow(run, fa)
        snow = R.store_is(r"scheduled_now", None)
        evalc = R.call_is(callee=r"callbacks\(context\)\.evaluate")
        R.k2_precede(run, "C18.e", fl, snow, evalc, "scheduled_now snapshot before the user evaluate callback", b_floor=1)
        # the scheduler view handed to advance() is built over the node's own state, graph, index and NOW
        decl = R.find(fa, lambda n: isinstance(n, C.Declarator) and n.name == "sched")
        run.sites(len(decl), 1, "sched declaration")
        cn = R.aliases_of(fa)
        init = decl[0].init
        args = [cn(a) for a in init.elems] if isinstance(init, C.Init) else []
        want = ["*scheduler", "&*view.graph_value()", "view.node_index()", "evaluation_time"]
        got = [a.replace(" ", "") for a in args]
        ok = len(got) >= 4 and got[0] in ("*scheduler",) and got[1] in ("&*view.graph_value()", "view.graph_value()") \
            and got[2] == "view.node_index()" and got[3] == "evaluation_time"
        run.count(1, "C18.e.ctor")
        if not ok:
            run.finding("C18.e", "evaluate_impl:sched-ctor", f"runtime scheduler view must be built from (*scheduler, &graph, "
                        f"view.node_index(), evaluation_time); found {got}", loc=fa.loc(decl[0]))

    # ---- f. injection ------------------------------------------------------------------------------
    with run.obligation("C18.f", "K6", "the injected NodeScheduler is built from the node's own scheduler state, graph, index, "
                        "the evaluation time of the call, node.started() and supports_wall_clock iff real-time executor"):
        fi = t.file(STATIC)
        cands = [f for f in fi.funcs if f.name == "get" and f.cls and "arg_provider<NodeScheduler>" in f.qual]
        if len(cands) != 1:
            raise AnalysisError("anchor-vanished", f"arg_provider<NodeScheduler>::get matched {len(cands)}")
        fa = R.parse(run, cands[0])
        cn = R.aliases_of(fa)
        rets = R.find(fa, lambda n: isinstance(n, C.Return) and isinstance(n.e, C.Init))
        run.sites(len(rets), 1, "return NodeScheduler{...}")
        sub = R.const_locals(fa, cn)
        args = [cn(a) for a in rets[0].e.elems]
        args = [a if a == "supports_wall_clock" else sub(a) for a in args]        # a write-once local naming an accessor is the accessor
        run.count(1, "C18.f")
        want = ["view.scheduler_state()", "view.graph_value()", "view.node_index()", "evaluation_time", "view.started()",
                "view.evaluation_clock()", "supports_wall_clock"]
        if args != want:
            run.finding("C18.f", "arg_provider<NodeScheduler>::get", f"injected scheduler arguments {args} differ from {want}",
                        loc=fa.loc(rets[0]))
        # supports_wall_clock <=> executor.valid() && mode == RealTime
        d = R.find(fa, lambda n: isinstance(n, C.Declarator) and n.name == "supports_wall_clock")
        run.sites(len(d), 1, "supports_wall_clock")
        txt = cn(d[0].init)
        if txt not in ("executor.valid()&&(executor.schema()->mode==GraphExecutorMode::RealTime)",
                       "(executor.schema()->mode==GraphExecutorMode::RealTime)&&executor.valid()",
                       "view.graph().executor().valid()&&(view.graph().executor().schema()->mode==GraphExecutorMode::RealTime)"):
            run.finding("C18.f", "supports_wall_clock", f"supports_wall_clock must be executor.valid() && mode==RealTime, is {txt}",
                        loc=fa.loc(d[0]))
        run.sample({"rule": "C18.f", "ctor_args": args, "supports_wall_clock": txt})
        # NodeScheduler ctor maps the 7 parameters to the 7 fields positionally
        ctors = [f for f in t.funcs(SCHED, "NodeScheduler", "NodeScheduler") if t.param_count(f) == 7]
        run.sites(len(ctors), 1, "7-arg constructor")
        fd = ctors[0]
        fi2 = t.file(SCHED)
        il = fi2.text(fd.init_list[0], fd.init_list[1]).replace(" ", "") if fd.init_list else ""
        wantil = "state_(&state),graph_(graph),node_index_(node_index),now_(now),started_(started),wall_clock_(wall_clock),supports_wall_clock_(supports_wall_clock)"
        run.count(1, "C18.f.ctor")
        if il != wantil:
            run.finding("C18.f", "NodeScheduler::NodeScheduler", f"constructor initialiser list maps parameters to the wrong fields: {il}",
                        loc=f"{SCHED}:{fd.line}")
        ps = [p[1] for p in C.split_params(fi2, fd.params[0], fd.params[1])]
        if ps != ["state", "graph", "node_index", "now", "started", "wall_clock", "supports_wall_clock"]:
            run.finding("C18.f", "NodeScheduler::NodeScheduler:params", f"constructor parameter order changed: {ps}", loc=f"{SCHED}:{fd.line}")

    with run.obligation("C18.g", "K1", "the graph side of a wake-up request: a request for an earlier future time replaces the node's slot AND lowers the graph's "
                        "next cycle, so the executor visits that time (shared with C02.a)"):
        sub = Run("C18", run.tier, run.tree, quiet=True)
        sub.is_sub = True
        if not getattr(run, "is_sub", False):
            c02.check(sub)
        run.evaluations += sub.evaluations
        run.count(1, "C18.g")
        for f in sub.findings:
            if f.rule == "C02.a":
                run.finding("C18.g", f.key, f.message, f.loc)
        for e in sub.errors:
            if e.startswith("C02.a:"):
                raise AnalysisError("model-mismatch", e)

    with run.obligation("C18.h", "K1+K2", "a node with schedule_on_start is woken in the start cycle whatever its start hook booked for later: node start_impl schedules "
                        "it unconditionally after the hook (shared with C03.f)"):
        from . import c03
        R.share(run, "C18.h", c03, ["C03.f"])

    with run.obligation("C18.i", "K2", "a request for the CURRENT time made from the start hook is honoured: the scheduler handed to the hook is `not started` (view.started() is "
                        "false) - node start_impl sets started only AFTER the user start hook returned (shared with C14.e)"):
        from . import c14
        R.share(run, "C18.i", c14, ["C14.e"])


def _V(x):
    return x


VARIANTS = [
    {"id": "b2-zero-delay-dropped", "expect": "C18.b2", "edits": [{"file": SCHED, "find": "            require_state(\"schedule\");\n            schedule(scheduling_reference_time(on_wall_clock) + delta, std::move(tag), on_wall_clock);", "replace": "            require_state(\"schedule\");\n            if (!on_wall_clock && delta <= TimeDelta{0}) { return; }\n            schedule(scheduling_reference_time(on_wall_clock) + delta, std::move(tag), on_wall_clock);"}]},
    {"id": "b-admit-started-lt", "expect": "C18.b", "edits": [{"file": SCHED, "find": "if (when <= reference_now)", "replace": "if (when < reference_now)"}]},
    {"id": "b-admit-notstarted-le", "expect": "C18.b", "edits": [{"file": SCHED, "find": "else if (when < reference_now)", "replace": "else if (when <= reference_now)"}]},
    {"id": "b-wallclock-drop", "expect": "C18.b", "edits": [{"file": SCHED, "find": "when = std::max(now_ + MIN_TD, reference_now);", "replace": "when = reference_now;"}]},
    {"id": "c-graph-le", "expect": "C18.b", "edits": [{"file": SCHED, "find": "next < prev_first) { graph_->schedule_node(node_index_, next); }", "replace": "next < prev_first && tagged) { graph_->schedule_node(node_index_, next); }"}]},
    {"id": "c-prev-after-insert", "expect": "C18.b", "edits": [{"file": SCHED, "find": "            const DateTime prev_first = state_->events.empty() ? MAX_DT : state_->events.begin()->first;\n            if (tagged) { state_->tags[tag_value] = when; }  // only tagged events are indexed\n            state_->events.insert({when, tag_value});", "replace": "            if (tagged) { state_->tags[tag_value] = when; }  // only tagged events are indexed\n            state_->events.insert({when, tag_value});\n            const DateTime prev_first = state_->events.empty() ? MAX_DT : state_->events.begin()->first;"}]},
    {"id": "b-no-replace", "expect": "C18.b", "edits": [{"file": SCHED, "find": "state_->events.erase({it->second, tag_value});  // replace existing tagged event", "replace": "static_cast<void>(it);"}]},
    {"id": "b-twin-swap-operands", "expect": None, "edits": [{"file": SCHED, "find": "if (when <= reference_now)", "replace": "if (reference_now >= when)"}]},
    {"id": "a2-pop-keeps-event", "expect": "C18.a2", "edits": [{"file": SCHED, "find": "            state_->events.erase({when, it->first});\n", "replace": ""}]},
    {"id": "a2-unschedule-keeps-tag", "expect": "C18.a2", "edits": [{"file": SCHED, "find": "            state_->tags.erase(ev.second);\n", "replace": ""}]},
    {"id": "a2-advance-tag", "expect": "C18.a2", "edits": [{"file": SCHED, "find": "if (!tag.empty()) { state_->tags.erase(tag); }", "replace": "if (tag.empty()) { state_->tags.erase(tag); }"}]},
    {"id": "a3-rearm-only-if-fired", "expect": "C18.a3", "edits": [{"file": SCHED, "find": "            if (graph_ != nullptr && !state_->events.empty())\n            {\n                graph_->schedule_node(node_index_, state_->events.begin()->first);", "replace": "            if (graph_ != nullptr && !state_->events.empty() && state_->events.begin()->first > now_ + MIN_TD)\n            {\n                graph_->schedule_node(node_index_, state_->events.begin()->first);"}]},
    {"id": "a-foreign-writer", "expect": "C18.a", "edits": [{"file": NODE, "find": "                    sched.advance();  // consume the fired event(s) and re-arm the next", "replace": "                    scheduler->events.erase(scheduler->events.begin());\n                    sched.advance();"}]},
    {"id": "d-next-max", "expect": "C18.d", "edits": [{"file": SCHED, "find": "? state_->events.begin()->first : MIN_DT;", "replace": "? state_->events.rbegin()->first : MIN_DT;"}]},
    {"id": "d-now-le", "expect": "C18.d", "edits": [{"file": SCHED, "find": "!state_->events.empty() && state_->events.begin()->first == now_;", "replace": "!state_->events.empty() && state_->events.begin()->first <= now_;"}]},
    {"id": "f-started-true", "expect": "C18.f", "edits": [{"file": STATIC, "find": "view.started(), view.evaluation_clock(), supports_wall_clock};", "replace": "true, view.evaluation_clock(), supports_wall_clock};"}]},
    {"id": "b2-ref-min", "expect": "C18.b2", "edits": [{"file": SCHED, "find": "return std::max(now_, wall_clock_.now());", "replace": "return std::min(now_, wall_clock_.now());"}]},
    {"id": "e-snapshot-late", "expect": "C18.e", "edits": [{"file": NODE, "find": "                if (scheduled_now)\n", "replace": "                if (sched.is_scheduled_now())\n"}]},
]
