"""C07 - Simulation runs are reproducible and isolated from each other (partial)."""
from __future__ import annotations

import re

from .. import cparse as C
from ..index import AnalysisError
from ..k1 import ANY, Expect, Role
from ..report import Run
from .. import rules as R

ID = "C07"
PARTIAL = True
EXEC = "src/hgraph/runtime/executor.cpp"
GRAPH = "src/hgraph/runtime/graph.cpp"
RT_DIRS = ["src/hgraph/runtime/", "include/hgraph/runtime/", "src/hgraph/lib/", "include/hgraph/lib/"]

TECHNIQUE = ("exact census and classification of mutable static / thread_local state in the runtime and operator layers (K12), flow of "
             "process-wide counters into node outputs (K11), lockset of the mutex-guarded plan/context caches (K8), constructor-term checks of "
             "per-executor storage (K6), shared wall-clock and hash-order rules (K11)")
EXPLANATION = (
    "PARTIAL: decides structural necessary conditions of isolation/reproducibility, not byte-equality of traces. Decided: simulation time "
    "never reads the wall clock (shared with C02.f); every executor builds its own root graph storage from the builder and copies the seed "
    "global state in by value; the runtime and operator layers contain exactly the confirmed set of mutable static / thread_local variables, "
    "each classified (mutex, atomic flag, thread-local scope marker, intern table of immutable node/graph/executor type contexts) - any new "
    "static is reported because it can carry state from one run to the next; a process-wide counter whose value reaches a node output is "
    "reported (one KNOWN FINDING: the request-id source); the plan/context caches shared by all runs are accessed only with their mutex held; "
    "child-graph owners compile their child graph types when the node builder is made, so a running graph never mutates the unsynchronised "
    "type registries; ranking/resolution take no decision from hash order (shared with C06.d, C19.c). Not decided: trace equality; absence of "
    "data races in general; pointer values user code might print.")
ASSUMPTIONS = ["intern tables of immutable contexts keyed by schema do not change behaviour (they only share identical immutable data)",
               "building executors concurrently from several threads is outside the property (it speaks of executors RUNNING concurrently)"]
DECIDED = ["e intern-table lookups cover every interned field", "a logical time ignores the wall clock", "b fresh storage per executor; global state copied in", "c no run-specific process globals (census)",
           "c2 no process-wide counter reaches an output (known finding F-C07-1)", "d shared caches use their lock; no registry mutation while running",
           "e no hash-order decisions (shared)",
           'j wiring-time store and seed store selected by the same condition (kind == TopLevel && live_seeded)', 'h also: injected scheduler supports wall-clock alarms iff real-time (= C18.f)',
           'k lockset of TypeRecordRegistry', 'l GraphBuilder mutators discard the cached types',
           'm copy_from replaces the selected state unconditionally']
NOT_DECIDED = ["byte-for-byte trace equality", "general data-race freedom", "interning-order effects on printed pointers"]

# (file basename, enclosing function, variable) -> class / reason
STATICS = {
    ("mock_runtime.h", "mock_runtime_context", "context"): "test harness context (lib/testing), not used by graphs at run time",
    ("evaluation_trace.h", "<scope>", "print_all_values_"): "atomic diagnostic flag",
    ("evaluation_trace.h", "<scope>", "use_logger_"): "atomic diagnostic flag",
    ("io_impl.cpp", "io_write_slot", "writer"): "process-wide output writer hook (function pointer installed once)",
    ("json_impl.cpp", "json_meta", "meta"): "thread-local cache keyed by type-registry generation",
    ("json_impl.cpp", "json_meta", "generation"): "thread-local cache keyed by type-registry generation",
    ("json_impl.cpp", "json_value_binding", "binding"): "thread-local cache keyed by type-registry generation",
    ("json_impl.cpp", "json_value_binding", "generation"): "thread-local cache keyed by type-registry generation",
    ("json_impl.cpp", "json_lazy_meta", "meta"): "thread-local cache keyed by type-registry generation",
    ("json_impl.cpp", "json_lazy_meta", "generation"): "thread-local cache keyed by type-registry generation",
    ("executor.cpp", "executor_runtime_registry", "registry"): "executor type registry (build time)",
    ("global_state.cpp", "<scope>", "active_global_context"): "thread-local scope marker (GlobalContext RAII)",
    ("graph.cpp", "graph_runtime_registry", "registry"): "graph type registry (build time)",
    ("mapped_key_source.h", "context_for", "mutex"): "mutex of the key-source context table",
    ("mapped_key_source.h", "context_for", "contexts"): "intern table of immutable key-source contexts (mutex in the same scope)",
    ("node.cpp", "node_runtime_registry", "registry"): "node type registry (build time)",
    ("service_node.cpp", "next_request_id", "next"): "process-wide request-id counter (see C07.c2 / F-C07-1)",
    ("shared_output_node.cpp", "register_shared_output_config", "configs"): "intern table of immutable shared-output configs",
}
# plain namespace-scope mutable variables (no static / thread_local): one per process, shared by every thread
GLOBALS = {
    ("table_impl.cpp", "g_table_type_ops_overrides"): "table type-ops overrides keyed by schema (see C07.d: unsynchronised)",
    ("table_impl.cpp", "g_layouts"): "table layout cache keyed by (schema, date key, as-of key) (see C07.d: unsynchronised)",
    ("table_impl.cpp", "g_layouts_generation"): "registry generation the table caches were built against",
    ("evaluation_trace.cpp", "print_all_values_"): "out-of-class definition of the atomic diagnostic flag",
    ("evaluation_trace.cpp", "use_logger_"): "out-of-class definition of the atomic diagnostic flag",
    ("logger.cpp", "g_logger"): "process-wide logger handle (observability only; installed by configuration)",
}
ACCUMULATORS = {  # struct -> (mode, reason)
    "dense_record_impl": ("erase-on-start", "testing/harness recorder: 'a seeded state may contain the prior run's result under this key'"),
    "sparse_record_impl": ("persistent", "documented: 'appends across runs so Recover|Record can continue a recording' (absolute-time entries; the user owns the key)"),
}
CONTEXT_TABLE_RE = re.compile(r"\w+_contexts|intern_race_context")


def check(run: Run) -> None:
    t = run.tree

    with run.obligation("C07.a", "K11", "simulation time never reads the wall clock (shared with C02.f)"):
        n = 0
        for name in ("advance_simulation", "simulation_run_impl", "validate_times"):
            fa = R.fn(run, EXEC, name)
            bad = [c for c in R.calls(fa) if R.callee_name(c) in ("current_wall_time", "now", "system_clock", "steady_clock")]
            n += 1
            run.count(1, "C07.a")
            for c in bad:
                run.finding("C07.a", f"{name}:wall-clock", f"{name} reads the wall clock", loc=fa.loc(c))
        run.sites(n, 3)

    with run.obligation("C07.b", "K6", "each executor storage builds its own root graph from the builder; the root graph copies the seed global state in"):
        fi = t.file(EXEC)
        n = 0
        for cls in ("SimulationExecutorStorage", "RealTimeExecutorStorage"):
            ctors = [f for f in t.funcs(EXEC, cls, cls) if f.init_list]
            run.sites(len(ctors), 1, f"{cls} constructor")
            il = fi.text(*ctors[0].init_list).replace(" ", "")
            n += 1
            run.count(1)
            if "graph(builder.graph_builder().make_root_graph(" not in il:
                run.finding("C07.b", f"{cls}:graph-init", f"{cls} must build its own root graph from the builder: {il[:160]}", loc=f"{EXEC}:{ctors[0].line}")
            sd = t.struct(EXEC, cls)
            st = [f.name for f in sd.fields if f.is_static]
            if st:
                run.finding("C07.b", f"{cls}:static-members", f"{cls} has static members {st}: state would be shared between executors", loc=f"{EXEC}:{sd.line}")
        ws = [w for w in R.field_writers(t, "global_state", files=[GRAPH]) if w[3] == "store"]
        run.count(len(ws))
        txt = t.read(GRAPH)
        if not re.search(r"state\s*\.\s*global_state\s*=\s*builder\s*\.\s*global_state_\s*;", txt):
            run.finding("C07.b", "GraphValue:global-state-copy", "the root graph must copy the builder's seed global state by value", loc=GRAPH)
        fa = R.fn(run, GRAPH, "nested_global_state_impl")
        rets = [R.Canon()(r.e) for r in R.find(fa, lambda x: isinstance(x, C.Return))]
        if rets != ["parent.graph().root().global_state()"] and rets != ["graph_header(graph_context(context),memory).parent_node().graph().root().global_state()"]:
            run.finding("C07.b", "nested_global_state_impl", f"nested graphs must reach global state through their root only: {rets}", loc=GRAPH)

    with run.obligation("C07.c", "K12", "the runtime and operator layers contain exactly the confirmed mutable static / thread_local variables"):
        xs = R.mutable_statics(t, RT_DIRS)
        run.sites(len(xs), 25, "mutable statics")
        for rel, line, fn_, name, decl in xs:
            key = (rel.split("/")[-1], fn_.split("::")[-1] if fn_ != "<scope>" else "<scope>", name)
            run.count(1)
            if key in STATICS:
                continue
            if name in ("contexts",) and CONTEXT_TABLE_RE.fullmatch(key[1]) and decl.replace(" ", "").startswith("staticauto*"):
                continue  # intern table of immutable node contexts (one per node kind), leaked on purpose
            if "mutex" in decl.lower():
                continue
            run.finding("C07.c", f"static:{key[0]}:{key[1]}:{name}", f"new mutable static `{decl}` in {fn_} ({rel}): process-wide state can carry "
                        f"information from one run to the next", loc=f"{rel}:{line}")
        run.sample({"rule": "C07.c", "statics": len(xs)})
        gs = R.namespace_globals(t, RT_DIRS)
        run.sites(len(gs), 4, "namespace-scope globals")
        for rel, line, name, decl in gs:
            run.count(1)
            if (rel.split("/")[-1], name) in GLOBALS:
                continue
            run.finding("C07.c", f"global:{rel.split('/')[-1]}:{name}", f"new mutable namespace-scope variable `{decl}` ({rel}) without static/thread_local "
                        "storage: one instance per process, shared by every thread and every run", loc=f"{rel}:{line}")
        # the confirmed thread-local scope markers must stay thread_local
        tl = {(k[0], k[2]) for k, v in STATICS.items() if v.startswith("thread-local")}
        have = {(rel.split("/")[-1], name) for rel, line, fn_, name, decl in xs if decl.startswith("thread_local")}
        for k in sorted(tl - have):
            run.finding("C07.c", f"not-thread-local:{k[0]}:{k[1]}", f"`{k[1]}` ({k[0]}) is classified as a per-thread marker but is no longer declared thread_local", loc=k[0])

    with run.obligation("C07.c2", "K11", "no process-wide counter reaches a node output"):
        xs = R.mutable_statics(t, RT_DIRS)
        counters = [(rel, line, fn_, name) for rel, line, fn_, name, decl in xs if "atomic" in decl and re.search(r"Int|int|uint64|size_t", decl)]
        run.sites(len(counters), 1, "atomic counters")
        for rel, line, fn_, name in counters:
            fname = fn_.split("::")[-1]
            if fname == "<scope>":
                continue
            # does the enclosing function return a value derived from the counter?
            fds = [f for f in t.file(rel).funcs if f.qual == fn_]
            if not fds:
                continue
            fa = R.parse(run, fds[0], strict=False)
            rets = [R.Canon()(r.e) for r in R.find(fa, lambda x: isinstance(x, C.Return)) if r.e is not None]
            if not any(name in r for r in rets):
                continue
            # callers that publish the value
            sinks = []
            for crel, cq, cline in R.callers_of(t, fname):
                cfds = [f for f in t.file(crel).funcs if f.qual == cq]
                for cfd in cfds:
                    cfa = R.parse(run, cfd, strict=False)
                    cn = R.aliases_of(cfa)
                    txt = " ".join(cn(c) for c in R.calls(cfa))
                    if re.search(rf"(out|output|mutation)\S*\.(set|move_value_from|copy_value_from)\([^)]*({fname}\(\)|request_id)", txt):
                        sinks.append(f"{crel}:{cq}")
            run.count(1, f"C07.c2.{fname}")
            if sinks:
                run.finding("C07.c2", f"counter:{fn_}:{name}", f"the process-wide counter `{name}` ({fn_}) is published on node outputs by {sorted(set(sinks))}: "
                            f"the same graph run twice in one process produces different outputs", loc=f"{rel}:{line}")

    with run.obligation("C07.d", "K8+K4", "shared plan/context caches are accessed with their mutex held; child-graph owners compile child types at "
                        "builder time (a running graph never mutates the type registries)"):
        pairs = 0
        xs = R.mutable_statics(t, ["src/hgraph/types/"])
        byfile = {}
        for rel, line, fn_, name, decl in xs:
            byfile.setdefault(rel, []).append((line, fn_.split("::")[-1], decl))
        for rel, items in sorted(byfile.items()):
            muts = [(l, f) for l, f, d in items if f.endswith("mutex")]
            if not muts:
                continue
            fi = t.file(rel)
            for ml, m in muts:
                near = [((0 if l < ml else 1, abs(l - ml)), f) for l, f, d in items if not f.endswith("mutex") and abs(l - ml) <= 12 and any(t.param_count(g) == 0 for g in t.file(rel).funcs if g.name == f)]
                if not near:
                    raise AnalysisError("model-mismatch", f"{rel}: mutex accessor {m} has no adjacent cache accessor")
                cont = min(near)[1]
                pairs += 1
                users = 0
                for fd in fi.funcs:
                    if fd.name in (cont, m) or fd.body is None:
                        continue
                    body = fi.text(fd.body[0], fd.body[1])
                    if cont not in body:
                        continue
                    fa = R.parse(run, fd, strict=False)
                    acc = R.lock_accesses(fa, rf"{m}\(\)", [cont])
                    for node, fld, held in acc:
                        users += 1
                        run.count(1, f"C07.d.{cont}")
                        if not held:
                            run.finding("C07.d", f"{rel.split('/')[-1]}:{fd.name}:{cont}", f"{fd.qual} accesses the shared cache {cont}() without holding {m}()",
                                        loc=fa.loc(node))
                if users == 0:
                    raise AnalysisError("vacuous-rule", f"{rel}: cache accessor {cont} has no users")
        run.sites(pairs, 11, "cache/mutex pairs")
        owners = {"map_node.cpp": "map_node", "tsl_map_node.cpp": "tsl_map_node", "reduce_node.cpp": "reduce_node", "ordered_reduce_node.cpp": "ordered_reduce_node",
                  "mesh_node.cpp": "mesh_node", "switch_node.cpp": "switch_node", "nested_graph_node.cpp": "single_nested_graph_node_descriptor"}
        n = 0
        for tu, _ in owners.items():
            rel = "src/hgraph/runtime/" + tu
            txt = t.read(rel)
            n += 1
            run.count(1)
            if not re.search(r"graph_builder\s*\.\s*(nested_storage_layout|nested_type)\s*\(", txt):
                run.finding("C07.d", f"{tu}:lazy-child-type", f"{tu} no longer compiles its child graph type when the node builder is made: the first "
                            f"runtime instantiation would mutate the unsynchronised graph type registry", loc=rel)
        run.sites(n, 7, "owners")
        # runtime code (evaluate/start/stop callbacks) must not call registry mutators
        fa = R.fn(run, GRAPH, "GraphBuilder::root_type")
        cn = R.aliases_of(fa)
        ifs = [s for s in fa.body.stmts if isinstance(s, C.If)]
        if not ifs or cn(ifs[0].cond) != "!types_compiled_" or not R.calls(ifs[0].then, "make_types"):
            run.finding("C07.d", "GraphBuilder::root_type:cache", "type compilation must be cached behind types_compiled_", loc=GRAPH)

    with run.obligation("C07.e", "K9", "process-wide intern tables of node contexts are looked up by EVERY field the interned context is built from, so a "
                        "context built for one graph is never handed to a differently configured graph built later in the same process"):
        n = 0
        for rel in t.all_files():
            if not any(rel.startswith(p) for p in RT_DIRS):
                continue
            fi = t.file(rel)
            for fd in fi.funcs:
                if fd.body is None:
                    continue
                body = fi.text(fd.body[0], fd.body[1])
                if "find_if" not in body or "make_unique" not in body:
                    continue
                fa = R.parse(run, fd, strict=False)
                cn = R.aliases_of(fa)
                fis = [c for c in R.calls(fa) if R.callee_name(c).split("::")[-1] == "find_if"]
                mk = [c for c in R.calls(fa) if "make_unique" in cn(c.fn)]
                if len(fis) != 1 or len(mk) != 1 or not mk[0].args or not isinstance(mk[0].args[0], C.Init):
                    continue
                lam = [a for a in fis[0].args if isinstance(a, C.Lambda)]
                if not lam:
                    continue
                n += 1
                params = {nm for _, nm in fa.params if nm}
                built = {}
                for el in mk[0].args[0].elems:
                    if isinstance(el, C.Desig):
                        v = cn(el.value)
                        m = re.fullmatch(r"(?:std::)?move\((\w+)\)|(\w+)", v)
                        src = (m.group(1) or m.group(2)) if m else None
                        if src in params:
                            built[el.name] = src
                ptxt = " ".join(cn(r.e) for r in R.find(lam[0].body, lambda x: isinstance(x, C.Return)) if r.e is not None).replace(" ", "")
                lp = [nm for _, nm in lam[0].params if nm]
                ent = lp[0] if lp else "context"
                run.count(1, f"C07.e.{fd.name}")
                for fld, src in sorted(built.items()):
                    if not re.search(rf"{ent}(->|\.){fld}=={src}|{src}=={ent}(->|\.){fld}", ptxt):
                        run.finding("C07.e", f"{fd.name}:lookup-ignores:{fld}", f"{fd.qual} interns a context built with {fld} = {src} but its lookup does not compare "
                                    f"`{fld}`: the first graph built in the process decides it for every later graph ({ptxt})", loc=fa.loc(fis[0]))
        run.sites(n, 5, "intern lookups")

    with run.obligation("C07.f", "K4+K2", "operator nodes that APPEND to a buffer they find in the GlobalState (which a GlobalContext seeds from the previous run): exact census, and the "
                        "harness recorder discards whatever the seed holds under its key on EVERY path through start, so a run's recording never begins with the "
                        "ticks of the run before it"):
        found: Dict[str, str] = {}
        for rel in run.tree.all_files():
            if not any(rel.startswith(p_) for p_ in ("include/hgraph/lib/", "src/hgraph/lib/")):
                continue
            if "GlobalStateView" not in run.tree.read(rel):
                continue
            for fd_ in run.tree.file(rel).funcs:
                if fd_.body is None or fd_.name != "eval" or not fd_.cls:
                    continue
                fa_ = R.parse(run, fd_, strict=False)
                gs_params = {nm for ty, nm in fa_.params if nm and "GlobalStateView" in ty}
                if not gs_params:
                    continue
                cn_ = R.aliases_of(fa_)
                reads = [c for c in R.calls(fa_, "get") if isinstance(c.fn, C.Member) and cn_(c.fn.obj) in gs_params]
                appends = [c for c in R.calls(fa_) if R.callee_name(c).split("::")[-1].split(".")[-1] in ("push_back", "push_back_unset", "begin_mutation")]
                if reads and appends:
                    found[fd_.cls] = rel
        run.count(len(found), "C07.f")
        if run._cur is not None:
            run._cur["sites"] = len(found)
        for cls in sorted(set(found) - set(ACCUMULATORS)):
            run.finding("C07.f", f"accumulator:{cls}:unclassified", f"{cls}::eval appends to a buffer it reads from the GlobalState and is not in the confirmed table: say whether "
                        "its start discards the seeded buffer or why it is persistent by design", loc=found[cls])
        for cls in sorted(set(ACCUMULATORS) - set(found)):
            raise AnalysisError("anchor-vanished", f"C07.f: {cls}::eval no longer appends to a GlobalState buffer")
        for cls, (mode, why) in sorted(ACCUMULATORS.items()):
            if mode != "erase-on-start":
                continue
            fds_ = [f for f in run.tree.file(found[cls]).funcs if f.name == "start" and f.cls == cls and f.body is not None]
            if len(fds_) != 1:
                run.finding("C07.f", f"{cls}::start:missing", f"{cls} has no start hook that discards the seeded buffer", loc=found[cls])
                continue
            fa_ = R.parse(run, fds_[0])
            gs_params = {nm for ty, nm in fa_.params if nm and "GlobalStateView" in ty}
            cn_ = R.aliases_of(fa_)
            fl = R.flow(run, fa_)
            is_erase = lambda n, gs_params=gs_params, cn_=cn_: any(isinstance(c.fn, C.Member) and c.fn.name == "erase" and cn_(c.fn.obj) in gs_params
                                                                 for c in (R.calls(n.ast) if n.ast is not None else []))
            R.k2_precede(run, "C07.f", fl, is_erase, lambda n, fl=fl: n.id == fl.cfg.exit, f"{cls}::start erases the recorder key before it returns")

    with run.obligation("C07.g", "K2", "process-wide scope stacks (push_X / pop_X pairs on the operator registry and its wrappers) are only pushed under an owner that pops on EVERY exit, "
                        "the exceptional one included: a constructor whose destructor pops, or a scope-exit guard declared right after the push; a wiring that fails "
                        "must not leave its scope behind for the next graph built in the process"):
        names: Dict[str, List] = {}
        for rel in run.tree.all_files():
            if not rel.startswith(("include/hgraph/", "src/hgraph/")) or "push_" not in run.tree.read(rel):
                continue
            for fd_ in run.tree.file(rel).funcs:
                names.setdefault(fd_.name, []).append((rel, fd_))
        # container methods of the value layer (push_back / pop_back, push_heap / pop_heap) are data operations, not scopes
        pairs = {nm: "pop_" + nm[5:] for nm in names if nm.startswith("push_") and ("pop_" + nm[5:]) in names and nm not in ("push_back", "push_front", "push_heap")}
        if len(pairs) < 3:
            raise AnalysisError("anchor-vanished", f"C07.g: found {sorted(pairs)} push/pop pairs, expected at least mesh_scope, context_scope, context_source")
        calls_pop = lambda node, pop: any(R.callee_name(c).split("::")[-1].split(".")[-1].split("->")[-1] == pop for c in R.calls(node))
        sites = 0
        for rel in run.tree.all_files():
            if not rel.startswith(("include/hgraph/", "src/hgraph/")):
                continue
            txt = run.tree.read(rel)
            if not any(p_ in txt for p_ in pairs):
                continue
            fi_ = run.tree.file(rel)
            for fd_ in fi_.funcs:
                if fd_.body is None or not any(p_ in fi_.text(fd_.body[0], fd_.body[1]) for p_ in pairs):
                    continue
                fa_ = R.parse(run, fd_, strict=False)
                for blk in [n for n in fa_.body.walk() if isinstance(n, C.Block)]:
                    for k, st in enumerate(blk.stmts):
                        if not isinstance(st, C.ExprStmt):
                            continue
                        for c in R.calls(st):
                            nm = R.callee_name(c).split("::")[-1].split(".")[-1].split("->")[-1]
                            if nm not in pairs:
                                continue
                            pop = pairs[nm]
                            sites += 1
                            # a forwarding wrapper that is itself one half of a pair (push_context_source -> push_context_scope)
                            if fd_.name in pairs:
                                continue
                            # RAII: constructor whose destructor pops
                            if fd_.cls and fd_.name == fd_.cls:
                                dtors = [f for f in fi_.funcs if f.cls == fd_.cls and f.name == "~" + fd_.cls and f.body is not None]
                                if dtors and all(calls_pop(R.parse(run, d_, strict=False).body, pop) or calls_pop(R.parse(run, d_, strict=False).body, pairs.get(fd_.name, pop))
                                                 for d_ in dtors):
                                    continue
                                # the destructor may pop through the wrapper's partner
                                if dtors and any(calls_pop(R.parse(run, d_, strict=False).body, p2) for d_ in dtors for p2 in pairs.values()):
                                    continue
                            # guard declared in the very next statement
                            nxt = blk.stmts[k + 1] if k + 1 < len(blk.stmts) else None
                            ok = False
                            if isinstance(nxt, C.Decl):
                                for d_ in nxt.decls:
                                    if d_.init is not None and any(R.callee_name(c2).split("::")[-1] == "make_scope_exit" and
                                                                   any(isinstance(a_, C.Lambda) and calls_pop(a_.body, pop) for a_ in c2.args)
                                                                   for c2 in R.calls(d_.init) + ([d_.init] if isinstance(d_.init, C.Call) else [])):
                                        ok = True
                            if not ok:
                                run.finding("C07.g", f"{fd_.qual}:{nm}:not-scoped", f"{fd_.qual} pushes {nm} without an owner that calls {pop} on every exit (no scope-exit guard "
                                            "directly after the push, not a constructor whose destructor pops): an exception between push and pop leaves the scope on the "
                                            "process-wide stack for every graph wired afterwards", loc=fa_.loc(st))
        run.count(sites, "C07.g")
        if run._cur is not None:
            run._cur["sites"] = sites
        if sites < 3:
            raise AnalysisError("anchor-vanished", f"C07.g: {sites} push sites found, expected at least 3")

    with run.obligation("C07.h", "K1", "a simulation run never takes a time from the host clock through the node scheduler: wall-clock alarms are refused unless the executor "
                        "supports them, and the scheduler handed to a static node supports them iff the executor is a real-time one (shared with C18.b, C18.b2, C18.f)"):
        from . import c18
        R.share(run, "C07.h", c18, ["C18.b", "C18.b2", "C18.f"])

    with run.obligation("C07.i", "K8", "the interning primitive returns ONE canonical address per key even when several executors build their types concurrently: the insertion "
                        "into the key index happens in the same critical section as a lookup that returns the existing entry (the unlocked factory may have raced), so a "
                        "loser never publishes a second copy of a plan / ops table that is compared by address"):
        IT = "include/hgraph/types/utils/intern_table.h"
        fi_ = run.tree.file(IT)
        n_ins = 0
        for fd_ in fi_.funcs:
            if fd_.body is None or fd_.cls != "InternTable" or "emplace" not in fi_.text(fd_.body[0], fd_.body[1]):
                continue
            fa_ = R.parse(run, fd_)
            cn_ = R.Canon()
            for blk in [b for b in fa_.body.walk() if isinstance(b, C.Block)]:
                for i_e, st in enumerate(blk.stmts):
                    if not (isinstance(st, C.ExprStmt) and any(isinstance(c.fn, C.Member) and c.fn.name == "emplace" and cn_(c.fn.obj) == "m_cache" for c in R.calls(st))):
                        continue
                    n_ins += 1
                    run.count(1, "C07.i")
                    locks = [i for i, s2 in enumerate(blk.stmts[:i_e]) if isinstance(s2, C.Decl) and "lock_guard" in cn_(s2.type if s2.type is not None else s2)
                             or (isinstance(s2, C.Decl) and any("lock" in (d.name or "") for d in s2.decls))]
                    if not locks:
                        run.finding("C07.i", f"InternTable::{fd_.name}:insert-outside-lock", f"InternTable::{fd_.name} inserts into the key index without holding the table mutex "
                                    "in the same block", loc=fa_.loc(st))
                        continue
                    i_l = locks[-1]
                    rechecks = [s2 for s2 in blk.stmts[i_l + 1:i_e] if isinstance(s2, C.If) and "m_cache.find(" in (cn_(s2.init) if s2.init is not None else "") + cn_(s2.cond)
                                and any(isinstance(x, C.Return) for x in s2.then.walk())]
                    if not rechecks:
                        run.finding("C07.i", f"InternTable::{fd_.name}:insert-without-recheck", f"InternTable::{fd_.name} inserts under the mutex without looking the key up in the "
                                    "same critical section: two threads interning the same new key each get their own copy (two addresses for one schema)", loc=fa_.loc(st))
        run.sites(n_ins, 2, "InternTable insertions")

    with run.obligation("C07.j", "K7", "a top-level wiring reads / writes its wiring-time global state through the SAME store that finish copies into the graph as the seed: "
                        "both sites select the user's live GlobalContext state iff `kind == TopLevel && live_seeded` (the flag fixed at construction); a wiring created "
                        "without a selected context never touches a context that happens to be open for another graph while it is composed"):
        GW = "src/hgraph/types/graph_wiring.cpp"

        def conj_of(e, cn_):
            out, st_ = set(), [e]
            while st_:
                x = st_.pop()
                if isinstance(x, C.Binary) and x.op == "&&":
                    st_ += [x.l, x.r]
                elif x is not None:
                    out.add(cn_(x).replace(" ", ""))
            return out
        fa_g = R.fn(run, GW, "Wiring::global_state")
        cg = R.Canon()
        sel_g = [i for i in fa_g.body.walk() if isinstance(i, C.If) and R.calls(i.then, "active_state")]
        run.sites(len(sel_g), 1, "global_state live-store selection")
        fa_f = R.fn(run, GW, "Wiring::finish_top_level")
        cf = R.Canon()
        sel_f = [n_ for n_ in fa_f.body.walk() if isinstance(n_, C.Ternary) and "active_state" in cf(n_.a) + cf(n_.b)]
        run.sites(len(sel_f), 1, "finish_top_level live-store selection")
        want = {"impl_->kind==WiringKind::TopLevel", "impl_->live_seeded"}
        run.count(2, "C07.j")
        g_c = conj_of(sel_g[0].cond, cg)
        f_c = conj_of(sel_f[0].c, cf)
        run.sample({"rule": "C07.j", "global_state": sorted(g_c), "finish_top_level": sorted(f_c)})
        if g_c != want:
            run.finding("C07.j", "Wiring::global_state:live-store-condition", f"Wiring::global_state() uses the active GlobalContext state when {sorted(g_c)}; finish selects the seed "
                        f"when {sorted(want)}: a wiring that was not live-seeded reads and writes another graph's selected state while it is composed, and its own seed "
                        "misses those writes", loc=fa_g.loc(sel_g[0]))
        if f_c != want:
            run.finding("C07.j", "Wiring::finish_top_level:live-store-condition", f"finish_top_level copies the active GlobalContext state as the seed when {sorted(f_c)}, but wiring-time "
                        f"reads and writes went through it only when {sorted(want)}", loc=fa_f.loc(sel_f[0]))
        # live_seeded is decided once, at construction, from the context selected THEN
        writes = R.field_writers(run.tree, "live_seeded", [GW])
        run.count(len(writes), "C07.j.writes")
        if len(writes) != 1 or not writes[0][1].endswith("Impl::Impl"):
            run.finding("C07.j", "live_seeded:writers", f"live_seeded must be set exactly once, in the constructor of the wiring: {[(w[1], w[3]) for w in writes]}", loc=GW)

    with run.obligation("C07.k", "K8", "the process-wide type-record registry (every value / time-series / node / graph / executor / clock type is interned through it, also from "
                        "executors that build their types concurrently) touches its map only under its mutex: every access of m_entries in a TypeRecordRegistry method "
                        "- the HIT path of intern() included: an unordered_map lookup races with a concurrent insertion's rehash - lies inside a lock_guard(m_mutex) scope"):
        TRR = "src/hgraph/types/metadata/type_record_registry.cpp"
        n_acc = 0
        for fd_ in run.tree.file(TRR).funcs:
            if fd_.body is None or fd_.cls != "TypeRecordRegistry" or "m_entries" not in run.tree.file(TRR).text(fd_.body[0], fd_.body[1]):
                continue
            fa_ = R.parse(run, fd_)
            for node_, fld_, held_ in R.lock_accesses(fa_, r"m_mutex", ["m_entries"]):
                n_acc += 1
                run.count(1, "C07.k")
                if not held_:
                    run.finding("C07.k", f"TypeRecordRegistry::{fd_.name}:m_entries-outside-lock", f"TypeRecordRegistry::{fd_.name} reads or writes m_entries without holding m_mutex: "
                                "a lookup that runs while another thread registers a new record walks a hash table that is being rehashed", loc=fa_.loc(node_))
        run.sites(n_acc, 6, "m_entries accesses")

    with run.obligation("C07.l", "K4", "a GraphBuilder is a reusable recipe whose compiled graph type is cached: every NON-CONST member that writes one of the fields the compiled "
                        "type depends on (nodes_, edges_, global_state_, label_) or hands out a mutable handle into one of them (global_state() view, node_at()) discards "
                        "the cached types - otherwise a builder that is reused after its seed / nodes were edited through the handle keeps building the OLD graph type "
                        "while a fresh builder with the same content builds the new one"):
        GR = "src/hgraph/runtime/graph.cpp"
        FIELDS = ("nodes_", "edges_", "global_state_", "label_")
        fi_ = run.tree.file(GR)
        n_m = 0
        for fd_ in fi_.funcs:
            if fd_.body is None or fd_.cls != "GraphBuilder" or fd_.name in ("GraphBuilder", "~GraphBuilder", "invalidate_types"):
                continue
            head = fi_.text(fd_.params[1], fd_.body[0]) if getattr(fd_, "params", None) else ""
            if re.search(r"\bconst\b", head):
                continue
            fa_ = R.parse(run, fd_, strict=False)
            cn_ = R.Canon()
            writes = [x for x in fa_.body.walk() if isinstance(x, C.Binary) and x.op in C._ASSIGN and cn_(x.l).split(".")[0].split("[")[0] in FIELDS]
            writes += [c for c in R.calls(fa_) if isinstance(c.fn, C.Member) and cn_(c.fn.obj).split("[")[0] in FIELDS and
                       c.fn.name in ("push_back", "emplace_back", "clear", "erase", "insert", "resize", "pop_back", "set")]
            hands = [r for r in R.find(fa_, lambda x: isinstance(x, C.Return)) if r.e is not None and any(cn_(r.e).startswith(f) for f in FIELDS)]
            if not writes and not hands:
                continue
            n_m += 1
            run.count(1, "C07.l")
            if not R.calls(fa_, "invalidate_types"):
                what = "writes " + cn_(writes[0].l if isinstance(writes[0], C.Binary) else writes[0].fn)[:40] if writes else "hands out " + cn_(hands[0].e)[:40]
                run.finding("C07.l", f"GraphBuilder::{fd_.name}:mutates-without-invalidating-types", f"GraphBuilder::{fd_.name} {what} without invalidate_types(): the builder's cached "
                            "graph type (and the realisation snapshot handed to nested graphs) no longer reflects its content", loc=fa_.loc(fa_.body))
        run.sites(n_m, 5, "mutating GraphBuilder members")

    with run.obligation("C07.m", "K2", "the copy-back of a run's final GlobalState into the user's selected state REPLACES it: GlobalStateView::copy_from assigns the whole store "
                        "unconditionally (apart from its null checks) - a short-circuit on `the source is empty` leaves the keys a run consumed in the selected state, and "
                        "the next graph built under the same context is seeded with them (a run's behaviour then depends on an earlier run)"):
        fa = R.fn(run, "src/hgraph/runtime/global_state.cpp", "GlobalStateView::copy_from")
        cn = R.aliases_of(fa)
        stores = [x for x in fa.body.walk() if isinstance(x, C.Binary) and x.op == "=" and cn(x.l).replace(" ", "") == "*map_"]
        run.sites(len(stores), 1, "store replacement")
        run.count(1, "C07.m")
        guards = [s0 for s0 in fa.body.stmts if isinstance(s0, C.If) and any(isinstance(x, C.Return) for x in s0.then.walk())]
        bad = [cn(g.cond).replace(" ", "") for g in guards if re.search(r"size\(\)|empty\(\)", cn(g.cond))]
        top = any(isinstance(st, C.ExprStmt) and st.e is stores[0] for st in fa.body.stmts)
        if bad or not top:
            run.finding("C07.m", "GlobalStateView::copy_from:conditional-replacement", f"copy_from does not always replace the destination store (early return when {bad or 'the assignment is nested'}): "
                        "an EMPTY final state is not copied back, so the selected state keeps what the run erased", loc=fa.loc(stores[0]))


VARIANTS = [
    {"id": "m-seed-C07-9-copy-back-skips-empty-source", "expect": "C07.m", "edits": [{"file": "src/hgraph/runtime/global_state.cpp", "find": "        *map_ = other.as_value();", "replace": "        if (other.size() == 0) { return; }\n        *map_ = other.as_value();"}]},
    {"id": "l-seed-C07-8-seed-accessor-keeps-cached-types", "expect": "C07.l", "edits": [{"file": "src/hgraph/runtime/graph.cpp", "find": "GlobalStateView GraphBuilder::global_state() noexcept {\n  invalidate_types();\n  return global_state_.view();", "replace": "GlobalStateView GraphBuilder::global_state() noexcept {\n  return global_state_.view();"}]},
    {"id": "k-seed-C07-7-intern-hit-path-before-lock", "expect": "C07.k", "edits": [{"file": "src/hgraph/types/metadata/type_record_registry.cpp", "find": "        validate(definition);\n\n        std::lock_guard lock(m_mutex);\n        if (const auto found = m_entries.find(definition.key); found != m_entries.end())", "replace": "        validate(definition);\n\n        if (const auto found = m_entries.find(definition.key); found != m_entries.end())"}]},
    {"id": "h-seed-C07-6-injected-scheduler-supports-wall-clock-in-simulation", "expect": "C07.h", "edits": [{"file": "include/hgraph/types/static_node.h", "find": "                const bool supports_wall_clock = executor.valid() &&\n                                                 executor.schema()->mode == GraphExecutorMode::RealTime;", "replace": "                const bool supports_wall_clock = executor.valid() && view.evaluation_clock().valid();"}]},
    {"id": "j-seed-C07-5-global-state-ignores-live-seeded", "expect": "C07.j", "edits": [{"file": "src/hgraph/types/graph_wiring.cpp", "find": "  if (impl_->kind == WiringKind::TopLevel && impl_->live_seeded) {\n    if (GlobalState *state = GlobalContext::active_state()) {", "replace": "  if (impl_->kind == WiringKind::TopLevel) {\n    if (GlobalState *state = GlobalContext::active_state()) {"}]},
    {"id": "j-finish-ignores-live-seeded", "expect": "C07.j", "edits": [{"file": "src/hgraph/types/graph_wiring.cpp", "find": "  GlobalState *live = impl_->kind == WiringKind::TopLevel && impl_->live_seeded\n", "replace": "  GlobalState *live = impl_->kind == WiringKind::TopLevel\n"}]},
    {"id": "i-intern-drops-recheck", "expect": "C07.i", "edits": [{"file": "include/hgraph/types/utils/intern_table.h", "find": "            std::lock_guard lock(m_mutex);\n            if (const auto it = m_cache.find(key); it != m_cache.end()) { return *it->second; }\n\n            const Value *result = value.get();", "replace": "            std::lock_guard lock(m_mutex);\n            const Value *result = value.get();"}]},
    {"id": "g-mesh-scope-popped-only-on-success", "expect": "C07.g", "edits": [{"file": "include/hgraph/lib/std/operators/impl/higher_order_impl.h", "find": "                auto pop = make_scope_exit([] noexcept { OperatorRegistry::instance().pop_mesh_scope(); });\n", "replace": ""}, {"file": "include/hgraph/lib/std/operators/impl/higher_order_impl.h", "find": "explicit_key_meta, &external_services, &w, \"mesh_\");\n", "replace": "explicit_key_meta, &external_services, &w, \"mesh_\");\n                OperatorRegistry::instance().pop_mesh_scope();\n"}]},
    {"id": "g-context-scope-destructor-forgets-pop", "expect": "C07.g", "edits": [{"file": "include/hgraph/types/context_wiring.h", "find": "        ~scope() { graph_wiring_detail::pop_context_source(); }", "replace": "        ~scope() {}"}]},
    {"id": "f-recorder-keeps-seeded-buffer-when-sparse", "expect": "C07.f", "edits": [{"file": "include/hgraph/lib/std/operators/impl/record_replay_memory_impl.h", "find": "                          Scalar<\"key\", std::string> key, Scalar<\"sparse\", Bool>, Scalar<\"model\", Str>,\n                          GlobalStateView gs, State<ResolvedBindings> bindings)", "replace": "                          Scalar<\"key\", std::string> key, Scalar<\"sparse\", Bool> sparse, Scalar<\"model\", Str>,\n                          GlobalStateView gs, State<ResolvedBindings> bindings)"}, {"file": "include/hgraph/lib/std/operators/impl/record_replay_memory_impl.h", "find": "            gs.erase(key.value());", "replace": "            if (!sparse.value()) { gs.erase(key.value()); }"}]},
    {"id": "f-twin-erase-first", "expect": None, "edits": [{"file": "include/hgraph/lib/std/operators/impl/record_replay_memory_impl.h", "find": "            bindings.set(ResolvedBindings{\n                .primary = testing::recording_binding_for(ts.base().schema()->delta_value_schema)});\n            gs.erase(key.value());", "replace": "            gs.erase(key.value());\n            bindings.set(ResolvedBindings{\n                .primary = testing::recording_binding_for(ts.base().schema()->delta_value_schema)});"}]},
    {"id": "c-marker-loses-thread-local", "expect": "C07.c", "edits": [{"file": "src/hgraph/runtime/global_state.cpp", "find": "        thread_local GlobalContext *active_global_context = nullptr;", "replace": "        GlobalContext *active_global_context = nullptr;"}]},
    {"id": "e-capture-context-lookup-ignores-same-cycle", "expect": "C07.e", "edits": [{"file": "src/hgraph/runtime/service_node.cpp", "find": "                    return context->path == path && context->storage_offset == storage_offset\n                        && context->same_cycle == same_cycle;", "replace": "                    return context->path == path && context->storage_offset == storage_offset;"}]},
    {"id": "a-sim-uses-wall", "expect": "C07.a", "edits": [{"file": EXEC, "find": "            const DateTime next = std::min(pending_time, state.end_time);\n            state.set_evaluation_time(next);\n            return next;", "replace": "            const DateTime next = std::min(std::max(pending_time, current_wall_time()), state.end_time);\n            state.set_evaluation_time(next);\n            return next;"}]},
    {"id": "b-shared-graph", "expect": "C07.b", "edits": [{"file": EXEC, "find": "                  graph(builder.graph_builder().make_root_graph(type.writable(executor_memory))),\n                  start_time(builder.start_time()),\n                  end_time(builder.end_time()),\n                  evaluation_time(start_time),\n                  cycle_wall_start(current_wall_time()),", "replace": "                  start_time(builder.start_time()),\n                  end_time(builder.end_time()),\n                  evaluation_time(start_time),\n                  cycle_wall_start(current_wall_time()),"}]},
    {"id": "c-new-static-in-executor", "expect": "C07.c", "edits": [{"file": EXEC, "find": "        [[nodiscard]] DateTime advance_simulation(SimulationExecutorStorage &state, DateTime next_scheduled_time)\n        {", "replace": "        [[nodiscard]] DateTime advance_simulation(SimulationExecutorStorage &state, DateTime next_scheduled_time)\n        {\n            static DateTime last_end_time = MIN_DT;\n            last_end_time = state.end_time;"}]},
    {"id": "c-new-static-in-operator", "expect": "C07.c", "edits": [{"file": "include/hgraph/lib/std/operators/impl/stream_impl.h", "find": "        static void eval(Scalar<\"hash\", Int>, Out<TS<Int>> out)\n        {", "replace": "        static void eval(Scalar<\"hash\", Int>, Out<TS<Int>> out)\n        {\n            static Int calls = 0;\n            ++calls;"}]},
    {"id": "d-cache-unlocked", "expect": "C07.d", "edits": [{"file": "src/hgraph/types/metadata/ts_data_window_ops.cpp", "find": "        std::lock_guard lock(window_plan_mutex());", "replace": "        static_cast<void>(window_plan_mutex());"}]},
    {"id": "c-twin-rename-irrelevant", "expect": None, "edits": [{"file": EXEC, "find": "            const DateTime next = std::min(pending_time, state.end_time);\n            state.set_evaluation_time(next);\n            return next;", "replace": "            const DateTime chosen = std::min(pending_time, state.end_time);\n            state.set_evaluation_time(chosen);\n            return chosen;"}]},
]
