"""C20 - Recording a time-series and replaying it reproduces the same ticks (partial)."""
from __future__ import annotations

import re

from .. import cparse as C
from ..canon import Canon
from ..index import AnalysisError
from ..k1 import ANY, Expect, Role
from ..report import Run
from .. import rules as R

ID = "C20"
PARTIAL = True
DELTA = "src/hgraph/types/time_series/ts_delta.cpp"
MEM = "include/hgraph/lib/std/operators/impl/record_replay_memory_impl.h"

TECHNIQUE = ("shape agreement of the capture / has-effect / apply slots in every TSData ops table (K5/K7), writer-reader field agreement and "
             "must-flow of delta fields (K7/K11), ordering of apply steps (K2), decision tables of the record / replay cursor logic (K1)")
EXPLANATION = (
    "PARTIAL: decides the structural agreement between the capture side and the apply side, and the record/replay cursor logic - not "
    "apply(capture(x)) = x for every shape and history. Decided: every TSData ops table wires capture/has-effect/apply functions of ONE shape "
    "(confirmed exceptions frozen with reasons); the set/dict delta bundles are written under the field names the apply side reads, each "
    "field filled only from its own source (added from added(), removed from removed()/removed_keys(), modified from modified_items()) and "
    "consumed only by its own operation (removed -> remove/erase, added -> add, modified -> at(key)+apply_delta); apply removes before it "
    "adds/modifies and touches last; capture skips exactly the children without a value; the dense recorder returns iff the input did not "
    "tick or the delta is unobservable, pads skipped cycles so index = cycle, and refuses oversized gaps; the sparse recorder appends exactly "
    "one (now, delta) entry per tick; replay applies dense entry i iff present and re-arms one smallest step later iff more entries remain, "
    "and applies sparse entries exactly at their recorded time, skipping older ones and re-arming at the next entry's own time. Not decided: "
    "the round trip itself for every nested shape; Value equality; buffer formats of the persistence extension.")
ASSUMPTIONS = ["BundleBuilder::set(name, v) stores v under `name`; Value builders copy what they are given", "cycle_offset(t) = (t - MIN_ST)/MIN_TD"]
DECIDED = ["a kind-consistent ops triples", "b writer/reader field agreement and content", "c apply order", "d capture skips exactly the unrepresentable",
           "e dense record alignment", "f replay cursor", "g sparse record",
           'm delta_has_effect_tsd answers no-effect only after the modified map was tested',
           'n recorder start erases its buffer in every layout (= C07.f)']
NOT_DECIDED = ["apply(capture(x)) = x for every shape/history", "Value equality", "persistence buffer formats"]

# confirmed exceptions of the shape-agreement rule (slot -> allowed function, reason)
TRIPLE_EXCEPTIONS = {
    ("ts_data_window_ops.cpp", "delta_has_effect_impl"): ("delta_has_effect_atomic", "a window tick always has effect (one pushed element)"),
    ("mapped_key_source.h", "apply_delta_impl"): ("missing_apply_delta", "the synthetic key source is read-only"),
    ("mapped_key_source.h", "delta_has_effect_impl"): ("delta_has_effect_atomic", "atomic key value"),
    ("ts_data_atomic_ops.cpp", "delta_has_effect_impl"): ("delta_has_effect_atomic", "TS / SIGNAL are the atomic shape"),
    ("ts_data_atomic_ops.cpp", "apply_delta_impl"): ("apply_delta_atomic", "TS / SIGNAL are the atomic shape"),
}
SHAPES = ("tss", "tsd", "tsl", "tsb", "tsw", "ts", "signal", "atomic")


def _shapes(expr: str):
    """shape suffixes of the function(s) named in a slot value (ternaries give several)."""
    out = []
    for m in re.finditer(r"(capture_delta|delta_has_effect|apply_delta)_(\w+)", expr):
        out.append(m.group(2))
    return out


def check(run: Run) -> None:
    t = run.tree

    with run.obligation("C20.a", "K5/K7", "every TSData ops table wires capture / has-effect / apply functions of one shape"):
        cn = Canon(keep_targs=True)
        tables = 0
        for rel in t.all_files():
            if "capture_delta_impl" not in t.read(rel):
                continue
            fi = t.file(rel)
            short = rel.split("/")[-1]
            for fd in fi.funcs:
                if "capture_delta_impl" not in fi.text(fd.body[0], fd.body[1]):
                    continue
                fa = R.parse(run, fd, strict=False)
                groups = []
                for n in fa.body.walk():
                    if isinstance(n, C.Init):
                        d = {e.name: cn(e.value) for e in n.elems if isinstance(e, C.Desig)}
                        if "capture_delta_impl" in d and ("apply_delta_impl" in d or "delta_has_effect_impl" in d):
                            groups.append(d)
                asg = {}
                for n in fa.body.walk():
                    if isinstance(n, C.Binary) and n.op == "=" and isinstance(n.l, C.Member) and n.l.name in ("capture_delta_impl", "apply_delta_impl", "delta_has_effect_impl"):
                        asg[n.l.name] = cn(n.r)
                if len(asg) >= 2:
                    groups.append(asg)
                for d in groups:
                    tables += 1
                    run.count(1)
                    cap = _shapes(d.get("capture_delta_impl", ""))
                    if not cap:
                        continue  # forwarding tables (target links) name no shape
                    for slot in ("delta_has_effect_impl", "apply_delta_impl"):
                        if slot not in d:
                            continue
                        got = _shapes(d[slot])
                        exc = TRIPLE_EXCEPTIONS.get((short, slot))
                        if exc is not None and exc[0] in d[slot]:
                            continue
                        if not got and "missing_apply_delta" in d[slot] and (short, slot) in TRIPLE_EXCEPTIONS:
                            continue
                        norm = lambda xs: [("atomic" if x in ("ts", "signal") else x) for x in xs]
                        if norm(got) != norm(cap):
                            run.finding("C20.a", f"{short}:{fd.name}:{slot}", f"{short}::{fd.name}: capture is `{d['capture_delta_impl']}` but {slot} is "
                                        f"`{d[slot]}` (a different shape): a recorded delta would be replayed with another shape's rules", loc=f"{rel}:{fd.line}")
                    run.sample({"rule": "C20.a", "table": f"{short}::{fd.name}", "capture": d.get("capture_delta_impl"), "apply": d.get("apply_delta_impl")})
        run.sites(tables, 9, "delta ops tables")

    with run.obligation("C20.b", "K7+K11", "set/dict delta fields: written under the names the apply side reads; each field filled only from its own "
                        "source and consumed only by its own operation; index constants agree with the names"):
        fa = R.fn(run, DELTA, "capture_delta_tss")
        _check_capture(run, fa, {"added": r"(set|in\.as_set\(\))\.added\(\)", "removed": r"(set|in\.as_set\(\))\.removed\(\)"}, "capture_delta_tss")
        fa = R.fn(run, DELTA, "capture_delta_tsd")
        _check_capture(run, fa, {"removed": r"(dict|in\.as_dict\(\))\.removed_keys\(\)", "modified": r"(dict|in\.as_dict\(\))\.modified_items\(\)"}, "capture_delta_tsd",
                       via={"removed": "removed_delta", "modified": "modified_delta"})
        # index constants
        txt = t.read(DELTA)
        consts = dict(re.findall(r"inline constexpr std::size_t (t\w+_delta_\w+)\s*=\s*(\d+);", txt))
        run.count(len(consts), "C20.b.consts")
        for need in ("tss_delta_added", "tss_delta_removed", "tsd_delta_removed", "tsd_delta_modified"):
            if need not in consts:
                raise AnalysisError("anchor-vanished", f"index constant {need} not found")
        if consts["tss_delta_added"] == consts["tss_delta_removed"] or consts["tsd_delta_removed"] == consts["tsd_delta_modified"]:
            run.finding("C20.b", "delta-index-constants", f"delta field indices collide: {consts}", loc=DELTA)
        for fname, fields in (("apply_delta_tss", {"tss_delta_added": "added", "tss_delta_removed": "removed"}),
                              ("apply_delta_tsd", {"tsd_delta_removed": "removed", "tsd_delta_modified": "modified"})):
            fa = R.fn(run, DELTA, fname)
            cn = R.aliases_of(fa)
            # asserted name <-> constant
            for c in R.calls(fa, "delta_field_is"):
                k, nm = cn(c.args[1]), cn(c.args[2]).strip('"')
                run.count(1)
                if k in fields and fields[k] != nm:
                    run.finding("C20.b", f"{fname}:{k}", f"{fname} reads index {k} as field \"{nm}\"", loc=fa.loc(c))
                if not k.endswith(nm):
                    run.finding("C20.b", f"{fname}:{k}:{nm}", f"index constant {k} is paired with field name \"{nm}\"", loc=fa.loc(c))
            # consumption: local <field> = bundle.at(<const>)... ; loop over it calls the matching op
            ops = {"removed": ("remove", "erase"), "added": ("add",), "modified": ("at", "apply_delta"), "removed_strict": ("erase",)}
            decls = {d.name: cn(d.init) for d in R.find(fa, lambda n: isinstance(n, C.Declarator) and n.init is not None)}
            for local, init in decls.items():
                m = re.search(r"bundle\.at\((\w+)\)", init)
                if not m or local not in ops:
                    continue
                k = m.group(1)
                run.count(1)
                if not k.endswith("_" + local):
                    run.finding("C20.b", f"{fname}:{local}<-{k}", f"{fname}: local `{local}` is read from {k}", loc=DELTA)
                for l in R.loops(fa):
                    rng = cn(l.range) if isinstance(l, C.RangeFor) else (cn(l.cond) if l.cond is not None else "")
                    if re.search(rf"\b{local}\b", rng) is None:
                        continue
                    called = {R.callee_name(c) for c in R.calls(l.body)}
                    good = set(ops[local])
                    bad = called & ({"remove", "erase", "add"} - good)
                    if bad or not (called & good):
                        run.finding("C20.b", f"{fname}:{local}:ops", f"{fname}: the `{local}` field is applied with {sorted(called & {'remove', 'erase', 'add', 'at'})}",
                                    loc=fa.loc(l))

    with run.obligation("C20.c", "K2", "apply_delta_tss / apply_delta_tsd remove before they add / modify, and touch last"):
        for fname, first, later in (("apply_delta_tss", ("remove",), ("add",)), ("apply_delta_tsd", ("erase",), ("at", "apply_delta"))):
            fa = R.fn(run, DELTA, fname)
            fl = R.flow(run, fa)
            a = lambda n, first=first: n.kind == "call" and n.name in first and n.recv == "mutation"
            b = lambda n, later=later: n.kind == "call" and ((n.name in later and n.recv == "mutation") or (n.name == "apply_delta" and "apply_delta" in later))
            R.require_nodes(run, fl, a, f"{fname} removals")
            R.require_nodes(run, fl, b, f"{fname} additions")
            R.k2_never_after(run, "C20.c", fl, b, a, f"{fname}: a removal applied after an addition/modification")
            touch = lambda n: n.kind == "call" and n.name == "touch" and n.recv == "mutation"
            R.k2_never_after(run, "C20.c", fl, touch, R.either(a, b), f"{fname}: a mutation after the trailing touch()")
            R.k2_follow(run, "C20.c", fl, lambda n: n.id == fl.cfg.entry, touch, f"{fname}: every application ends with touch()", exits="normal")

    with run.obligation("C20.d", "K1+K7", "capture skips exactly the children without a value: TSD and TSL visit every modified item and skip iff "
                        "!child.valid(); TSB visits every field and skips iff !child.modified() || !child.valid(); no early exit"):
        def disj(e, cn):
            if isinstance(e, C.Binary) and e.op == "||":
                return disj(e.l, cn) | disj(e.r, cn)
            return {cn(e).replace(" ", "")}
        n = 0
        for name, want in (("capture_delta_tsd", {"!child.valid()"}), ("capture_delta_tsl", {"!child.valid()"}),
                           ("capture_delta_tsb", {"!child.modified()", "!child.valid()"})):
            fa = R.fn(run, DELTA, name)
            cn = R.aliases_of(fa)
            if name == "capture_delta_tsb":
                lp = [l for l in R.loops(fa) if isinstance(l, C.For) and l.cond is not None and "bundle.size()" in cn(l.cond)]
            else:
                lp = [l for l in R.loops(fa) if isinstance(l, C.RangeFor) and "modified_items" in cn(l.range)]
            run.sites(len(lp), 1, f"{name} child loop")
            n += 1
            guards = [s for s in lp[0].body.walk() if isinstance(s, C.If) and any(isinstance(x, C.Continue) for x in R._own_jumps(s.then)) and
                      not R.calls(s.then, "set_item_copy") and not R.calls(s.then, "set")]
            got = set()
            for g in guards:
                got |= disj(g.cond, cn)
            run.count(1, f"C20.d.{name}")
            if got != want:
                run.finding("C20.d", f"{name}:skips", f"{name} may skip a child only when {sorted(want)}; it skips when {sorted(got)} (a stricter guard drops "
                            "ticks of children that are valid but not all-valid, a weaker one captures children without a value)", loc=fa.loc(lp[0]))
            sh = R.loop_shape(lp[0], cn)
            if sh["breaks"] or sh["returns"]:
                run.finding("C20.d", f"{name}:early-exit", "every modified child must be captured", loc=fa.loc(lp[0]))
            if name == "capture_delta_tsb" and not (sh.get("init") == "0" and sh.get("cond_op") == "<" and sh.get("step") == "++"):
                run.finding("C20.d", f"{name}:loop", f"the bundle capture must visit every field once: {sh}", loc=fa.loc(lp[0]))
        run.sites(n, 3, "container captures")

    with run.obligation("C20.e", "K1+K3", "dense record: returns iff not modified or unobservable; pads while size < cycle_offset(now) then pushes the delta; "
                        "refuses gaps > max_dense_cycles"):
        fa = _method(run, "dense_record_impl", "eval")
        cn = R.aliases_of(fa)
        st = fa.body.stmts
        run.count(1, "C20.e.prefix")
        # the returning guards at the top level of the body, in order, up to the first statement that is not a guard or a declaration
        # (position independent: a trace line or a local before / between them changes nothing)
        pre = []
        for s0 in st:
            if isinstance(s0, C.If) and s0.els is None and any(isinstance(x, C.Return) for x in s0.then.walk()):
                pre.append(cn(s0.cond))
            elif isinstance(s0, (C.While, C.For, C.RangeFor, C.DoWhile)):
                break
        if pre[:1] != ["!ts.modified()"] or not any(p.startswith("!delta_is_observable(") for p in pre):
            run.finding("C20.e", "dense_record:gates", f"the recorder must return iff the input did not tick / the delta is unobservable: {pre}", loc=MEM)
        d = {x.name: cn(x.init) for x in R.find(fa, lambda n: isinstance(n, C.Declarator) and n.init is not None)}
        if d.get("offset") != "testing::cycle_offset(now)" or d.get("delta") != "capture_delta(ts.base())":
            run.finding("C20.e", "dense_record:offset", f"index must be the evaluation cycle and the value the captured delta: offset={d.get('offset')} delta={d.get('delta')}", loc=MEM)
        wl = [l for l in R.loops(fa) if isinstance(l, C.While)]
        okw = wl and cn(wl[0].cond).replace(" ", "") in ("size<offset", "offset>size") and [R.callee_name(c) for c in R.calls(wl[0].body)] == ["push_back_unset"] and \
            any(isinstance(n, (C.Unary, C.Postfix)) and n.op == "++" and cn(n.e) == "size" for n in wl[0].body.walk())
        if not okw:
            run.finding("C20.e", "dense_record:padding", "skipped cycles must be padded with unset entries until size == cycle offset", loc=MEM)
        fl = R.flow(run, fa)
        pb = lambda n: n.kind == "call" and n.name == "push_back" and n.args == ("delta.view()",)
        R.k2_precede(run, "C20.e", fl, lambda n: n.kind == "cond" and n.label.replace(" ", "") == "size<offset", pb, "padding precedes the delta push")
        thr = [s for s in fa.body.walk() if isinstance(s, C.If) and cn(s.cond).replace(" ", "") == "(offset-size)>testing::max_dense_cycles" and any(isinstance(x, C.Throw) for x in s.then.walk())]
        if not thr:
            run.finding("C20.e", "dense_record:gap-limit", "an oversized gap must be refused", loc=MEM)

    with run.obligation("C20.g", "K1", "sparse record: returns iff not modified, otherwise appends exactly one (now, captured delta) entry"):
        fa = _method(run, "sparse_record_impl", "eval")
        roles = [Role("MOD", "bool", r"ts\.modified\(\)"), Role("VALID", "bool", r"gs\.get\(.*\)\.valid\(\)")]

        def spec(v):
            if not v.b("MOD"):
                return Expect(calls=[])
            calls = [("CAPTURE", (ANY,))]
            if not v.b("VALID"):
                calls.append(("SEED", (ANY, ANY)))
            calls += [("ENTRY", (ANY, ("sym", "now"), ANY)), ("PUSH", (ANY,))]
            return Expect(calls=calls)
        R.k1(run, "C20.g", fa, roles, spec, role_calls={"CAPTURE": r"capture_delta", "SEED": r"gs\.set", "ENTRY": r"testing::make_sparse_entry",
                                                       "PUSH": r".*begin_mutation\(\)\.push_back|mutation\.push_back"}, what="sparse_record_impl::eval")

    with run.obligation("C20.f", "K1/K2", "replay: dense - apply entry i iff i < size and present, index := i+1, re-arm MIN_TD later iff i+1 < size; "
                        "sparse - skip older, apply equal, stop at later, store the cursor, re-arm at the next entry's own time iff later"):
        fa = _method(run, "replay_impl", "eval")
        cn = R.aliases_of(fa)
        dense = [s for s in fa.body.stmts if isinstance(s, C.If) and cn(s.cond) == "recordable_id.value().empty()"]
        run.sites(len(dense), 1, "dense branch")
        roles = [Role("BUFVALID", "bool", r"gs\.get\(key\.value\(\)\)\.valid\(\)"), Role("I", "n", r"cursor\.modify\(\)\.index", lvalue=True),
                 Role("I1", "n", None, succ_of="I"), Role("SIZE", "n", r"gs\.get\(key\.value\(\)\)\.as_list\(\)\.size\(\)"),
                 Role("PRESENT", "bool", r"testing::dense_entry_delta\(.*\)\.has_value\(\)")]

        def spec_dense(v):
            if not v.b("BUFVALID"):
                return Expect(calls=[], ret=None)
            calls = []
            if v.lt("I", "SIZE") and v.b("PRESENT"):
                calls.append(("APPLY", (ANY, ANY)))
            if v.lt("I1", "SIZE"):
                calls.append(("SCHEDULE", (("sym", "MIN_TD"),)))
            return Expect(calls=calls, stores={"I": "I1"})
        R.k1(run, "C20.f", fa, roles, spec_dense, unit=dense[0].then, role_calls={"APPLY": r"apply_delta", "SCHEDULE": r"sched\.schedule"},
             what="replay_impl::eval (dense)")
        # sparse: loop shape by conditions
        wl = [l for l in fa.body.stmts if isinstance(l, C.While)]
        run.sites(len(wl), 1, "sparse entry loop")
        conds = [(cn(s.cond).replace(" ", ""), [type(x).__name__ for x in s.then.walk() if isinstance(x, (C.Continue, C.Break))]) for s in wl[0].body.stmts if isinstance(s, C.If)]
        run.count(1, "C20.f.sparse")
        if conds != [("when<now", ["Continue"]), ("when>now", ["Break"])]:
            run.finding("C20.f", "replay:sparse-skip", f"older entries are skipped, later ones stop the scan: {conds}", loc=MEM)
        if cn(wl[0].cond).replace(" ", "") != "current<entries.size()":
            run.finding("C20.f", "replay:sparse-bound", f"scan bound: {cn(wl[0].cond)}", loc=MEM)
        app = [c for c in R.calls(wl[0].body, "apply_delta")]
        if len(app) != 1 or [cn(a) for a in app[0].args] != ["out", "entry.at(1)"]:
            run.finding("C20.f", "replay:sparse-apply", "the entry whose time equals now is applied (its delta is field 1)", loc=MEM)
        d = {x.name: cn(x.init) for x in R.find(wl[0].body, lambda n: isinstance(n, C.Declarator) and n.init is not None)}
        if d.get("when", "").replace(" ", "") != "entry.at(0).checked_as()" and "entry.at(0)" not in d.get("when", ""):
            run.finding("C20.f", "replay:sparse-time", f"the entry time is field 0: {d.get('when')}", loc=MEM)
        idx = fa.body.stmts.index(wl[0])
        after = fa.body.stmts[idx + 1:]
        stc = [s for s in after if isinstance(s, C.ExprStmt) and cn(s.e).replace(" ", "").startswith("cursor.modify().index=")]
        if not stc:
            run.finding("C20.f", "replay:cursor-store", "the cursor must be stored after the scan", loc=MEM)
        re_ = [s for s in after if isinstance(s, C.If) and cn(s.cond).replace(" ", "") == "current<entries.size()"]
        okr = re_ and any(isinstance(x, C.If) and cn(x.cond).replace(" ", "") == "when>now" and [cn(a) for c in R.calls(x.then, "schedule") for a in c.args] == ["when"] for x in re_[0].then.walk())
        if not okr:
            run.finding("C20.f", "replay:sparse-rearm", "replay must re-arm at the next entry's own recorded time iff it is later than now", loc=MEM)
        if not _has_static_true(run, "replay_impl", "schedule_on_start"):
            run.finding("C20.f", "replay:schedule-on-start", "replay must schedule itself at start", loc=MEM)

    with run.obligation("C20.h", "K7", "record side and replay side agree on the EMPTY structural delta of sets and dictionaries: a tick the recorder "
                        "keeps (delta_is_observable) is a tick the replayer applies (delta_has_effect), and a child that did not tick is never captured "
                        "as a value the replayer treats as a tick (two KNOWN FINDINGS on the current tree)"):
        n = 0
        for kind, obs, eff in (("tss", "observable_set", "delta_has_effect_tss"), ("tsd", "observable_dict", "delta_has_effect_tsd")):
            fo = R.fn(run, DELTA, obs)
            fe = R.fn(run, DELTA, eff)
            co, ce = R.aliases_of(fo), R.aliases_of(fe)
            # record side: a modified VALID series is observable whatever the delta contains
            valid_first = [s for s in fo.body.stmts if isinstance(s, C.If) and co(s.cond).replace(" ", "") == "input.valid()" and
                           [co(r.e) for r in R.find(s.then, lambda x: isinstance(x, C.Return))] == ["true"]]
            # replay side: the fall-through for a delta without structural content
            last = fe.body.stmts[-1]
            tail = ce(last.e).replace(" ", "") if isinstance(last, C.Return) and last.e is not None else None
            n += 1
            run.count(1, f"C20.h.{kind}")
            run.sample({"rule": "C20.h", "kind": kind, "recorder_keeps_empty_tick_of_valid_series": bool(valid_first), "replay_fallthrough": tail})
            if tail is None:
                raise AnalysisError("model-mismatch", f"{eff}: the empty-delta fall-through is not a return statement")
            if valid_first and tail != "true":
                run.finding("C20.h", f"{eff}:recorded-empty-tick-dropped", f"{obs} keeps the tick of a VALID series whose delta is empty (e.g. a key added and "
                            f"removed in one cycle) but {eff} returns `{tail}` for it: the recorded cycle is not replayed", loc=fe.loc(last))
        run.sites(n, 2, "keyed shapes")
        fa = R.fn(run, DELTA, "capture_delta_tsb")
        cn = R.aliases_of(fa)
        pre = R.calls(fa, "initialize_tsb_delta_defaults")
        fd = R.fn(run, DELTA, "initialize_tsb_delta_defaults")
        cd = R.aliases_of(fd)
        fills = [c for c in R.calls(fd, "set") if any("empty" in cd(a) for a in c.args)]
        effs = {}
        for eff in ("delta_has_effect_tss", "delta_has_effect_tsd"):
            fe = R.fn(run, DELTA, eff)
            last = fe.body.stmts[-1]
            effs[eff] = R.aliases_of(fe)(last.e).replace(" ", "") if isinstance(last, C.Return) and last.e is not None else None
        run.count(1, "C20.h.tsb-default")
        if pre and fills and any(v not in ("false",) for v in effs.values()):
            run.finding("C20.h", "capture_delta_tsb:unticked-collection-field-captured-as-empty-tick", "capture_delta_tsb pre-fills every collection field that "
                        "did NOT tick with its empty delta, and the replay side treats an empty delta as a (validating) tick of a not-yet-valid set / "
                        f"dictionary ({effs}): after replay the field is valid and modified although the original never ticked it", loc=fa.loc(pre[0]))

    with run.obligation("C20.i", "K3+K11", "recovery fold (recorded_seed_resolver): the recorded entries are applied in buffer order, each delta at ITS OWN recorded time "
                        "(a view of the accumulator taken inside the loop at the entry's time), never beyond the start time, and the folded value is read at the start "
                        "time; folding two recorded cycles into one engine time merges remove / re-add of a key and breaks 'pre-tick state + delta = post-tick state'"):
        fa = R.fn(run, "src/hgraph/types/record_replay.cpp", "recorded_seed_resolver")
        cn = R.aliases_of(fa)
        inits: Dict[str, C.Node] = {}
        for n_ in fa.body.walk():
            if isinstance(n_, C.Declarator) and n_.name and n_.init is not None and not n_.bindings:
                inits.setdefault(n_.name, n_.init)
        applies = R.calls(fa, "apply_delta")
        run.count(len(applies), "C20.i")
        if len(applies) != 1:
            raise AnalysisError("anchor-vanished", f"C20.i: {len(applies)} apply_delta calls in recorded_seed_resolver")
        call = applies[0]
        loops_ = [l for l in R.loops(fa) if any(x is call for x in l.walk())]
        if not loops_:
            run.finding("C20.i", "recorded_seed_resolver:apply-outside-loop", "apply_delta is not inside the loop over the recorded entries", loc=fa.loc(call))
        else:
            loop = loops_[-1]
            sh = R.loop_shape(loop, cn)
            if not (sh.get("kind") == "RangeFor" or (sh.get("init") == "0" and sh.get("cond_op") == "<" and sh.get("step") == "++" and not sh.get("body_writes_var"))):
                run.finding("C20.i", "recorded_seed_resolver:loop-shape", f"the fold does not visit the recorded entries once each in buffer order: {sh}", loc=fa.loc(loop))
            # names that change per iteration: the loop variable(s) and every local of the loop body derived from one
            dep = set(n for n in ([sh.get("var")] if sh.get("var") else []) + list(getattr(loop, "names", None) or []) if n)
            body_decls = [n_ for n_ in loop.body.walk() if isinstance(n_, C.Declarator) and n_.name and n_.init is not None]
            changed = True
            while changed:
                changed = False
                for d_ in body_decls:
                    if d_.name not in dep and any(isinstance(x, C.Id) and x.name in dep for x in d_.init.walk()):
                        dep.add(d_.name)
                        changed = True
            def expand(e, depth=0):
                while isinstance(e, C.Id) and e.name in inits and depth < 6:
                    e = inits[e.name]
                    depth += 1
                return e
            target = expand(call.args[0]) if call.args else None
            ok = isinstance(target, C.Call) and isinstance(target.fn, C.Member) and target.fn.name == "view" and len(target.args) == 1
            if ok:
                t_arg = target.args[0]
                t_dep = any(isinstance(x, C.Id) and x.name in dep for x in t_arg.walk())
                # the time must come from the entry's time field (index 0 of the (time, delta) entry)
                t_src = expand(t_arg)
                from_entry = any(isinstance(x, C.Call) and isinstance(x.fn, C.Member) and x.fn.name == "at" and x.args and cn(x.args[0]) == "0" for x in t_src.walk())
                if not (t_dep and from_entry):
                    ok = False
            if not ok:
                run.finding("C20.i", "recorded_seed_resolver:delta-not-applied-at-its-own-time", "the recorded delta is not applied through a view of the accumulator taken at the "
                            f"entry's own recorded time (apply_delta target: {cn(call.args[0]) if call.args else '?'}): deltas of different recorded cycles are folded into "
                            "one engine time", loc=fa.loc(call))
            # the delta applied is the entry's delta field
            d_src = expand(call.args[1]) if len(call.args) > 1 else None
            if not (d_src is not None and any(isinstance(x, C.Call) and isinstance(x.fn, C.Member) and x.fn.name == "at" and x.args and cn(x.args[0]) == "1" for x in d_src.walk())
                    and any(isinstance(x, C.Id) and x.name in dep for x in d_src.walk())):
                run.finding("C20.i", "recorded_seed_resolver:wrong-delta-field", "apply_delta is not given field 1 (the delta) of the current entry", loc=fa.loc(call))
            # entries later than the start time are never folded: the loop leaves at the first entry with when > start_time
            fl = R.flow(run, fa)
            R.k2_precede(run, "C20.i", fl, lambda n: n.kind == "cond" and re.sub(r"\s", "", n.label) in ("when>start_time", "start_time<when", "when<=start_time", "start_time>=when"),
                         R.call_is(name="apply_delta"), "the entry's time is compared with the start time before its delta is applied")

    with run.obligation("C20.j", "K9+K2", "the list storages that hold a recording buffer mark a cycle WITHOUT a tick as an unset element (validity bitmap): every copy of such a storage "
                        "(GlobalState copy-in / copy-back) carries the bitmap on its full-copy path, so a hole never turns into a default-valued tick"):
        n_cls = 0
        for rel in run.tree.all_files():
            if not rel.startswith("include/hgraph/types/value/") or "validity_" not in run.tree.read(rel):
                continue
            fi_ = run.tree.file(rel)
            for fd_ in fi_.funcs:
                if fd_.name != "copy_from" or fd_.body is None or not fd_.cls:
                    continue
                try:
                    sd_ = run.tree.struct(rel, fd_.cls)
                except AnalysisError:
                    continue
                if not any(f.name == "validity_" for f in sd_.fields):
                    continue
                fa_ = R.parse(run, fd_)
                if len(fa_.params) != 1 or fd_.cls not in fa_.params[0][0]:
                    continue
                src = fa_.params[0][1]
                n_cls += 1
                fl = R.flow(run, fa_)
                is_ret = lambda n: n.kind == "stmt" and n.label.startswith("return")
                for field in ("validity_",):  # size_ is rebuilt by a counting loop in one of the two classes; the bitmap has no other source than the copy
                    if not any(f.name == field for f in sd_.fields):
                        continue
                    wr = lambda n, field=field, src=src: n.kind in ("stmt", "decl") and any(
                        l == field and (re.search(r"\b" + re.escape(src) + r"\b", r) or (field == "size_" and r == "++")) for l, r in n.stores)
                    w = fl.reach([fl.start], avoid=lambda n, wr=wr: wr(n) or is_ret(n), targets=lambda n, fl=fl: n.id == fl.cfg.exit, after_source=False)
                    run.count(1, "C20.j")
                    if w is not None:
                        run.finding("C20.j", f"{fd_.cls}::copy_from:{field}-not-copied", f"{fd_.cls}::copy_from reaches its end on the full-copy path without taking `{field}` from "
                                    f"the source ({fl.path_text(w)}): a copied recording buffer loses its no-tick holes", loc=fa_.loc(fa_.body))
        if run._cur is not None:
            run._cur["sites"] = n_cls
        if n_cls < 2:
            raise AnalysisError("anchor-vanished", f"C20.j: {n_cls} list storages with a validity bitmap and a copy_from, expected ListStorage and MutableListStorage")

    with run.obligation("C20.k", "K7", "the full-state capture recurses as a full-state capture: every capture_current_* function (set / dict / list / bundle) captures its "
                        "children with capture_current_delta, never with the per-cycle capture_delta - a nested collection rebuilt from the snapshot would otherwise "
                        "hold only what each child did in the current cycle"):
        fi_ = run.tree.file(DELTA)
        n_cur = 0
        for fd_ in fi_.funcs:
            if fd_.body is None or not fd_.name.startswith("capture_current_") or fd_.name == "capture_current_delta":
                continue
            fa_ = R.parse(run, fd_)
            names = [R.callee_name(c) for c in R.calls(fa_)]
            loops_ = R.loops(fa_)
            if not loops_:
                continue   # leaf kinds (atomic / window / reference: capture_current_transient) have no children to recurse into
            n_cur += 1
            run.count(1, "C20.k")
            if any(R.callee_name(c) == "capture_delta" for l in loops_ for c in R.calls(l.body)):
                run.finding("C20.k", f"{fd_.name}:recurses-with-per-cycle-capture", f"{fd_.name} captures a child with capture_delta (this cycle's changes) instead of "
                            "capture_current_delta: elements added to the child in earlier cycles are missing from the full-state snapshot", loc=fa_.loc(fa_.body))
            if fd_.name in ("capture_current_dict", "capture_current_list", "capture_current_bundle") and "capture_current_delta" not in names:
                run.finding("C20.k", f"{fd_.name}:children-not-captured", f"{fd_.name} no longer captures its children through capture_current_delta", loc=fa_.loc(fa_.body))
        run.sites(n_cur, 4, "capture_current_* container functions")

    with run.obligation("C20.l", "K2", "a recovering component forwards the live tick of its start cycle as well: in recovering_pass_through::eval no path that publishes the "
                        "recovered seed leaves the evaluation before the `ts.modified()` forwarding (seed first, then this cycle's delta on top)"):
        fa = R.fn(run, "include/hgraph/lib/std/component.h", "recovering_pass_through::eval")
        fl = R.flow(run, fa)
        seed = R.call_is(name="apply", recv=r"out")
        live = lambda n: n.kind == "cond" and re.sub(r"\s", "", n.label) == "ts.modified()"
        run.count(1, "C20.l")
        if not fl.nodes_of(live):
            run.finding("C20.l", "recovering_pass_through:no-live-forwarding", "the live input is no longer tested with ts.modified()", loc=fa.loc(fa.body))
        else:
            R.k2_follow(run, "C20.l", fl, seed, live, "after the recovered seed is published the evaluation still reaches the live-tick forwarding", exits="normal")
            R.k2_precede(run, "C20.l", fl, R.call_is(name="recorded_seed_resolver"), seed, "the seed is resolved before it is published")
            w = fl.reach([fl.start], targets=lambda n, fl=fl: n.id == fl.cfg.exit, avoid=live, after_source=False)
            if w is not None:
                run.finding("C20.l", "recovering_pass_through:exit-before-live-forwarding", "an evaluation can end before the live input is looked at: " + fl.path_text(w),
                            loc=fl.cfg.describe(w[-1][0]))

    with run.obligation("C20.m", "K2", "replay applies every recorded dictionary tick that carries modifications: delta_has_effect_tsd answers `no effect` (return false) only after "
                        "it has looked at the delta's `modified` map and found it empty - the lenient-removal arm (`none of the removed keys exists -> false`) must not be "
                        "reachable for a delta that also updates other keys, or the whole tick is dropped on replay"):
        fa = R.fn(run, DELTA, "delta_has_effect_tsd")
        fl = R.flow(run, fa)
        sub = R.const_locals(fa)                                 # `const auto modified = bundle.at(tsd_delta_modified).as_map();`
        mod_test = lambda n: n.kind == "cond" and "tsd_delta_modified" in sub(n.label) and "size()" in n.label
        no_effect = lambda n: n.kind == "stmt" and n.label.replace(" ", "") == "returnfalse" and not (n.ast is not None and fa.line(n.ast) <= first_guard_line)
        guards0 = [s0 for s0 in fa.body.stmts if isinstance(s0, C.If) and "has_value()" in R.Canon()(s0.cond)]
        first_guard_line = fa.line(guards0[0]) + 0 if guards0 else -1
        if guards0:
            first_guard_line = max(fa.line(x) for x in guards0[0].walk() if getattr(x, "ti", -1) is not None and x.ti >= 0)
        R.require_nodes(run, fl, mod_test, "the test of the delta's modified map")
        R.require_nodes(run, fl, no_effect, "a `return false` after the has_value guard")
        run.count(1, "C20.m")
        w = fl.must_precede(mod_test, no_effect)
        if w is not None:
            run.finding("C20.m", "delta_has_effect_tsd:no-effect-before-modified-test", "delta_has_effect_tsd can answer `no effect` for a delta whose `modified` map was never looked "
                        f"at: a recorded tick {{removed: [absent key], modified: {{k: v}}}} is skipped on replay: {fl.path_text(w)}", loc=fl.cfg.describe(w[-1][0]))
        # and a non-empty modified map means `has an effect`
        cn_m = R.aliases_of(fa)
        tests = [s0 for s0 in fa.body.walk() if isinstance(s0, C.If) and "tsd_delta_modified" in sub(cn_m(s0.cond)) and "size()" in cn_m(s0.cond) and
                 re.search(r"!=0|0!=", cn_m(s0.cond).replace(" ", ""))]
        tests = [s0 for s0 in tests if [R.Canon()(r.e) for r in R.find(s0.then, lambda x: isinstance(x, C.Return))] == ["true"]]
        if not tests:
            run.finding("C20.m", "delta_has_effect_tsd:modified-not-an-effect", "a delta with a non-empty `modified` map must have an effect (return true)", loc=fa.loc(fa.body))

    with run.obligation("C20.n", "K2", "a recording made in one run does not begin with the ticks of the run before it: the harness recorder's start erases the buffer under its key on "
                        "every path, whatever layout (dense / elided) it records in (shared with C07.f)"):
        from . import c07
        R.share(run, "C20.n", c07, ["C07.f"])


def _method(run: Run, struct: str, name: str) -> C.FuncAST:
    fi = run.tree.file(MEM)
    fds = [f for f in fi.funcs if f.name == name and f.cls == struct]
    if len(fds) != 1:
        raise AnalysisError("anchor-vanished", f"{struct}::{name} matched {len(fds)}")
    return R.parse(run, fds[0])


def _has_static_true(run: Run, struct: str, field: str) -> bool:
    sd = run.tree.struct(MEM, struct)
    fi = run.tree.file(MEM)
    for f in sd.fields:
        if f.name == field and f.init is not None:
            return fi.text(*f.init).replace(" ", "") in ("true", "{true}")
    return False


def _check_capture(run: Run, fa: C.FuncAST, sources, fname: str, via=None) -> None:
    cn = R.aliases_of(fa)
    sets = {cn(c.args[0]).strip('"'): cn(c.args[1]) for c in R.calls(fa, "set") if cn(c.fn) == "bundle.set" and len(c.args) == 2}
    run.count(1, f"C20.b.{fname}")
    for nm, want in (("set", "in.as_set()"), ("dict", "in.as_dict()")):
        dd = [x for x in R.find(fa, lambda n: isinstance(n, C.Declarator) and n.name == nm and n.init is not None)]
        if dd and cn(dd[0].init) != want:
            run.finding("C20.b", f"{fname}:{nm}-source", f"{fname} captures from `{cn(dd[0].init)}` instead of its own input", loc=DELTA)
    if set(sets) != set(sources):
        run.finding("C20.b", f"{fname}:fields", f"{fname} writes fields {sorted(sets)}, apply reads {sorted(sources)}", loc=DELTA)
        return
    for field, src_re in sources.items():
        builder = field
        val = sets[field]
        local = (via or {}).get(field)
        if local:
            # bundle.set("removed", removed_delta) where removed_delta = removed.build()
            if val != local:
                run.finding("C20.b", f"{fname}:{field}:value", f"field \"{field}\" stores {val}", loc=DELTA)
                continue
            d = [x for x in R.find(fa, lambda n: isinstance(n, C.Declarator) and n.name == local and n.init is not None)]
            val = cn(d[0].init) if d else val
        if val != f"{builder}.build()":
            run.finding("C20.b", f"{fname}:{field}:builder", f"field \"{field}\" is built from `{val}`, not from the `{builder}` builder", loc=DELTA)
            continue
        # the builder is filled only inside a loop over its own source
        fills = [c for c in R.calls(fa) if isinstance(c.fn, C.Member) and isinstance(c.fn.obj, C.Id) and c.fn.obj.name == builder
                 and c.fn.name in ("insert_copy", "insert", "set_item_copy", "set_item", "push_back", "insert_move")]
        if not fills:
            run.finding("C20.b", f"{fname}:{field}:unfilled", f"the `{builder}` builder is never filled", loc=DELTA)
        for c in fills:
            lp = [l for l in R.loops(fa) if isinstance(l, C.RangeFor) and R._contains(l.body, c)]
            rng = cn(lp[-1].range) if lp else None
            run.count(1)
            if rng is None or re.fullmatch(src_re, rng) is None:
                run.finding("C20.b", f"{fname}:{field}:source", f"{fname}: field \"{field}\" is filled from `{rng}` (expected {src_re})", loc=fa.loc(c))


VARIANTS = [
    {"id": "m-seed-C20-5-modified-test-after-lenient-removals", "expect": "C20.m", "edits": [{"file": DELTA, "find": "            assert(delta_field_is(delta, tsd_delta_modified, \"modified\"));\n            const auto modified = bundle.at(tsd_delta_modified).as_map();\n            if (modified.size() != 0) { return true; }\n", "replace": ""}, {"file": DELTA, "find": "            // The empty-tick validation rule, as for TSS.\n            return !out.valid();\n        }\n\n        bool delta_has_effect_tsl", "replace": "            if (bundle.at(tsd_delta_modified).as_map().size() != 0) { return true; }\n            // The empty-tick validation rule, as for TSS.\n            return !out.valid();\n        }\n\n        bool delta_has_effect_tsl"}]},
    {"id": "k-current-dict-recurses-per-cycle", "expect": "C20.k", "edits": [{"file": DELTA, "find": "                Value child_delta = capture_current_delta(child);\n                modified.set_item(key, child_delta.view());", "replace": "                Value child_delta = capture_delta(child);\n                modified.set_item(key, child_delta.view());"}]},
    {"id": "l-recovery-cycle-drops-live-tick", "expect": "C20.l", "edits": [{"file": "include/hgraph/lib/std/component.h", "find": "                    if (recovered.has_value()) { out.apply(recovered.view()); }\n                    initialized.set(true);", "replace": "                    initialized.set(true);\n                    if (recovered.has_value()) { out.apply(recovered.view()); return; }"}]},
    {"id": "j-mutable-list-copy-drops-holes", "expect": "C20.j", "edits": [{"file": "include/hgraph/types/value/mutable_container_ops.h", "find": "                slots_ = ValueSlotStore{};  // unbound; destroys any prior payloads\n                return;", "replace": "                slots_ = ValueSlotStore{};  // unbound; destroys any prior payloads\n                validity_ = other.validity_;\n                return;"}, {"file": "include/hgraph/types/value/mutable_container_ops.h", "find": "                ++size_;\n            }\n            validity_ = other.validity_;\n", "replace": "                ++size_;\n            }\n"}]},
    {"id": "j-compact-list-copy-drops-holes", "expect": "C20.j", "edits": [{"file": "include/hgraph/types/value/compact_storage.h", "find": "            size_            = other.size_;\n            validity_        = other.validity_;\n            if (element_binding_ == nullptr) { return; }", "replace": "            size_            = other.size_;\n            if (element_binding_ == nullptr) { validity_ = other.validity_; return; }"}]},
    {"id": "j-twin-copy-bitmap-first", "expect": None, "edits": [{"file": "include/hgraph/types/value/mutable_container_ops.h", "find": "            element_binding_ = other.element_binding_;\n            size_            = 0;\n            if (element_binding_ == nullptr)\n            {\n                slots_ = ValueSlotStore{};  // unbound; destroys any prior payloads", "replace": "            element_binding_ = other.element_binding_;\n            validity_        = other.validity_;\n            size_            = 0;\n            if (element_binding_ == nullptr)\n            {\n                slots_ = ValueSlotStore{};  // unbound; destroys any prior payloads"}]},
    {"id": "i-fold-at-start-time", "expect": "C20.i", "edits": [{"file": "src/hgraph/types/record_replay.cpp", "find": "            apply_delta(accumulated.view(when), entry.at(1));", "replace": "            apply_delta(accumulated.view(start_time), entry.at(1));"}]},
    {"id": "i-fold-ignores-start-time", "expect": "C20.i", "edits": [{"file": "src/hgraph/types/record_replay.cpp", "find": "            if (when > start_time)\n            {\n                break;\n            }\n            apply_delta(", "replace": "            apply_delta("}]},
    {"id": "i-twin-named-view", "expect": None, "edits": [{"file": "src/hgraph/types/record_replay.cpp", "find": "            apply_delta(accumulated.view(when), entry.at(1));", "replace": "            const auto at_entry_time = accumulated.view(when);\n            apply_delta(at_entry_time, entry.at(1));"}]},
    {"id": "d-tsl-capture-requires-all-valid", "expect": "C20.d", "edits": [{"file": DELTA, "find": "            for (const auto &[index, child] : list.modified_items())\n            {\n                if (!child.valid()) { continue; }", "replace": "            for (const auto &[index, child] : list.modified_items())\n            {\n                if (!child.all_valid()) { continue; }"}]},
    {"id": "d-tsb-capture-ignores-modified", "expect": "C20.d", "edits": [{"file": DELTA, "find": "                if (!child.modified() || !child.valid()) { continue; }", "replace": "                if (!child.valid()) { continue; }"}]},
    {"id": "a-tss-apply-is-tsd", "expect": "C20.a", "edits": [{"file": "src/hgraph/types/metadata/ts_data_slot_ops.cpp", "find": ".apply_delta_impl          = &ts_data_detail::apply_delta_tss,", "replace": ".apply_delta_impl          = &ts_data_detail::apply_delta_tsd,"}]},
    {"id": "b-fields-swapped-on-capture", "expect": "C20.b", "edits": [{"file": DELTA, "find": "            BundleBuilder bundle{binding_for(bundle_meta, \"capture_delta\")};\n            bundle.set(\"added\", added.build());\n            bundle.set(\"removed\", removed.build());", "replace": "            BundleBuilder bundle{binding_for(bundle_meta, \"capture_delta\")};\n            bundle.set(\"added\", removed.build());\n            bundle.set(\"removed\", added.build());"}]},
    {"id": "b-removed-from-added", "expect": "C20.b", "edits": [{"file": DELTA, "find": "            SetBuilder removed{elem_binding};\n            for (const auto &e : set.removed())", "replace": "            SetBuilder removed{elem_binding};\n            for (const auto &e : set.added())"}]},
    {"id": "b-apply-adds-removed", "expect": "C20.b", "edits": [{"file": DELTA, "find": "            const auto removed = bundle.at(tss_delta_removed).as_indexed_view();\n            for (std::size_t i = 0; i < removed.size(); ++i) { (void)mutation.remove(removed.at(i)); }\n            const auto added = bundle.at(tss_delta_added).as_indexed_view();", "replace": "            const auto removed = bundle.at(tss_delta_added).as_indexed_view();\n            for (std::size_t i = 0; i < removed.size(); ++i) { (void)mutation.remove(removed.at(i)); }\n            const auto added = bundle.at(tss_delta_added).as_indexed_view();"}]},
    {"id": "c-add-before-remove", "expect": "C20.c", "edits": [{"file": DELTA, "find": "            const auto removed = bundle.at(tss_delta_removed).as_indexed_view();\n            for (std::size_t i = 0; i < removed.size(); ++i) { (void)mutation.remove(removed.at(i)); }\n            const auto added = bundle.at(tss_delta_added).as_indexed_view();\n            for (std::size_t i = 0; i < added.size(); ++i) { (void)mutation.add(added.at(i)); }", "replace": "            const auto added = bundle.at(tss_delta_added).as_indexed_view();\n            for (std::size_t i = 0; i < added.size(); ++i) { (void)mutation.add(added.at(i)); }\n            const auto removed = bundle.at(tss_delta_removed).as_indexed_view();\n            for (std::size_t i = 0; i < removed.size(); ++i) { (void)mutation.remove(removed.at(i)); }"}]},
    {"id": "c-touch-first", "expect": "C20.c", "edits": [{"file": DELTA, "find": "            auto       mutation = dict_out.begin_mutation(out.evaluation_time());\n", "replace": "            auto       mutation = dict_out.begin_mutation(out.evaluation_time());\n            mutation.touch();\n"}, {"file": DELTA, "find": "            mutation.touch();   // LAST - the empty-tick validation rule (see apply_delta_tss)\n", "replace": ""}]},
    {"id": "d-capture-skips-unmodified-valid", "expect": "C20.d", "edits": [{"file": DELTA, "find": "                if (!child.valid()) { continue; }   // empty-reference elements have no value", "replace": "                if (!child.valid() || !child.all_valid()) { continue; }"}]},
    {"id": "e-no-padding", "expect": "C20.e", "edits": [{"file": MEM, "find": "            while (size < offset)  // pad skipped cycles so the buffer index matches the evaluation cycle\n            {\n                mutation.push_back_unset();\n                ++size;\n            }\n", "replace": ""}]},
    {"id": "f-dense-rearm-off-by-one", "expect": "C20.f", "edits": [{"file": MEM, "find": "if (i + 1 < size) { sched.schedule(MIN_TD); }", "replace": "if (i + 2 < size) { sched.schedule(MIN_TD); }"}]},
    {"id": "f-sparse-applies-older", "expect": "C20.f", "edits": [{"file": MEM, "find": "                if (when < now) { ++current; continue; }\n", "replace": ""}]},
    {"id": "f-sparse-rearm-next-cycle", "expect": "C20.f", "edits": [{"file": MEM, "find": "                if (when > now) { sched.schedule(when); }", "replace": "                if (when > now) { sched.schedule(MIN_TD); }"}]},
    {"id": "g-sparse-record-wrong-time", "expect": "C20.g", "edits": [{"file": MEM, "find": "            Value entry = testing::make_sparse_entry(\n                resolved.delta_binding, now, std::move(delta));", "replace": "            Value entry = testing::make_sparse_entry(\n                resolved.delta_binding, now + MIN_TD, std::move(delta));"}]},
    {"id": "c-twin-index-loop-rename", "expect": None, "edits": [{"file": DELTA, "find": "for (std::size_t i = 0; i < added.size(); ++i) { (void)mutation.add(added.at(i)); }", "replace": "for (std::size_t k = 0; k < added.size(); ++k) { (void)mutation.add(added.at(k)); }"}]},
]
