"""C13 - Reading through a reference equals reading its current target (partial)."""
from __future__ import annotations

import re

from .. import cparse as C
from ..index import AnalysisError
from ..k1 import ANY, Expect, Role
from ..report import Run
from .. import rules as R

ID = "C13"
PARTIAL = True
CTRL = "include/hgraph/lib/std/operators/impl/control_impl.h"
ALT = "src/hgraph/types/time_series/ts_output/alternative.cpp"
LINK = "src/hgraph/types/time_series/ts_input/target_link.cpp"
BASE = "src/hgraph/types/time_series/ts_input/base_view.cpp"
GRAPH = "src/hgraph/runtime/graph.cpp"

TECHNIQUE = ("decision tables of the selection operators, the consumer-side modified/last-modified/delta blend, the sampled-bind entry points, the "
             "from-reference refresh and the same-target de-duplication (K1); ordering rules on the CFG of bind_impl / detach_target and the "
             "re-subscription of the from-reference alternative states (K2); sibling agreement of the two alternative states (K7)")
EXPLANATION = (
    "PARTIAL: decides the code-shape facts the property rests on, not stream equality with the referenced target. Decided: if_then_else / if_cmp "
    "select the branch by the condition, return without publishing iff neither the selector nor the selected branch ticked, or the selected "
    "reference is not valid, or the output already holds the same reference, and otherwise publish exactly the selected branch's reference; the "
    "consumer-side view reports modified when the link itself was modified this cycle (retarget) or a sampled structural transition happened this "
    "cycle, else the target's own flag; last_modified_time is the max of link and target at the link root; delta_value is the CURRENT value iff "
    "the link was modified after the target; the retarget entry point returns without re-binding iff the link already targets the same output, "
    "binds keyed shapes sampled and every other shape by current value, recording the link modified iff the new target has a current value; "
    "bind_impl detaches the previous target before adopting the next, subscribes to it before publishing the sampled transition, and publishes "
    "iff sampled and (new target valid or the previous one was valid or had published structure); a detached or de-selected target is "
    "unsubscribed before the link/source handle is overwritten (so it can no longer wake the consumer); both from-reference alternative states "
    "re-apply the reference on every notification and re-subscribe only between unsubscribe and subscribe; cross-boundary wake-ups are clamped "
    "(shared with C09.b). Not decided: value/delta equality with the target at every tick; old/new difference of keyed shapes; run-time "
    "attachment graphs of alternative stores.")
ASSUMPTIONS = ["TSDataView::subscribe/unsubscribe are the only ways a target can reach a consumer (C03.a/b)",
               "TimeSeriesReference::operator== is identity of the designated output (time_series_reference.cpp)"]
DECIDED = ["a selection operators", "c consumer blend", "d sampled bind", "e cross-boundary clamp (shared C09.b)", "f re-subscription on retarget",
           "g refresh re-applies the reference", "h same-target de-dup and sampling mode", "i role-ops rows and reference dispatch", "j unsubscribe before a target handle is dropped", "k slot-id bounds of the keyed retarget delta", "m lazily cleared masks of the old target consulted for the transition cycle only",
           'o removed-accessors of TSDInputView agree about a retarget (known finding F-C13-3)', 'p modified-slot predicate and export scan agree during a retarget', 'c also: delta_value shortcut only at the link root in the rebind cycle',
           'q emptiness of a taken reference follows boundness',
           'r AlternativeKey filled from the whole source identity']
NOT_DECIDED = ["observed value/delta equals the target's at every tick", "keyed-shape old/new difference", "unselected targets never wake the consumer at run time"]


def _sel_table(run, rule, name, cond_role, branches, selector_modified):
    """branches: list of (role-suffix, input name, selection predicate over the View)."""
    fa = R.fn(run, CTRL, f"{name}::eval")
    roles = list(cond_role) + [Role("SELM", "bool", selector_modified), Role("OV", "bool", r"out\.valid\(\)")]
    for sfx, inp, _ in branches:
        b = re.escape(inp) + r"\.base\(\)"
        roles += [Role(sfx + "M", "bool", b + r"\.modified\(\)"), Role(sfx + "V", "bool", b + r"\.valid\(\)"),
                  Role("SAME" + sfx, "bool", r"out\.value\(\).*==" + b + r"\.value\(\).*|" + b + r"\.value\(\).*==out\.value\(\).*")]

    def spec(v):
        sel = [(sfx, inp) for sfx, inp, pred in branches if pred(v)]
        sfx, inp = sel[0]
        if not (v.b("SELM") or v.b(sfx + "M")):
            return Expect(calls=[])
        if not v.b(sfx + "V"):
            return Expect(calls=[])
        if v.b("OV") and v.b("SAME" + sfx):
            return Expect(calls=[])
        return Expect(calls=[("PUBLISH", (re.escape(inp) + r"\.base\(\)\.value\(\)",))])
    R.k1(run, rule, fa, roles, spec, role_calls={"PUBLISH": r".*copy_value_from|.*move_value_from|out\.set|.*\.set_value"}, what=name)
    return fa


def check(run: Run) -> None:
    t = run.tree

    with run.obligation("C13.a", "K1+K7", "if_then_else / if_cmp: publish the SELECTED branch's reference iff (selector or selected ticked) and the "
                        "selected reference is valid and differs from the one already published"):
        _sel_table(run, "C13.a", "if_then_else_impl", [Role("COND", "bool", r"condition\.value\(\)")],
                   [("T", "true_value", lambda v: v.b("COND")), ("F", "false_value", lambda v: not v.b("COND"))], r"condition\.modified\(\)")
        _sel_table(run, "C13.a", "if_cmp_impl",
                   [Role("ISLT", "bool", r"cmp\.value\(\)==CmpResult::LT|CmpResult::LT==cmp\.value\(\)"),
                    Role("ISEQ", "bool", r"cmp\.value\(\)==CmpResult::EQ|CmpResult::EQ==cmp\.value\(\)")],
                   [("L", "lt", lambda v: v.b("ISLT")), ("E", "eq", lambda v: (not v.b("ISLT")) and v.b("ISEQ")),
                    ("G", "gt", lambda v: (not v.b("ISLT")) and not v.b("ISEQ"))], r"cmp\.modified\(\)")

    with run.obligation("C13.c", "K1", "consumer-side blend: modified(t) is true iff the link was modified at t (retarget) or a sampled structural "
                        "transition happened at t, else the target's flag; last_modified_time = max(link, target) at the link root; delta_value is the "
                        "current value iff the link is newer than the target"):
        fa = R.fn(run, BASE, "TSInputView::InputDataCursor::modified")
        roles = [Role("T", "t", r"evaluation_time"), Role("MIN_DT", "t", r"MIN_DT", sentinel="min"),
                 Role("TP", "bool", r"is_target_position\(\)"), Role("DV", "bool", r"resolved_value_data\(\)\.valid\(\)"),
                 Role("RAWM", "bool", r"raw_data\.modified\(evaluation_time\)"), Role("ROOT", "bool", r"is_target_root\(\)"),
                 Role("LNULL", "bool", r"link_storage\(\)==nullptr|nullptr==link_storage\(\)"),
                 Role("SAMPLED", "bool", r"link_storage\(\)->sampled_structural_transition\(\)"),
                 Role("TT", "t", r"link_storage\(\)->structural_transition_time\(\)"),
                 Role("DM", "bool", r"resolved_value_data\(\)\.modified\(evaluation_time\)")]

        def spec(v):
            if v.eq("T", "MIN_DT"):
                return Expect(ret=False)
            if not v.b("TP"):
                return Expect(ret=v.b("DV") and v.b("DM"))
            if not v.b("DV"):
                return Expect(ret=v.b("RAWM"))
            if v.b("ROOT") and v.b("RAWM"):
                return Expect(ret=True)
            if (not v.b("LNULL")) and v.b("SAMPLED") and v.eq("TT", "T"):
                return Expect(ret=True)
            return Expect(ret=v.b("DM"))
        R.k1(run, "C13.c", fa, roles, spec, what="InputDataCursor::modified")

        fa = R.fn(run, BASE, "TSInputView::InputDataCursor::last_modified_time")
        roles = [Role("TP", "bool", r"is_target_position\(\)"), Role("DV", "bool", r"resolved_value_data\(\)\.valid\(\)"),
                 Role("ROOT", "bool", r"is_target_root\(\)"), Role("RAW", "t", r"raw_data\.last_modified_time\(\)"),
                 Role("TGT", "t", r"resolved_value_data\(\)\.last_modified_time\(\)")]

        def spec2(v):
            if not v.b("TP"):
                return Expect(ret="TGT")
            if not v.b("DV"):
                return Expect(ret="RAW")
            if v.b("ROOT"):
                return Expect(ret=v.max("RAW", "TGT"))
            return Expect(ret="TGT")
        R.k1(run, "C13.c", fa, roles, spec2, what="InputDataCursor::last_modified_time")

        fa = R.fn(run, BASE, "TSInputView::delta_value")
        roles = [Role("DV", "bool", r"data_view\(\)\.valid\(\)"), Role("TP", "bool", r"is_target_position\(\)", required=False),
                 Role("ROOT", "bool", r"data_\.is_target_root\(\)", required=False), Role("NOW", "t", r"evaluation_time_", required=False),
                 Role("LNULL", "bool", r"data_\.link_storage\(\)==nullptr|nullptr==data_\.link_storage\(\)"),
                 Role("LT", "t", r"data_\.link_storage\(\)->tracking\.last_modified_time"), Role("TGT", "t", r"data_view\(\)\.last_modified_time\(\)"),
                 Role("HASD", "bool", r"data_view\(\)\.delta_value\(evaluation_time_\)\.has_value\(\)"),
                 Role("SNULL", "bool", r"schema\(\)==nullptr|nullptr==schema\(\)"), Role("ISTS", "bool", r"schema\(\)->kind==TSTypeKind::TS|TSTypeKind::TS==schema\(\)->kind"),
                 Role("MOD", "bool", r"modified\(\)")]

        def spec3(v):
            if not v.b("DV"):
                return Expect(throws=True)
            # sampled rebind: the delta IS the current value - at the link root, in the cycle the link recorded the rebind, while the target itself is older
            if v.b("ROOT") and (not v.b("LNULL")) and v.eq("LT", "NOW") and v.gt("LT", "TGT"):
                return Expect(ret=r"data_view\(\)\.value\(\)")
            if v.b("HASD"):
                return Expect(ret=r"data_view\(\)\.delta_value\(evaluation_time_\)")
            if (not v.b("SNULL")) and v.b("ISTS") and v.b("MOD"):
                return Expect(ret=r"data_view\(\)\.value\(\)")
            return Expect(ret=r"data_view\(\)\.delta_value\(evaluation_time_\)")
        R.k1(run, "C13.c", fa, roles, spec3, what="TSInputView::delta_value")

    with run.obligation("C13.d", "K1+K2", "sampled bind: both timed entry points throw iff t == MIN_DT; bind_current_value records the link modified at t "
                        "iff the new target has a current value; bind_impl detaches the previous target before adopting the next, subscribes before it "
                        "publishes, publishes the sampled transition iff sampled and (new valid or previous valid or previous had published structure)"):
        for name, args, extra in (("bind_sampled", ("schema", "output", "T", True, False), False),
                                  ("bind_current_value", ("schema", "output", "MIN_DT", False, False), True)):
            fa = R.fn(run, LINK, f"TSInputTargetLinkStorage::{name}")
            roles = [Role("T", "t", r"modified_time"), Role("MIN_DT", "t", r"MIN_DT", sentinel="min"),
                     Role("HASCUR", "bool", r"output\.data_view\(\)\.has_current_value\(\)", required=False)]

            def spec(v, args=args, extra=extra):
                if v.eq("T", "MIN_DT"):
                    return Expect(throws=True, calls=[], stores_on_throw=True)
                calls = [("BIND", args)]
                if extra and v.b("HASCUR"):
                    calls.append(("RECORD", ("T",)))
                return Expect(calls=calls)
            R.k1(run, "C13.d", fa, roles, spec, role_calls={"BIND": r"bind_impl", "RECORD": r"record_target_modified"}, what=name)

        fa = R.fn(run, LINK, "TSInputTargetLinkStorage::bind_impl")
        cn = R.aliases_of(fa)
        fl = R.flow(run, fa)
        adopt = R.store_is(r"state_\.target|state\.target", r"target")
        detach = R.call_is(name="detach_target")
        sub = R.call_is(name="subscribe", recv=r"state_?\.target\.data_view\(\)")
        pub = R.call_is(callee=r"structural_ops_->publish_sampled_transition")
        rec = R.call_is(name="record_target_modified", arg=(0, r"modified_time"))
        R.require_nodes(run, fl, adopt, "state.target = target")
        # the previous target is detached before the new one is adopted, unless nothing was bound
        w = fl.reach([fl.start], avoid=detach, targets=adopt, after_source=False,
                     edge_skip=lambda node, lab: node.kind == "cond" and node.label.replace(" ", "") in ("state_.target.bound()", "state.target.bound()") and lab == "F")
        run.count(1, "C13.d.detach-first")
        if w is not None:
            run.finding("C13.d", "bind_impl:adopt-without-detach", "a bound link adopts the next target without detaching (unsubscribing) the previous one: the "
                        "de-selected target can still wake the consumer: " + fl.path_text(w), loc=fl.cfg.describe(w[-1][0]))
        R.k2_precede(run, "C13.d", fl, adopt, sub, "the new target is adopted before the link subscribes to it")
        R.k2_precede(run, "C13.d", fl, sub, pub, "the link subscribes to the new target before the sampled transition is published")
        R.k2_follow(run, "C13.d", fl, pub, rec, "a published sampled transition records the link modified at the retarget time", exits="normal", after="completed")
        d = R.find(fa, lambda n: isinstance(n, C.Declarator) and n.name == "publish_sampled_transition")
        txt = cn(d[0].init).replace(" ", "") if d else None
        run.count(1, "C13.d.publish-cond")
        if txt not in ("sampled&&((output.valid()||previous_was_valid)||previous_has_published_state)", "sampled&&(output.valid()||previous_was_valid||previous_has_published_state)"):
            run.finding("C13.d", "bind_impl:publish-cond", f"publish_sampled_transition must be sampled && (output.valid() || previous_was_valid || "
                        f"previous_has_published_state): {txt}", loc=LINK)
        ifs = [x for x in fa.body.walk() if isinstance(x, C.If) and cn(x.cond) == "publish_sampled_transition"]
        if len(ifs) != 1 or not R.calls(ifs[0].then, "publish_sampled_transition"):
            run.finding("C13.d", "bind_impl:publish-guard", "the sampled transition must be published under publish_sampled_transition", loc=LINK)
        pw = R.find(fa, lambda n: isinstance(n, C.Declarator) and n.name == "previous_was_valid")
        txt = cn(pw[0].init).replace(" ", "") if pw else None
        if txt != "(sampled&&state_.target.bound())&&state_.target.view(modified_time).valid()":
            run.finding("C13.d", "bind_impl:previous-was-valid", f"previous_was_valid must be read from the OLD target before it is detached: {txt}", loc=LINK)
        if pw:
            R.k2_precede(run, "C13.d", fl, lambda n: n.kind == "decl" and n.decl == "previous_was_valid", detach, "the old target's validity is sampled before it is detached")

    with run.obligation("C13.h", "K1", "bind_target_link_at: returns without re-binding iff the link already targets the same output (a republished "
                        "unchanged reference causes no tick); keyed shapes bind sampled, every other shape by current value, at the retarget time"):
        fa = R.fn(run, ALT, "bind_target_link_at")
        L = r"mutable_target_link_storage\(target\)"
        roles = [Role("LNULL", "bool", L + r"==nullptr|nullptr==" + L), Role("BOUND", "bool", L + r"->bound\(\)"),
                 Role("SAME", "bool", L + r"->target_output\(\)\.same_as\(output\.handle\(\)\)"),
                 Role("SNULL", "bool", r"target_link_schema\(target\)==nullptr|nullptr==target_link_schema\(target\)"),
                 Role("TSS", "bool", r"target_link_schema\(target\)->kind==TSTypeKind::TSS|TSTypeKind::TSS==target_link_schema\(target\)->kind"),
                 Role("TSD", "bool", r"target_link_schema\(target\)->kind==TSTypeKind::TSD|TSTypeKind::TSD==target_link_schema\(target\)->kind")]

        def spec(v):
            if (not v.b("LNULL")) and v.b("BOUND") and v.b("SAME"):
                return Expect(calls=[])
            if v.b("LNULL") or v.b("SNULL"):
                return Expect(throws=True, calls=[], stores_on_throw=True)
            if v.b("TSS") or v.b("TSD"):
                return Expect(calls=[("SAMPLED", (ANY, "output", "modified_time"))])
            return Expect(calls=[("CURRENT", (ANY, "output", "modified_time"))])
        R.k1(run, "C13.h", fa, roles, spec, role_calls={"SAMPLED": r".*->bind_sampled", "CURRENT": r".*->bind_current_value"}, what="bind_target_link_at")

    with run.obligation("C13.j", "K2", "a link's target handle is dropped or replaced only after the link state was unsubscribed from it"):
        fa = R.fn(run, LINK, "TSInputTargetLinkStorage::detach_target")
        fl = R.flow(run, fa)
        unsub = R.call_is(name="unsubscribe", recv=r"state_\.target\.data_view\(\)")
        reset = R.call_is(name="reset", recv=r"state_\.target")
        R.require_nodes(run, fl, reset, "state_.target.reset()")
        w = fl.reach([fl.start], avoid=unsub, targets=reset, after_source=False,
                     edge_skip=lambda node, lab: node.kind == "cond" and node.label.replace(" ", "") == "state_.target.bound()" and lab == "F")
        run.count(1, "C13.j.detach")
        if w is not None:
            run.finding("C13.j", "detach_target:reset-without-unsubscribe", "the target handle is reset while the link state is still subscribed to the old "
                        "target (its ticks keep reaching the consumer): " + fl.path_text(w), loc=fl.cfg.describe(w[-1][0]))
        R.k2_precede(run, "C13.j", fl, R.call_is(name="unsubscribe_active_target"), reset, "active-path subscriptions are dropped before the handle")
        # census: who resets / assigns state_.target
        n = 0
        for fd in t.file(LINK).funcs:
            if fd.body is None:
                continue
            body = t.file(LINK).text(fd.body[0], fd.body[1])
            if "target . reset" not in body:
                continue
            fa2 = R.parse(run, fd, strict=False)
            cn2 = R.aliases_of(fa2)
            for c in R.calls(fa2, "reset"):
                if isinstance(c.fn, C.Member) and cn2(c.fn.obj) in ("state_.target", "target", "other.target"):
                    n += 1
                    run.count(1, "C13.j.census")
                    if fd.name not in ("detach_target", "source_invalidated", "move_from", "operator="):
                        run.finding("C13.j", f"target-reset:{fd.qual}", f"{fd.qual} resets the link target outside detach_target / source_invalidated", loc=fa2.loc(c))
        run.sites(n, 2, "target resets")

    with run.obligation("C13.e", "K1", "cross-boundary retarget notifications are clamped to the parent's current time (shared with C09.b)"):
        from . import c09
        sub = Run("C13", run.tier, run.tree, quiet=True)
        sub.is_sub = True
        if not getattr(run, "is_sub", False):
            c09.check(sub)
        run.evaluations += sub.evaluations
        run.count(1, "C13.e")
        for f in sub.findings:
            if f.rule == "C09.b":
                run.finding("C13.e", f.key, f.message, f.loc)
        for e in sub.errors:
            if e.startswith("C09.b:"):
                raise AnalysisError("model-mismatch", e)

    with run.obligation("C13.f", "K2+K7", "from-reference alternative states: every notification re-applies the reference (notify -> refresh); the "
                        "observed source is replaced only between unsubscribe_source and subscribe_source and only when it differs; the previously "
                        "referenced outputs are all unsubscribed before the next set is subscribed; teardown unsubscribes everything"):
        n = 0
        for st in ("RefLinkAlternativeState", "InteriorFromRefAlternativeState"):
            fa = R.fn(run, ALT, f"{st}::SourceNotifier::notify")
            cs = [R.callee_name(c) for c in R.acting_calls(fa)]
            cn = R.aliases_of(fa)
            run.count(1, f"C13.f.{st}.notify")
            rf = R.calls(fa, "refresh")
            if len(rf) != 1 or cn(rf[0].args[0]) != "modified_time" or [c for c in cs if c not in ("refresh",)]:
                run.finding("C13.f", f"{st}:notify", f"{st}::SourceNotifier::notify must call owner->refresh(modified_time) and nothing else: {cs}", loc=ALT)
            fa = R.fn(run, ALT, f"{st}::rebind")
            cn = R.aliases_of(fa)
            fl = R.flow(run, fa)
            assign = R.store_is(r"source", r"next_source|new_source\.handle\(\)")
            R.require_nodes(run, fl, assign, f"{st}::rebind source := next")
            R.k2_precede(run, "C13.f", fl, R.call_is(name="unsubscribe_source"), assign, f"{st}: the old source is unsubscribed before the handle is replaced")
            if st == "RefLinkAlternativeState":
                R.k2_follow(run, "C13.f", fl, assign, R.call_is(name="subscribe_source"), f"{st}: the new source is subscribed after the handle is replaced",
                            exits="normal", after="completed")
            else:
                w = fl.reach(fl.states_of(assign), avoid=R.call_is(name="subscribe_source"), targets=lambda n: n.id == fl.cfg.exit,
                             edge_skip=lambda node, lab: node.kind == "cond" and node.label.replace(" ", "") == "proxy_backed()" and lab == "T")
                run.count(1, "C13.f.interior-subscribe")
                if w is not None:
                    run.finding("C13.f", f"{st}:rebind:no-subscribe", "a structural (not proxy-backed) alternative replaces its source without subscribing "
                                "to it: " + fl.path_text(w), loc=fl.cfg.describe(w[0][0]))
            # the replacement is guarded by "differs"
            w = fl.reach([fl.start], targets=assign, after_source=False,
                         edge_skip=lambda node, lab: node.kind == "cond" and ((node.label.replace(" ", "") == "source.same_as(next_source)" and lab == "F") or
                                                     (node.label.replace(" ", "") == "source_changed" and lab == "T")))
            run.count(1, f"C13.f.{st}.guard")
            if w is not None:
                run.finding("C13.f", f"{st}:rebind:unguarded", "the source is re-subscribed although it did not change", loc=fl.cfg.describe(w[-1][0]))
            if st == "InteriorFromRefAlternativeState":
                sc = R.find(fa, lambda n: isinstance(n, C.Declarator) and n.name == "source_changed")
                if not sc or cn(sc[0].init).replace(" ", "") != "!source.same_as(next_source)":
                    run.finding("C13.f", f"{st}:rebind:changed-def", "source_changed must be !source.same_as(next_source)", loc=ALT)
            fa = R.fn(run, ALT, f"{st}::release_subscriptions")
            fl = R.flow(run, fa)
            R.k2_precede(run, "C13.f", fl, R.call_is(name="unsubscribe_source"), R.call_is(name="reset", recv=r"source"),
                         f"{st}: stop-time release unsubscribes before it forgets the source")
            n += 1
        fa = R.fn(run, ALT, "RefLinkAlternativeState::replace_reference_sources")
        fl = R.flow(run, fa)
        R.k2_precede(run, "C13.f", fl, R.call_is(name="unsubscribe_reference_sources"), R.store_is(r"reference_sources", r".*"),
                     "every previously referenced output is unsubscribed before the observed set is replaced")
        R.k2_precede(run, "C13.f", fl, R.store_is(r"reference_sources", r".*"), R.call_is(name="subscribe"),
                     "the next referenced outputs are subscribed after the set is replaced")
        fa = R.fn(run, ALT, "RefLinkAlternativeState::unsubscribe_reference_sources")
        cn = R.aliases_of(fa)
        lp = [l for l in R.loops(fa) if isinstance(l, C.RangeFor)]
        run.count(1, "C13.f.unsub-all")
        if len(lp) != 1 or cn(lp[0].range) != "reference_sources" or not R.calls(lp[0].body, "unsubscribe") or \
                any(isinstance(x, (C.Break, C.Return)) for x in lp[0].body.walk() if not isinstance(x, C.Lambda) and not any(isinstance(l, C.Lambda) and R._contains(l, x) for l in lp[0].body.walk())):
            run.finding("C13.f", "unsubscribe_reference_sources:loop", "must unsubscribe from EVERY observed output (one pass, no early exit)", loc=ALT)
        if not R.calls(fa, "clear"):
            run.finding("C13.f", "unsubscribe_reference_sources:clear", "the observed set must be cleared after unsubscribing", loc=ALT)
        fa = R.fn(run, ALT, "RefLinkAlternativeState::~RefLinkAlternativeState")
        cs = [R.callee_name(c) for c in R.calls(fa)]
        if "unsubscribe_reference_sources" not in cs or "unsubscribe_source" not in cs:
            run.finding("C13.f", "RefLinkAlternativeState:dtor", f"the destructor must unsubscribe the source and every referenced output: {cs}", loc=ALT)
        run.sites(n, 2, "alternative states")

    with run.obligation("C13.g", "K1", "RefLinkAlternativeState::refresh: returns iff t == MIN_DT or no schema or unbound; an invalid reference unbinds the "
                        "projection and observes nothing; otherwise the CURRENT reference is applied at t and its forwarding sources replace the observed set"):
        fa = R.fn(run, ALT, "RefLinkAlternativeState::refresh")
        roles = [Role("T", "t", r"modified_time"), Role("MIN_DT", "t", r"MIN_DT", sentinel="min"),
                 Role("NOSCHEMA", "bool", r"requested_schema==nullptr|nullptr==requested_schema"), Role("BOUND", "bool", r"source\.bound\(\)"),
                 Role("SV", "bool", r"source\.view\(modified_time\)\.valid\(\)")]

        def spec(v):
            if v.eq("T", "MIN_DT") or v.b("NOSCHEMA") or not v.b("BOUND"):
                return Expect(calls=[])
            if not v.b("SV"):
                return Expect(calls=[("UNBIND", ("plan", ANY, "T")), ("REPLACE", (ANY,))])
            return Expect(calls=[("COLLECT", (ANY, "T", ANY)), ("APPLY", ("plan", ANY, ANY, "T")), ("REPLACE", (ANY,))])
        R.k1(run, "C13.g", fa, roles, spec, role_calls={"UNBIND": r"unbind_from_ref_data", "REPLACE": r"replace_reference_sources",
                                                        "COLLECT": r"collect_forwarding_reference_sources", "APPLY": r"apply_reference_to_from_ref_data"},
             what="RefLinkAlternativeState::refresh")
        cn = R.aliases_of(fa)
        ap = R.calls(fa, "apply_reference_to_from_ref_data")
        run.count(1, "C13.g.current-reference")
        origin = cn(ap[0].args[2]) if len(ap) == 1 else None
        locals_ = {d.name: cn(d.init) for d in R.find(fa, lambda n: isinstance(n, C.Declarator) and n.init is not None and n.bindings is None)}
        for _ in range(4):
            m = re.match(r"([A-Za-z_]\w*)", origin or "")
            if not m or m.group(1) not in locals_:
                break
            origin = locals_[m.group(1)] + origin[m.end():]
        if origin is None or not origin.startswith("source.view(modified_time).value()"):
            run.finding("C13.g", "refresh:reference-origin", f"the applied reference must be the source's value viewed at the notification time: {origin}", loc=ALT)
        fa = R.fn(run, ALT, "InteriorFromRefAlternativeState::refresh")
        roles = [Role("T", "t", r"modified_time"), Role("MIN_DT", "t", r"MIN_DT", sentinel="min"),
                 Role("NOSCHEMA", "bool", r"requested_schema==nullptr|nullptr==requested_schema"), Role("BOUND", "bool", r"source\.bound\(\)")]
        R.k1(run, "C13.g", fa, roles, lambda v: Expect(calls=[]) if (v.eq("T", "MIN_DT") or v.b("NOSCHEMA") or not v.b("BOUND"))
             else Expect(calls=[("APPLY", ("plan", ANY, r"source\.view\(modified_time\)", "T"))]),
             role_calls={"APPLY": r"apply_from_ref_interior"}, what="InteriorFromRefAlternativeState::refresh")

    with run.obligation("C13.k", "K3+K6", "keyed retarget deltas scan the old and new target by SLOT id: loops over slot ids and comparisons of a found "
                        "slot id are bounded by the slot capacity, never by the live count (a shared key above a hole would count as added)"):
        R.slot_bounds(run, "C13.k", ["src/hgraph/types/time_series/"], floor=4)

    with run.obligation("C13.m", "K1+K2", "the old target's added/removed slot masks are cleared lazily (on ITS next tick): the retarget delta consults them "
                        "only for the transition cycle - a slot counts as previously published iff it is published and was not added in the transition "
                        "cycle and was not already removed in an earlier cycle; the fallback scan over removed slots runs only if the old target ticked"):
        OPS = "src/hgraph/types/time_series/ts_input/target_link_ops.cpp"
        fa = R.fn(run, OPS, "target_link_previous_slot_was_published")
        PREV = r"target_link_previous_view\(context,memory\)"
        ACC = r".*slot_access->"
        roles = [Role("LNULL", "bool", r"target_link_for\(context,memory\)==nullptr|nullptr==target_link_for\(context,memory\)"),
                 Role("PV", "bool", PREV + r"\.valid\(\)"), Role("SANULL", "bool", ACC[:-2] + r"==nullptr|nullptr==" + ACC[:-2]),
                 Role("OCC", "bool", ACC + r"slot_occupied\(" + PREV + r",slot\)"),
                 Role("TICKED", "bool", PREV + r"\.modified\(target_link_for\(context,memory\)->structural_transition_time\(\)\)"),
                 Role("ADDED", "bool", ACC + r"slot_added\(" + PREV + r",slot\)"), Role("REMOVED", "bool", ACC + r"slot_removed\(" + PREV + r",slot\)", required=False),
                 Role("PUB", "bool", ACC + r"slot_published\(" + PREV + r",slot\)")]

        def spec(v):
            if v.b("LNULL") or not v.b("PV") or v.b("SANULL") or not v.b("OCC"):
                return Expect(ret=False)
            ticked = v.b("TICKED")
            if not v.b("PUB"):
                return Expect(ret=False)
            if ticked and v.b("ADDED"):
                return Expect(ret=False)
            if (not ticked) and v.b("REMOVED"):
                return Expect(ret=False)
            return Expect(ret=True)
        R.k1(run, "C13.m", fa, roles, spec, what="target_link_previous_slot_was_published")
        fa = R.fn(run, OPS, "target_link_previous_contains_published")
        fl = R.flow(run, fa)
        gate = lambda n: n.kind == "cond" and "previous.modified(" in n.label.replace("target_link_previous_view(context,memory)", "previous") and "structural_transition_time" in n.label
        mask = R.call_is(name="slot_removed")
        R.require_nodes(run, fl, mask, "removed-mask scan")
        w = fl.reach([fl.start], avoid=gate, targets=mask, after_source=False)
        run.count(1, "C13.m.scan-gated")
        if w is not None:
            run.finding("C13.m", "previous_contains_published:ungated-mask-scan", "the removed-mask scan of the old target runs without testing that the old target "
                        "ticked in the transition cycle: " + fl.path_text(w), loc=fl.cfg.describe(w[-1][0]))
        w = fl.reach([fl.start], targets=mask, after_source=False, edge_skip=lambda node, lab: gate(node) and lab == "T")
        if w is not None:
            run.finding("C13.m", "previous_contains_published:gate-polarity", "the removed-mask scan is reachable when the old target did NOT tick in the transition cycle",
                        loc=fl.cfg.describe(w[-1][0]))

    with run.obligation("C13.i", "K5+K1", "from-reference role table: row r (in TSEndpointRole order) holds only functions of role r, in the column order of "
                        "FromRefRoleOps; applying a reference dispatches empty -> unbind, peered -> apply_peered_reference on the referenced output viewed "
                        "at t, otherwise -> apply_non_peered_reference"):
        ENDP = "include/hgraph/types/time_series/endpoint_schema.h"
        roles_enum = [e for e in t.file(ENDP).enums if e.name == "TSEndpointRole"]
        if not roles_enum:
            raise AnalysisError("anchor-vanished", "TSEndpointRole")
        role_tokens = [re.sub(r"(?<!^)([A-Z])", r"_\1", e).lower() for e in roles_enum[0].enumerators]  # Peered -> peered, NonPeered -> non_peered
        sd = t.struct(ALT, "FromRefRoleOps")
        cols = [f.name for f in sd.fields]
        fa = R.fn(run, ALT, "from_ref_role_ops_for")
        cn = R.aliases_of(fa)
        tab = R.find(fa, lambda n: isinstance(n, C.Declarator) and n.name == "table")
        if not tab or not isinstance(tab[0].init, C.Init):
            raise AnalysisError("anchor-vanished", "from_ref_role_ops_for: table")
        rows = tab[0].init.elems
        while len(rows) == 1 and isinstance(rows[0], C.Init) and rows[0].elems and isinstance(rows[0].elems[0], C.Init):
            rows = rows[0].elems
        run.sites(len(rows), 3, "role rows")
        if len(rows) != len(role_tokens):
            run.finding("C13.i", "from_ref_role_ops_for:row-count", f"{len(rows)} rows for {len(role_tokens)} endpoint roles", loc=ALT)
        for r, row in enumerate(rows[:len(role_tokens)]):
            names = [cn(x).lstrip("&") for x in (row.elems if isinstance(row, C.Init) else [])]
            if len(names) != len(cols):
                run.finding("C13.i", f"from_ref_role_ops_for:row{r}:arity", f"row {r} has {len(names)} entries for {len(cols)} slots", loc=ALT)
                continue
            for c, nm in enumerate(names):
                run.count(1, "C13.i.cell")
                stripped = nm
                # role of the function = which role token its name carries ("non_peered" before "peered")
                carried = None
                for tok in sorted(role_tokens, key=len, reverse=True):
                    # the role names the TARGET: `..._to_<role>_from_ref_data`, `from_ref_<role>...`, `..._from_ref_<role>`
                    if re.search(rf"(to_{tok}_from_ref|from_ref_{tok}(_|$))", nm):
                        carried = tok
                        break
                col_tokens = [w for w in cols[c].split("_") if w not in ("matches",)]
                col_ok = all(w in nm for w in col_tokens if w not in ("apply",)) and (("apply" in nm) == ("apply" in cols[c]))
                if cols[c] == "apply_peered_reference":
                    col_ok = col_ok and nm.startswith("apply_peered_reference_to_")
                if cols[c] == "apply_non_peered_reference":
                    col_ok = col_ok and nm.startswith("apply_non_peered_reference_to_")
                if carried != role_tokens[r] or not col_ok:
                    run.finding("C13.i", f"from_ref_role_ops_for:row{r}:{cols[c]}", f"slot `{cols[c]}` of the {role_tokens[r]} row is wired to `{nm}` "
                                f"(role carried: {carried})", loc=ALT)
        ret = [cn(x.e).replace(" ", "") for x in R.find(fa, lambda n: isinstance(n, C.Return))]
        if ret != ["index<table.size()?table[index]:table[0]"] and ret != ["(index<table.size())?table[index]:table[0]"]:
            run.finding("C13.i", "from_ref_role_ops_for:index", f"the row must be selected by the role index: {ret}", loc=ALT)
        fa = R.fn(run, ALT, "apply_reference_to_from_ref_data")
        rl = [Role("EMPTY", "bool", r"reference\.is_empty\(\)"), Role("PEERED", "bool", r"reference\.is_peered\(\)")]

        def spec(v):
            if v.b("EMPTY"):
                return Expect(calls=[("UNBIND", ("plan", "target", "modified_time", False))])
            if v.b("PEERED"):
                return Expect(calls=[("PEER", ("plan", "target", r".*peered_reference_target\(reference\)\.view\(modified_time\)", "modified_time"))])
            return Expect(calls=[("NONPEER", ("plan", "target", "reference", "modified_time"))])
        R.k1(run, "C13.i", fa, rl, spec, role_calls={"UNBIND": r"plan\.ops->unbind", "PEER": r"plan\.ops->apply_peered_reference",
                                                      "NONPEER": r"plan\.ops->apply_non_peered_reference"}, what="apply_reference_to_from_ref_data")

    with run.obligation("C13.n", "K7", "the per-tick accessors of an input read through a reference agree about a retarget: modified() consults the link's sampled "
                        "structural transition, so delta_value() must consult it too (otherwise a keyed input is modified at the retarget cycle while its "
                        "delta_value() is empty) (KNOWN FINDING F-C13-2 on the current tree)"):
        fm = R.fn(run, BASE, "TSInputView::InputDataCursor::modified")
        fd_ = R.fn(run, BASE, "TSInputView::delta_value")
        uses = lambda fa_: any(isinstance(n_, C.Member) and n_.name in ("sampled_structural_transition", "structural_transition_time", "structural_delta_value",
                                                                        "transition_delta_value") for n_ in fa_.body.walk()) or \
            any(R.callee_name(c).split("::")[-1] in ("sampled_structural_transition", "structural_transition_time", "structural_delta_value", "transition_delta_value")
                for c in R.calls(fa_))
        run.count(1, "C13.n")
        if uses(fm) and not uses(fd_):
            run.finding("C13.n", "TSInputView::delta_value:ignores-sampled-transition", "InputDataCursor::modified reports a sampled structural transition (retarget of a keyed "
                        "reference) but TSInputView::delta_value never looks at it: at the retarget cycle a TSS/TSD input is modified and added()/removed() describe the "
                        "old/new difference, while delta_value() has no value", loc=fd_.loc(fd_.body))
        if not uses(fm):
            run.finding("C13.n", "InputDataCursor::modified:ignores-sampled-transition", "modified() no longer consults the sampled structural transition", loc=BASE)

    with run.obligation("C13.o", "K7", "the three removed-accessors of a dictionary input agree about a retarget: removed_keys() takes its range from the data view (the target-link "
                        "ops, which walk the PREVIOUS target's slots during a structural transition); a sibling that ranges over the CURRENT target's slots with the "
                        "slot_removed predicate (which is false for the whole transition cycle) can never report a key that only the old target had "
                        "(KNOWN FINDING F-C13-3 on the current tree)"):
        DV = "src/hgraph/types/time_series/ts_input/dict_view.cpp"
        fam = {}
        for nm in ("removed_keys", "removed_values", "removed_items"):
            fa_ = R.fn(run, DV, f"TSDInputView::{nm}")
            cn_ = R.Canon()
            delegates = any(cn_(c.fn).replace(" ", "") in (f"data_view().{nm}", "data_view().removed_keys") for c in R.calls(fa_))
            own_range = [n_ for n_ in fa_.body.walk() if isinstance(n_, C.Desig) and n_.name == "predicate" and "removed_slot" in cn_(n_.value)]
            aware = any(R.callee_name(c).split("::")[-1] in ("structural_transition_active", "sampled_structural_transition", "previous_target") for c in R.calls(fa_))
            fam[nm] = (delegates, bool(own_range), aware)
            run.count(1, "C13.o")
        run.sample({"rule": "C13.o", "family": {k: {"delegates_to_link_ops": v[0], "ranges_over_current_target": v[1], "handles_transition": v[2]} for k, v in fam.items()}})
        if not fam["removed_keys"][0]:
            raise AnalysisError("model-mismatch", "C13.o: TSDInputView::removed_keys no longer delegates to the data view's removed range")
        # the predicate the own ranges use is false during a transition (confirmed here, not assumed)
        TLO = "src/hgraph/types/time_series/ts_input/target_link_ops.cpp"
        fs = R.fn(run, TLO, "target_link_set_slot_removed")
        cs = R.aliases_of(fs)
        blind = any(isinstance(s0, C.If) and "structural_transition_active()" in cs(s0.cond) and [cs(r.e) for r in R.find(s0.then, lambda x: isinstance(x, C.Return))] == ["false"]
                    for s0 in fs.body.walk())
        for nm, (delegates, own, aware) in fam.items():
            if own and not delegates and not aware and blind:
                run.finding("C13.o", f"TSDInputView::{nm}:ranges-over-current-target-only", f"TSDInputView::{nm} ranges over the current target's slots with the slot_removed "
                            "predicate, which is false during a structural transition, while removed_keys() reports the keys only the previous target had: at the cycle of a "
                            "retarget A -> B a consumer that folds modified_items() + " + nm + "() keeps every A-only key", loc=DV)

    with run.obligation("C13.p", "K1+K7", "in the cycle of a retarget every entry of the NEW target is a modified entry of the consumer (its whole content is new to the reader): "
                        "the per-slot predicate behind modified_keys / modified_values / modified_items answers `slot_live` during a sampled structural transition and the "
                        "target's own slot_modified otherwise, and its sibling that drives the delta export (next_modified_slot) walks exactly the live slots - the two agree"):
        TLO = "src/hgraph/types/time_series/ts_input/target_link_ops.cpp"
        fa = R.fn(run, TLO, "target_link_dict_slot_modified")
        roles = [Role("LNULL", "bool", r"target_link_for\(context,memory\)==nullptr|nullptr==target_link_for\(context,memory\)"),
                 Role("TRANS", "bool", r"target_link_for\(context,memory\)->sampled_structural_transition\(\)")]

        def spec_sm(v):
            if (not v.b("LNULL")) and v.b("TRANS"):
                return Expect(ret=r"target_link_target_view\(context,memory\)\.as_dict\(\)\.slot_live\(slot\)")
            return Expect(ret=r"target_link_target_view\(context,memory\)\.as_dict\(\)\.slot_modified\(slot\)")
        R.k1(run, "C13.p", fa, roles, spec_sm, what="target_link_dict_slot_modified")
        fb = R.fn(run, TLO, "target_link_dict_next_modified_slot")
        cb = R.aliases_of(fb)
        lps = [l for l in R.loops(fb) if isinstance(l, C.For)]
        run.sites(len(lps), 1, "transition scan of next_modified_slot")
        sh = R.loop_shape(lps[0], cb)
        tests = [cb(s0.cond).replace(" ", "") for s0 in lps[0].body.walk() if isinstance(s0, C.If)]
        run.count(1, "C13.p.iter")
        if "slot_capacity(" not in (sh.get("cond_r") or "") or len(tests) != 1 or not re.fullmatch(r".*\.slot_live\(slot\)", tests[0]) or tests[0].startswith("!"):
            run.finding("C13.p", "target_link_dict_next_modified_slot:transition-scan", f"during a sampled transition next_modified_slot must return every live slot of the new target "
                        f"(bounded by the slot capacity); it tests {tests} over {sh.get('cond_r')}", loc=fb.loc(lps[0]))

    with run.obligation("C13.q", "K6", "a reference taken from an input (TSInputView::reference) follows its target by BOUNDNESS, not by validity: a target landing on a from-reference "
                        "alternative stays a reference to that position while the alternative is bound - also while the alternative's own target has not ticked yet - and reads "
                        "as empty only when the alternative is unbound; an `empty` decided by `has no value yet` is published for good and later ticks / retargets never reach "
                        "the consumer"):
        fa = R.fn(run, BASE, "TSInputView::reference")
        cn = R.aliases_of(fa)
        empties = [s0 for s0 in fa.body.walk() if isinstance(s0, C.If) and any("TimeSeriesReference::empty" in cn(r.e) for r in R.find(s0.then, lambda x: isinstance(x, C.Return)) if r.e is not None)]
        run.sites(len(empties), 3, "empty-reference decisions")
        for s0 in empties:
            run.count(1, "C13.q")
            c = cn(s0.cond).replace(" ", "")
            if re.search(r"has_current_value\(\)|\.modified\(|all_valid\(\)", c) or (re.search(r"(?<![\w.])!?[\w.()>-]*valid\(\)", c) and "target" in c):
                run.finding("C13.q", f"TSInputView::reference:empty-decided-by-validity:{c[:60]}", f"TSInputView::reference returns an EMPTY reference when `{c[:140]}`: emptiness must follow "
                            "boundness (`!target.bound()`, `!inner->bound()`) - a bound target that has not ticked yet is still the thing the reference points at", loc=fa.loc(s0))

    with run.obligation("C13.r", "K9", "the alternative (to-REF / from-REF adapter) an output keeps per consumer shape is keyed by the WHOLE identity of the source position: key_for "
                        "fills every member of AlternativeKey (owning output, storage type, data pointer, requested schema) from the source it is asked about - sibling children "
                        "of one fixed-structure output share the data pointer and differ only in the storage type, so a key without it gives two references to siblings one "
                        "shared adapter and both consumers read whichever sibling was bound last"):
        ALTH = "include/hgraph/types/time_series/ts_output/alternative.h"
        st = run.tree.struct(ALTH, "AlternativeKey") if hasattr(run.tree, "struct") else None
        fields = [f.name for f in st.fields] if st is not None else ["source_output", "source_type", "source_data", "requested_schema"]
        fa = R.fn(run, ALT, "TSOutputAlternativeStore::key_for")
        inits = [n_ for n_ in fa.body.walk() if isinstance(n_, C.Init)]
        run.sites(len(inits), 1, "AlternativeKey initialiser")
        slots = R.designated_slots(inits[0])
        run.count(1, "C13.r")
        miss = [f for f in fields if f not in slots]
        if miss or len(fields) < 4:
            run.finding("C13.r", f"key_for:alternative-key-fields-not-filled:{'+'.join(miss)}", f"TSOutputAlternativeStore::key_for leaves {miss} of AlternativeKey at their default "
                        f"(filled: {sorted(slots)}): positions that differ only in those fields share one alternative", loc=fa.loc(inits[0]))


VARIANTS = [
    {"id": "r-seed-C13-9-alternative-key-without-storage-type", "expect": "C13.r", "edits": [{"file": ALT, "find": "            .source_type      = source.storage_type(),\n", "replace": ""}]},
    {"id": "q-seed-C13-7-empty-reference-while-target-has-no-value", "expect": "C13.q", "edits": [{"file": BASE, "find": "                if (inner != nullptr && !inner->bound())", "replace": "                if (inner != nullptr && !target_data.has_current_value())"}]},
    {"id": "c-revert-fix-F-C04-2-shortcut-at-any-position-any-cycle", "expect": "C13.c", "edits": [{"file": BASE, "find": "            if (data_.is_target_root())\n            {\n                const auto *link = data_.link_storage();\n                if (link != nullptr && link->tracking.last_modified_time == evaluation_time_ &&\n                    link->tracking.last_modified_time > data.last_modified_time())", "replace": "            if (is_target_position())\n            {\n                const auto *link = data_.link_storage();\n                if (link != nullptr && link->tracking.last_modified_time > data.last_modified_time())"}]},
    {"id": "c-shortcut-not-keyed-on-cycle", "expect": "C13.c", "edits": [{"file": BASE, "find": "                if (link != nullptr && link->tracking.last_modified_time == evaluation_time_ &&\n                    link->tracking.last_modified_time > data.last_modified_time())\n                {\n                    return data.value();", "replace": "                if (link != nullptr && link->tracking.last_modified_time > data.last_modified_time())\n                {\n                    return data.value();"}]},
    {"id": "p-seed-C13-6-retarget-modified-only-new-or-ticked", "expect": "C13.p", "edits": [{"file": "src/hgraph/types/time_series/ts_input/target_link_ops.cpp", "find": "                return target.as_dict().slot_live(slot);\n            }\n            return target.as_dict().slot_modified(slot);", "replace": "                auto dict = target.as_dict();\n                return dict.slot_live(slot) && (dict.slot_modified(slot) || target_link_set_slot_added(context, memory, slot));\n            }\n            return target.as_dict().slot_modified(slot);"}]},
    {"id": "p-export-scan-skips-unmodified", "expect": "C13.p", "edits": [{"file": "src/hgraph/types/time_series/ts_input/target_link_ops.cpp", "find": "                if (dict.slot_live(slot)) { return slot; }\n            }\n            return TS_DATA_NO_CHILD_ID;", "replace": "                if (dict.slot_live(slot) && dict.slot_modified(slot)) { return slot; }\n            }\n            return TS_DATA_NO_CHILD_ID;"}]},
    {"id": "i-owned-row-uses-peered-unbind", "expect": "C13.i", "edits": [{"file": ALT, "find": "                    &unbind_from_ref_owned,", "replace": "                    &unbind_from_ref_peered,"}]},
    {"id": "i-peered-reference-applied-as-non-peered", "expect": "C13.i", "edits": [{"file": ALT, "find": "                    &apply_peered_reference_to_non_peered_from_ref_data,\n                    &apply_non_peered_reference_to_non_peered_from_ref_data,", "replace": "                    &apply_non_peered_reference_to_non_peered_from_ref_data,\n                    &apply_non_peered_reference_to_non_peered_from_ref_data,"}]},
    {"id": "i-empty-reference-not-unbound", "expect": "C13.i", "edits": [{"file": ALT, "find": "            if (reference.is_empty())\n            {\n                plan.ops->unbind(plan, target, modified_time, false);\n                return;\n            }\n\n            if (reference.is_peered())\n            {\n                const auto &output", "replace": "            if (reference.is_empty())\n            {\n                return;\n            }\n\n            if (reference.is_peered())\n            {\n                const auto &output"}]},
    {"id": "m-revert-fix-stale-removed-mask", "expect": "C13.m", "edits": [{"file": "src/hgraph/types/time_series/ts_input/target_link_ops.cpp", "find": "            return state->slot_access->slot_published(previous, slot) && !added_in_transition &&\n                   !removed_earlier;", "replace": "            return state->slot_access->slot_published(previous, slot) && !added_in_transition;"}]},
    {"id": "m-removed-scan-ungated", "expect": "C13.m", "edits": [{"file": "src/hgraph/types/time_series/ts_input/target_link_ops.cpp", "find": "            if (!previous.modified(link->structural_transition_time())) { return false; }\n", "replace": ""}]},
    {"id": "k-previous-scan-bounded-by-size", "expect": "C13.k", "edits": [{"file": "src/hgraph/types/time_series/ts_input/target_link_ops.cpp", "find": "            const auto capacity = state->slot_access->slot_capacity(previous);", "replace": "            const auto capacity = state->slot_access->size(previous);"}]},
    {"id": "f-rebind-keeps-old-subscription", "expect": "C13.f", "edits": [{"file": ALT, "find": "            if (!source.same_as(next_source))\n            {\n                unsubscribe_source();\n                source = next_source;\n                subscribe_source();\n            }\n            refresh(new_source.evaluation_time());", "replace": "            if (!source.same_as(next_source))\n            {\n                source = next_source;\n                subscribe_source();\n            }\n            refresh(new_source.evaluation_time());"}]},
    {"id": "f-replace-sources-without-unsubscribe", "expect": "C13.f", "edits": [{"file": ALT, "find": "            unsubscribe_reference_sources();\n            reference_sources = std::move(next);", "replace": "            reference_sources = std::move(next);"}]},
    {"id": "f-notify-does-not-refresh", "expect": "C13.f", "edits": [{"file": ALT, "find": "                if (owner != nullptr) { owner->refresh(modified_time); }\n            }\n\n            RefLinkAlternativeState *owner{nullptr};", "replace": "                static_cast<void>(modified_time);\n            }\n\n            RefLinkAlternativeState *owner{nullptr};"}]},
    {"id": "f-interior-never-subscribes", "expect": "C13.f", "edits": [{"file": ALT, "find": "                if (!proxy_backed()) { subscribe_source(); }", "replace": "                if (proxy_backed()) { subscribe_source(); }"}]},
    {"id": "g-invalid-reference-keeps-observing", "expect": "C13.g", "edits": [{"file": ALT, "find": "                unbind_from_ref_data(plan, target, modified_time);\n                replace_reference_sources({});\n                return;", "replace": "                unbind_from_ref_data(plan, target, modified_time);\n                return;"}]},
    {"id": "g-sources-not-replaced", "expect": "C13.g", "edits": [{"file": ALT, "find": "            apply_reference_to_from_ref_data(plan, target, reference, modified_time);\n            replace_reference_sources(std::move(next_reference_sources));", "replace": "            apply_reference_to_from_ref_data(plan, target, reference, modified_time);"}]},
    {"id": "g-interior-refresh-at-min-dt", "expect": "C13.g", "edits": [{"file": ALT, "find": "            if (modified_time == MIN_DT || requested_schema == nullptr || !source.bound()) { return; }\n            apply_from_ref_interior", "replace": "            if (requested_schema == nullptr || !source.bound()) { return; }\n            apply_from_ref_interior"}]},
    {"id": "d-current-value-always-records", "expect": "C13.d", "edits": [{"file": LINK, "find": "        if (output.data_view().has_current_value()) { record_target_modified(modified_time); }", "replace": "        record_target_modified(modified_time);"}]},
    {"id": "d-sampled-accepts-min-dt", "expect": "C13.d", "edits": [{"file": LINK, "find": "            throw std::invalid_argument(\"Sampled TSInput target binding requires an evaluation time\");", "replace": "            modified_time = MIN_DT;"}]},
    {"id": "d-publish-ignores-previous-valid", "expect": "C13.d", "edits": [{"file": LINK, "find": "            sampled && (output.valid() || previous_was_valid || previous_has_published_state);", "replace": "            sampled && (output.valid() || previous_has_published_state);"}]},
    {"id": "d-adopt-without-detach", "expect": "C13.d", "edits": [{"file": LINK, "find": "        if (state_.target.bound()) { detach_target(sampled && structural, modified_time); }\n        else if (!sampled || structural_transition_time() != modified_time)", "replace": "        if (!sampled || structural_transition_time() != modified_time)"}]},
    {"id": "d-sampled-binds-unsampled", "expect": "C13.d", "edits": [{"file": LINK, "find": "        bind_impl(schema, output, modified_time, true, false);", "replace": "        bind_impl(schema, output, modified_time, false, false);"}]},
    {"id": "h-no-same-target-dedup", "expect": "C13.h", "edits": [{"file": ALT, "find": "                existing != nullptr && existing->bound() && existing->target_output().same_as(output.handle()))\n            {\n                return;\n            }", "replace": "                existing != nullptr && existing->bound() && existing->target_output().same_as(output.handle()))\n            {\n                static_cast<void>(existing);\n            }"}]},
    {"id": "h-tsd-bound-by-current-value", "expect": "C13.h", "edits": [{"file": ALT, "find": "            if (schema->kind == TSTypeKind::TSS || schema->kind == TSTypeKind::TSD)\n            {\n                link->bind_sampled(*schema, output, modified_time);", "replace": "            if (schema->kind == TSTypeKind::TSS)\n            {\n                link->bind_sampled(*schema, output, modified_time);"}]},
    {"id": "j-reset-without-unsubscribe", "expect": "C13.j", "edits": [{"file": LINK, "find": "        if (state_.target.bound()) { state_.target.data_view().unsubscribe(&state_); }\n        state_.target.reset();", "replace": "        state_.target.reset();"}]},
    {"id": "a-ite-selects-wrong-branch", "expect": "C13.a", "edits": [{"file": CTRL, "find": "            const TSInputView &selected = condition.value() ? true_value.base() : false_value.base();", "replace": "            const TSInputView &selected = condition.value() ? false_value.base() : true_value.base();"}]},
    {"id": "a-ite-no-dedup", "expect": "C13.a", "edits": [{"file": CTRL, "find": "            if (out.valid() &&\n                out.value().checked_as<TimeSeriesReference>() == reference.checked_as<TimeSeriesReference>())\n            {\n                return;\n            }\n            const auto &erased = static_cast<const TSOutputView &>(out);\n            auto mutation = erased.begin_mutation(erased.evaluation_time());\n            static_cast<void>(mutation.copy_value_from(reference));\n        }\n    };\n\n    struct if_cmp_impl", "replace": "            const auto &erased = static_cast<const TSOutputView &>(out);\n            auto mutation = erased.begin_mutation(erased.evaluation_time());\n            static_cast<void>(mutation.copy_value_from(reference));\n        }\n    };\n\n    struct if_cmp_impl"}]},
    {"id": "a-cmp-ignores-selected-tick", "expect": "C13.a", "edits": [{"file": CTRL, "find": "            if (!(cmp.modified() || selected.modified())) { return; }", "replace": "            if (!cmp.modified()) { return; }"}]},
    {"id": "a-cmp-eq-falls-to-gt", "expect": "C13.a", "edits": [{"file": CTRL, "find": "                                      : cmp.value() == CmpResult::EQ ? eq.base()\n                                                                     : gt.base();", "replace": "                                      : cmp.value() == CmpResult::EQ ? gt.base()\n                                                                     : eq.base();"}]},
    {"id": "c-modified-ignores-link", "expect": "C13.c", "edits": [{"file": BASE, "find": "            if (is_target_root() && raw_data.modified(evaluation_time)) { return true; }   // rebind (sampled)\n", "replace": ""}]},
    {"id": "c-delta-link-newer-or-equal", "expect": "C13.c", "edits": [{"file": BASE, "find": "link->tracking.last_modified_time > data.last_modified_time()", "replace": "link->tracking.last_modified_time >= data.last_modified_time()"}]},
    {"id": "c-lmt-target-only", "expect": "C13.c", "edits": [{"file": BASE, "find": "                return std::max(raw_data.last_modified_time(), data.last_modified_time());", "replace": "                return data.last_modified_time();"}]},
    {"id": "a-twin-ite-demorgan", "expect": None, "edits": [{"file": CTRL, "find": "            if (!(condition.modified() || selected.modified())) { return; }", "replace": "            if (!condition.modified() && !selected.modified()) { return; }"}]},
]
